#!/bin/bash
# setup_cmd: make sure hypothesis is importable in /venv (offline wheelhouse), self-test the shim.
set -e
HERE="$(cd "$(dirname "$0")" && pwd)"
if ! /venv/bin/python -c "import hypothesis" 2>/dev/null; then
  PIP_NO_INDEX=1 /venv/bin/pip install --no-index --find-links /opt/veriftools/wheels hypothesis
fi
mkdir -p "$HERE/evidence"
cd "$HERE"
PYTHONPATH="$HERE:$HERE/vlib/stubs:${VERIF_REPO:-/repo}" PYTHONDONTWRITEBYTECODE=1 /venv/bin/python -W ignore -m vlib.selftest
