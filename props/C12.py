"""C12 Materialised casts deliver the right data to every consumer."""
from __future__ import annotations

import warnings

import numpy as np
from xdsl.dialects import builtin
from hypothesis import strategies as st

from vlib import gen_c12 as G
from vlib import gen_tsl as T
from vlib import machine_c12 as M
from vlib.ctx import PassTimeout, parse, run_pass, shared_ctx, time_limit, to_text
from vlib.interp import InterpError, StepBudget, UseBeforeDef, dominance_errors
from vlib.runner import Info, Outside, Reject, Sub, Violation

ID = "C12"
RULE = (
    "Programs: one function over 1-4 root buffers (L3/L1 arguments, memref.alloc, memref.get_global of initialised and "
    "uninitialised globals - one get_global per root or one per access path -, dense arith.constant; arguments also with a "
    "dynamic first dimension), optionally 4x larger and reached through a tile subview (static tile or tile "
    "number = loop induction variable), chains of 0-3 memref.memory_space_cast / snax.layout_cast (dense and padded TSL targets, "
    "cast back to no layout, identity casts), defined at the function top, at the start of an epoch or per statement / inside "
    "the loop body, feeding 1-9 tagged ops (linalg.generic with and without library_call, dart.operation, dart.schedule, opaque "
    "test.op) with 0-2 inputs and 0-2 outputs in any order, also inside scf.for (nesting <= 2, run-time trip counts 0..3, two "
    "input vectors), casts shared by several consumers, memrefs returned. After the last writer through a cast path of a root, "
    "read-only accesses through ANOTHER path of that root (subview with own casts, one cast chained on the first path, the bare "
    "root with the cast set-memory-space gives it) are interleaved with later reads through the first path, both orders, also "
    "in loops (classes alt-read:*). Mode implicit has no memory spaces and no casts "
    "(set-memory-space makes them), mode explicit has both written out. Pipeline: [alloc-to-global,] set-memory-space, "
    "realize-memref-casts [, clear-memory-space]. The input program (casts = aliases) and the output program (allocs + "
    "memref.copy) are executed on the symbolic buffer machine (vlib/machine_c12.py) and compared: same tagged-op sequence, same "
    "terms read by every op, same final contents of arguments, globals and returned buffers; SSA dominance of both pass outputs "
    "is checked by an own walk. Constants: transform_constant is called directly (memref- and tensor-typed source) and the "
    "ApplyLayoutCast{ArithConstant,MemrefGlobal,SubviewGlobal,MemrefAlloc} patterns are driven through the real pass on a "
    "constant/global(+tile subview)/alloc + layout_cast + consumer module, for every nesting order of every tile split "
    "(exhaustive for <= 4 strides over a list of shapes, sampled up to 9 strides / rank 3 / unit bounds with arbitrary steps), "
    "widths 8/16/32; the new bytes are decoded with the C10 reference address function; for the subview pattern the tile "
    "layout must be the global's new layout restricted to the tile; cases without memory space are pushed through "
    "set-memory-space,realize-memref-casts a second time (input that already carries a layout) and executed again. Dataflow "
    "programs also hold globals whose memref.global / get_global types already carry a dense TSL layout, explicit L1 casts "
    "whose result has derived views (casts chained on it in a later epoch, read and written) and bare uses of the root beside "
    "explicit casts (bare_ok). transpose_tuple and the whole RemoveTransposeConstants "
    "pattern: all shapes 1..12 x 1..12. Boundaries: function type, block arguments and returned types before and after "
    "clear-memory-space; signatures mix memrefs with an explicit space (L1, L3) and without one, as arguments and results: every "
    "annotated boundary type keeps its annotation, un-annotated ones become L3. Dynamic shapes: arguments and allocs with `?` "
    "at any subset of the dimensions (rank 1..3, extents that differ per dimension); the machine works on run-time shapes, "
    "evaluates memref.dim, and a copy between views of different run-time shape or an op operand of another run-time shape "
    "than in the input program is a violation. Non-trivial: explicit program with a cast chain >= 2 or a cast value used by a reader and a writer; "
    "implicit program with >= 2 ops; constant whose target layout is not row-major and was really re-laid-out (no copy left)."
)
ASSUMPTIONS = [
    "xDSL 0.70 compatibility shim (vlib/compat.py)",
    "interpreter vlib/interp.py + symbolic buffer machine vlib/machine_c12.py are the reference semantics: casts are aliases, "
    "memref.copy moves logical elements, accelerator ops read all inputs and overwrite all outputs (outputs are not read), "
    "opaque ops read and write every memref operand",
    "precondition kept by the generator: while a cast buffer of a root may hold data that is newer than the original (from its "
    "first use to the top-level statement of its last writer) the root is reached through no other path; afterwards other "
    "paths may READ it, interleaved with further reads through the first path; a buffer that is only read may be shared freely",
    "meaning of a dense initial value under a TSL layout: logical element idx is stored at position addr(idx) "
    "(vlib/gen_tsl.addr, written from snaxc/ir/tsl/README.md)",
    "reading a never-written memref.alloc is undefined: the comparison accepts anything where the input program reads such data",
]

ACC_FOR_LOCALITY = ("linalg.generic", "dart.operation")
CASTS = ("memref.memory_space_cast", "snax.layout_cast")
# mismatch kinds that mean "an op or the outside world saw other data than in the input program"
DATA_KINDS = ("reads-different-data", "reads-unfilled-buffer", "argument-ends-with-different-data", "global-ends-with-different-data",
              "returned-buffer-holds-different-data")


# ------------------------------------------------------------------------------------------------------------------
# pipeline


class PassCrash(Exception):
    def __init__(self, where, exc):
        super().__init__(f"{where}: {type(exc).__name__}: {str(exc)[:100]}")
        self.where = where
        self.exc = exc


def _run(mod, name):
    try:
        with time_limit(20):
            run_pass(mod, name)
    except PassTimeout:
        raise Reject(f"{name}: no result within 20 s")
    except NotImplementedError as e:
        raise Reject(f"{name}: NotImplementedError: {str(e)[:80]}")
    except Exception as e:
        raise PassCrash(name, e)
    try:
        mod.verify()
    except Exception as e:
        raise PassCrash(name + ":verify", e)


def memspace(t):
    ms = getattr(t, "memory_space", None)
    if ms is None or isinstance(ms, builtin.NoneAttr):
        return None
    return getattr(ms, "data", str(ms))


def is_memref(t):
    return isinstance(t, builtin.MemRefType)


class Case:
    """One program recipe pushed through the pipeline, with everything the four oracles need."""

    def __init__(self, r):
        self.r = r
        self.built = G.build(r)
        with warnings.catch_warnings():
            warnings.simplefilter("ignore")
            self.orig = parse(self.built.text, shared_ctx())
            self.orig.verify()
            self.mid = self.orig.clone()  # after [alloc-to-global,] set-memory-space
            for p in (["alloc-to-global"] if r.get("a2g") else []) + ["set-memory-space"]:
                _run(self.mid, p)
            self.dom_mid = dominance_errors(self.mid)
            self.n_root_allocs = sum(1 for op in self.mid.walk() if op.name == "memref.alloc")
            self.out = self.mid.clone()
            try:
                _run(self.out, "realize-memref-casts")
            except (PassCrash, Reject):
                if not self.dom_mid:
                    raise
                self.out = self.mid  # the input of realize-memref-casts was already broken; reported as such by dataflow
        self.dom = dominance_errors(self.out)

    def shown(self):
        return dict(before=self.built.text, after=to_text(self.out))

    # -------------------------------------------------------------- oracle 1
    def locality(self):
        bad = []
        for op in self.out.walk():
            if op.name in ACC_FOR_LOCALITY:
                for k, o in enumerate(op.operands):
                    if is_memref(o.type) and memspace(o.type) != "L1":
                        bad.append(dict(op=op.name, tag=_tag(op), operand=k, type=str(o.type)))
        return bad

    def roundtrip_operands(self):
        """(tag, operand number) of accelerator operands that, after set-memory-space, end a cast chain that starts in L1,
        leaves L1 and comes back to L1."""
        out = set()
        for op in self.mid.walk():
            if op.name in ACC_FOR_LOCALITY:
                for k, o in enumerate(op.operands):
                    v, spaces = o, []
                    while getattr(v, "op", None) is not None and v.op.name in CASTS:
                        v = v.op.operands[0]
                        spaces.append(memspace(v.type))
                    if len(spaces) >= 2 and memspace(o.type) == "L1" and spaces[-1] == "L1" and any(x != "L1" for x in spaces[:-1]):
                        out.add((_tag(op), k))
        return out

    # -------------------------------------------------------------- oracle 2
    def _cast_users(self):
        """For every cast value (after set-memory-space) with non-cast users: the users in walk order of the cast's block as
        (position, user op, op of the cast's block that contains it, reads, writes)."""
        for op in self.mid.walk():
            if op.name not in CASTS or not op.results[0].uses:
                continue
            blk = op.parent_block()
            order = {o: k for k, o in enumerate(blk.walk())}
            users = []
            for u in op.results[0].uses:
                uo = u.operation
                if uo.name in CASTS or uo not in order:
                    continue
                top = uo
                while top.parent_block() is not blk:
                    top = top.parent_op()
                if uo.name in M.ACC_OPS:
                    nin = int(uo.properties["operandSegmentSizes"].get_values()[0])
                    rd, wr = u.index < nin, u.index >= nin
                elif uo.name == "func.return":
                    rd, wr = True, False
                else:
                    rd, wr = True, True
                users.append((order[uo], uo, top, rd, wr))
            users.sort(key=lambda x: x[0])
            if users:
                yield users

    @staticmethod
    def _ancestors(uo, blk):
        """Ops with regions between the user and the cast's block (innermost first)."""
        out = []
        while uo.parent_block() is not blk:
            uo = uo.parent_op()
            out.append(uo)
        return out

    def loop_copy_site(self):
        """Structural feature: some cast value has its first reading user or its last writing user inside a loop (any op with a
        region between the user and the cast's own block) and another user outside that loop."""
        for users in self._cast_users():
            blk = users[0][2].parent_block()
            rds = [x for x in users if x[3]]
            wrs = [x for x in users if x[4]]
            anc = {id(x[1]): self._ancestors(x[1], blk) for x in users}
            for site in ([rds[0]] if rds else []) + ([wrs[-1]] if wrs else []):
                for loop in anc[id(site[1])]:
                    if any(all(a is not loop for a in anc[id(x[1])]) for x in users):
                        return True
        return False

    def writer_before_first_reader(self):
        """Structural feature: some cast value is written by a user that runs before its first reading user (an earlier op, or
        any op of a loop around the first reader, one iteration earlier) while the last writing user - behind which the
        copy-out is placed - does not lie between the two, so the copy-in in front of the first reader is not preceded by a
        copy-out."""
        for users in self._cast_users():
            blk = users[0][2].parent_block()
            rds = [x for x in users if x[3]]
            wrs = [x for x in users if x[4]]
            if not rds or not wrs:
                continue
            first, last = rds[0], wrs[-1]
            if last[0] >= first[0] and any(w[0] < first[0] for w in wrs):
                return True
            inside = lambda x, loop: any(a is loop for a in self._ancestors(x[1], blk))  # noqa: E731
            for loop in self._ancestors(first[1], blk):
                if any(inside(w, loop) for w in wrs) and not inside(last, loop):
                    return True  # back edge of `loop`: what a writer inside it wrote is not copied out inside it
        return False

    @staticmethod
    def _has_real_users(value):
        return any(u.operation.name not in CASTS or Case._has_real_users(u.operation.results[0]) for u in value.uses)

    def dead_cast_in_place(self):
        """Structural feature (output program): a cast without real users was left in place on a buffer that stands in for a
        cast (a memref.alloc result with real users), and a copy of that buffer was placed at the dead cast: the copy-out
        directly behind it (or behind the statement around it), or the copy-in directly in front of it."""
        for op in self.out.walk():
            if op.name not in CASTS or self._has_real_users(op.results[0]):
                continue
            src = op.operands[0]
            if getattr(getattr(src, "op", None), "name", "") != "memref.alloc" or not self._has_real_users(src):
                continue
            at = op
            while at is not None and at.parent_block() is not None:
                nxt = at.next_op
                while nxt is not None and nxt.name in CASTS and not self._has_real_users(nxt.results[0]):
                    nxt = nxt.next_op
                if nxt is not None and nxt.name == "memref.copy" and nxt.operands[0] is src:
                    return True
                prv = at.prev_op
                if prv is not None and prv.name == "memref.copy" and prv.operands[1] is src:
                    return True
                at = at.parent_op()
                if at is None or at.name == "func.func":
                    break
        return False

    def shared_cast_beside_other_paths(self):
        """Structural feature (after set-memory-space): an accelerator operand that was a bare non-L1 value v in the input now
        goes through an L1 cast X of v although v is also reached through other users (casts, subviews, other ops), and X is
        an explicit cast of the input (`c12.x`) or serves two or more such operands."""
        bare = set()
        for op in self.orig.walk():
            if op.name in ACC_FOR_LOCALITY:
                for k, o in enumerate(op.operands):
                    if is_memref(o.type) and memspace(o.type) != "L1" and getattr(getattr(o, "op", None), "name", "") not in CASTS:
                        bare.add((_tag(op), k))
        ok_users = ACC_FOR_LOCALITY + ("func.return",)
        for op in self.mid.walk():
            if op.name not in ACC_FOR_LOCALITY:
                continue
            for k, o in enumerate(op.operands):
                x = getattr(o, "op", None)
                if (_tag(op), k) not in bare or x is None or x.name != "memref.memory_space_cast":
                    continue
                v = x.operands[0]
                others = [u for u in v.uses if u.operation is not x and u.operation.name not in ok_users]
                others += [u for u in o.uses if u.operation.name not in ok_users]
                if not others:
                    continue
                nbare = sum(1 for u in o.uses if (_tag(u.operation), u.index) in bare)
                if "c12.x" in x.attributes or nbare >= 2:
                    return True
        return False

    def global_transformed_twice(self):
        return any(op.name == "memref.global" and op.sym_name.data.endswith("_transformed_transformed")
                   and not isinstance(op.initial_value, builtin.UnitAttr) for op in self.out.walk())

    def dataflow(self):
        """([(signature, detail)], number of executions). All mismatches of all executions, one per signature."""
        found: dict = {}
        n = 0
        self.stats = dict(copies=0, events=0, poison=False, trips=[])
        for k in range(2):
            terms = M.Terms()
            spec = G.run_args(self.r, self.built, k)
            trips = [a[1] for a in spec if a[0] == "int"]
            try:
                ref = M.run(self.orig, "main", terms, spec)
            except StepBudget:
                continue
            mis = []
            out = None
            try:
                out = M.run(self.out, "main", terms, spec, root_allocs=self.n_root_allocs)
            except StepBudget:
                continue
            except UseBeforeDef as e:
                mis.append(("value-used-before-it-is-defined", dict(error=str(e)[:200])))
            except M.Unsupported as e:
                raise Outside(f"machine: {str(e)[:80]}")
            except M.ShapeMismatch as e:
                mis.append(("copy-between-buffers-of-different-run-time-shape", dict(error=str(e)[:300])))
            except InterpError as e:
                mis.append(("output-program-not-executable", dict(error=str(e)[:200])))
            n += 1
            if out is not None:
                refp = set(ref.m.problems)
                for sig, text in out.m.problems:
                    if (sig, text) not in refp:
                        mis.append((sig, dict(problem=text)))
                mis += M.compare(terms, ref, out)
                self.stats["copies"] += out.m.ncopies
                self.stats["events"] += len(ref.m.trace)
                self.stats["poison"] |= any(terms.is_tainted(t) for e in ref.m.trace for rd in e[2] for t in rd)
                self.stats["trips"] += trips
            missing = any(k_ == "get_global-of-missing-symbol" for k_, _ in mis)
            for kind, det in mis:
                sig = "dataflow:" + kind
                if kind in DATA_KINDS and missing:
                    # what is read through the dangling memref.get_global is undefined; the cause is reported once
                    continue
                if kind in DATA_KINDS and self.shared_cast_beside_other_paths():
                    sig = "dataflow:set-memory-space-routes-a-bare-operand-through-a-cast-buffer-beside-other-paths"
                elif kind in DATA_KINDS and self.dead_cast_in_place():
                    sig = "dataflow:dead-cast-left-in-place-is-counted-as-a-user-of-the-cast-buffer"
                elif kind in DATA_KINDS and out is not None and out.m.clobbers and self.writer_before_first_reader():
                    sig = "dataflow:copy-in-overwrites-what-an-earlier-writer-left-in-the-cast-buffer"
                elif kind in DATA_KINDS and self.global_transformed_twice() and "val:" in str(det.get("expected")) and "val:" in str(det.get("got")):
                    sig = "dataflow:initialised-global-is-re-laid-out-more-than-once"
                elif kind in DATA_KINDS and 0 in trips and self.loop_copy_site():
                    sig = "dataflow:copy-placed-inside-a-loop-that-runs-zero-times"
                if sig not in found:
                    found[sig] = dict(mismatch=det, kind=kind, trips=trips, **self.shown())
        return list(found.items()), n

    # -------------------------------------------------------------- oracle 4
    def boundaries(self):
        from xdsl.dialects import func

        bad = []
        fo = [op for op in self.orig.walk() if isinstance(op, func.FuncOp)]
        fn = {op.sym_name.data: op for op in self.out.walk() if isinstance(op, func.FuncOp)}
        for f0 in fo:
            f1 = fn.get(f0.sym_name.data)
            if f1 is None:
                bad.append(dict(kind="function-disappeared", name=f0.sym_name.data))
                continue
            public = f0.sym_visibility is None or f0.sym_visibility.data == "public"
            if not public:
                continue
            t0 = list(f0.function_type.inputs) + list(f0.function_type.outputs)
            t1 = list(f1.function_type.inputs) + list(f1.function_type.outputs)
            if len(t0) != len(t1):
                bad.append(dict(kind="signature-arity-changed"))
                continue
            for k, (a, c) in enumerate(zip(t0, t1)):
                if not is_memref(a):
                    continue
                want = memspace(a) or "L3"
                if not is_memref(c) or memspace(c) != want:
                    bad.append(dict(kind="external-memory-space-not-kept", position=k, before=str(a), after=str(c), want=want))
                elif c.get_shape() != a.get_shape() or c.element_type != a.element_type or c.layout != a.layout:
                    bad.append(dict(kind="external-type-changed", position=k, before=str(a), after=str(c)))
            if f1.body.blocks:
                blk = f1.body.blocks[0]
                if [a.type for a in blk.args] != list(f1.function_type.inputs):
                    bad.append(dict(kind="block-arguments-differ-from-signature"))
                for op in f1.body.walk():
                    if isinstance(op, func.ReturnOp) and [o.type for o in op.operands] != list(f1.function_type.outputs):
                        bad.append(dict(kind="returned-types-differ-from-signature", returned=[str(o.type) for o in op.operands],
                                        declared=[str(t) for t in f1.function_type.outputs]))
        return bad

    def after_clear(self):
        """Boundary types after clear-memory-space. The types are inspected BEFORE the module is verified, so a space left on
        the signature is reported as such and not as the verifier error it also causes."""
        from xdsl.dialects import func

        mod = self.out.clone()
        try:
            with time_limit(20):
                run_pass(mod, "clear-memory-space")
        except PassTimeout:
            raise Reject("clear-memory-space: no result within 20 s")
        except Exception as e:
            raise PassCrash("clear-memory-space", e)
        bad = []
        for op in mod.walk():
            if isinstance(op, func.FuncOp):
                ts = [("signature", t) for t in list(op.function_type.inputs) + list(op.function_type.outputs)]
                if op.body.blocks:
                    ts += [("block-argument", a.type) for a in op.body.blocks[0].args]
                    for o in op.body.walk():
                        if isinstance(o, func.ReturnOp):
                            ts += [("returned-value", x.type) for x in o.operands]
                for where, t in ts:
                    if is_memref(t) and memspace(t) is not None:
                        bad.append(dict(kind="memory-space-left-on-" + where, type=str(t)))
        if not bad:
            for op in mod.walk():
                for v in list(op.operands) + list(op.results):
                    if is_memref(v.type) and memspace(v.type) is not None:
                        bad.append(dict(kind="memory-space-left-on-value", op=op.name, type=str(v.type)))
        if not bad:
            try:
                mod.verify()
            except Exception as e:
                raise PassCrash("clear-memory-space:verify", e)
        return bad, mod


def _tag(op):
    a = op.attributes.get(M.TAG)
    return a.value.data if a is not None else None


def _classes(c: Case):
    b = c.built
    cls = set(b.features)
    cls.add("mode:" + c.r["mode"])
    cls.add(f"chain:{b.max_chain}")
    if b.shared_rw:
        cls.add("cast-read-and-written")
    if b.shared_multi:
        cls.add("cast-shared")
    if c.r.get("a2g"):
        cls.add("alloc-to-global")
    if b.alt_reads:
        cls.add("alt-read:any")
    return cls


def _case(r):
    try:
        return Case(r)
    except PassCrash as e:
        raise Reject(f"pass raised {e}")


def _nontrivial_prog(c: Case):
    b = c.built
    if c.r["mode"] == "explicit":
        return b.max_chain >= 2 or b.shared_rw
    return b.ntags >= 2


# ------------------------------------------------------------------------------------------------------------------
# sub-properties 1, 2, 4


def prop_locality(r):
    c = _case(r)
    bad = c.locality()
    if bad:
        rt = c.roundtrip_operands()
        other = [b for b in bad if (b["tag"], b["operand"]) not in rt]
        if other:
            raise Violation("locality:accelerator-operand-not-in-L1", dict(operands=other[:4], **c.shown()))
        raise Violation("locality:chain-returning-to-source-type-is-replaced-by-intermediate-cast", dict(operands=bad[:4], **c.shown()))
    nacc = sum(1 for op in c.out.walk() if op.name in ACC_FOR_LOCALITY)
    return Info(nontrivial=nacc >= 1 and _nontrivial_prog(c), classes=tuple(sorted(_classes(c))), sample=c.shown())


def prop_dataflow(r):
    c = _case(r)
    if c.dom_mid:
        raise Violation("dataflow:set-memory-space-reuses-cast-that-does-not-dominate-user", dict(errors=c.dom_mid[:3], before=c.built.text, after=to_text(c.mid)))
    if c.dom:
        raise Violation("dataflow:realize-memref-casts-breaks-dominance", dict(errors=c.dom[:3], **c.shown()))
    found, n = c.dataflow()
    if n == 0 and not found:
        raise Outside("all executions exceeded the step budget")
    cls = _classes(c)
    s = getattr(c, "stats", {})
    if s.get("poison"):
        cls.add("reads-unwritten-alloc")
    cls.add("copies:" + ("0" if not s.get("copies") else "1-3" if s["copies"] <= 3 else "4+"))
    for t in s.get("trips", ()):
        cls.add("trips:" + ("0" if t == 0 else "1" if t == 1 else "2+"))
    return Info(nontrivial=_nontrivial_prog(c) and bool(s.get("events")) and not found, classes=tuple(sorted(cls)), sample=c.shown(), evals=max(n, 1), known=found)


def prop_boundaries(r):
    c = _case(r)
    bad = c.boundaries()
    if bad:
        raise Violation("boundaries:" + bad[0]["kind"], dict(problems=bad[:4], **c.shown()))
    try:
        bad2, mod = c.after_clear()
    except PassCrash as e:
        raise Reject(f"pass raised {e}")
    if bad2:
        raise Violation("boundaries:after-clear:" + bad2[0]["kind"], dict(problems=bad2[:4], before=to_text(c.out), after=to_text(mod)))
    nmem = sum(1 for a in c.built.arg_spec if a[0] == "mem") + len(c.r.get("ret", []))
    cls = _classes(c)
    from xdsl.dialects import func

    for f in c.orig.walk():
        if isinstance(f, func.FuncOp) and (f.sym_visibility is None or f.sym_visibility.data == "public"):
            ins_ = [memspace(t) for t in f.function_type.inputs if is_memref(t)]
            outs_ = [memspace(t) for t in f.function_type.outputs if is_memref(t)]
            both = ins_ + outs_
            if any(x is None for x in both) and any(x is not None for x in both):
                cls.add("sig:annotated-and-unannotated-memrefs")
                if "L1" in ins_:
                    cls.add("sig:explicit-L1-argument-beside-unannotated")
                if "L1" in outs_:
                    cls.add("sig:explicit-L1-result-beside-unannotated")
                if "L3" in both:
                    cls.add("sig:explicit-L3-beside-unannotated")
    return Info(nontrivial=nmem >= 1, classes=tuple(sorted(cls)), sample=c.shown())


# ------------------------------------------------------------------------------------------------------------------
# sub-property 3: constants


def _casts(src_t, first_t, chain2):
    if chain2 is None:
        return [f'    %c = "snax.layout_cast"(%k) : ({src_t}) -> {first_t}']
    return [f'    %c0 = "snax.layout_cast"(%k) : ({src_t}) -> {first_t}', chain2]


def _const_module(r, layout, shape, data):
    """Module text for the pattern kinds: constant/global (+ subview) -> snax.layout_cast -> tagged consumer."""
    elt = r["elt"]
    sp = r.get("space")
    lt = G.tsl_text(layout)
    kind = r["kind"]
    tile_t = G.mtype(shape, elt, None, sp)
    dst_t = G.mtype(shape, elt, lt, sp)
    if r.get("order2") and kind in ("arith", "global", "global_uninit", "alloc"):
        # chain of two layout casts: the consumer gets the second layout
        tb2 = [[max(1, int(x)) for x in bs] for bs in r["tb"]]
        lt2 = G.tsl_text(G.layout_from_order(tb2, [tuple(p) for p in r["order2"]]))
        mid_t = dst_t
        dst_t = G.mtype(shape, elt, lt2, sp)
        chain2 = f'    %c = "snax.layout_cast"(%c0) : ({mid_t}) -> {dst_t}'
    else:
        chain2 = None
    use = f'    "test.op"(%c) {{"c12.tag" = 0 : i64}} : ({dst_t}) -> ()'
    head = '  "func.func"() <{sym_name = "main", function_type = () -> ()}> ({\n  ^bb0():'
    tail = '    "func.return"() : () -> ()\n  }) : () -> ()\n}'
    if kind == "arith":
        return "\n".join(["builtin.module {", head,
                          f'    %k = "arith.constant"() <{{value = {G.dense_text(data, shape)} : {tile_t}}}> : () -> {tile_t}',
                          *_casts(tile_t, mid_t if chain2 else dst_t, chain2), use, tail]), shape, None
    if kind == "alloc":
        return "\n".join(["builtin.module {", head,
                          f'    %k = "memref.alloc"() <{{operandSegmentSizes = array<i32: 0, 0>, alignment = 64 : i64}}> : () -> {tile_t}',
                          *_casts(tile_t, mid_t if chain2 else dst_t, chain2), use, tail]), shape, None
    if kind in ("global", "global_uninit"):
        iv = (f'initial_value = {G.dense_text(data, shape)} : tensor<{"x".join(map(str, shape))}xi{elt}>, constant' if kind == "global"
              else "initial_value")
        g = (f'  "memref.global"() <{{sym_name = "g", type = {G.mtype(shape, elt)}, {iv}, '
             f'sym_visibility = "private", alignment = 64 : i64}}> : () -> ()')
        return "\n".join(["builtin.module {", g, head,
                          f'    %k = "memref.get_global"() <{{name = @g}}> : () -> {tile_t}',
                          *_casts(tile_t, mid_t if chain2 else dst_t, chain2), use, tail]), shape, None
    # subview_global
    mult = [max(1, m) for m in r["sub"]["mult"]]
    mult = [mult[d % len(mult)] for d in range(len(shape))]
    gshape = [n * m for n, m in zip(shape, mult)]
    tile = [r["sub"]["tile"][d % len(r["sub"]["tile"])] % mult[d] for d in range(len(shape))]
    offs = [t * n for t, n in zip(tile, shape)]
    strides = [int(np.prod(gshape[d + 1:])) for d in range(len(shape))]
    off = sum(o * s for o, s in zip(offs, strides))
    big_t = G.mtype(gshape, elt, None, sp)
    sv_t = G.mtype(shape, elt, f"strided<[{', '.join(map(str, strides))}], offset: {off}>", sp)
    g = (f'  "memref.global"() <{{sym_name = "g", type = {G.mtype(gshape, elt)}, initial_value = {G.dense_text(data, gshape)} : '
         f'tensor<{"x".join(map(str, gshape))}xi{elt}>, sym_visibility = "private", constant, alignment = 64 : i64}}> : () -> ()')
    rank = len(shape)
    return "\n".join(["builtin.module {", g, head,
                      f'    %k = "memref.get_global"() <{{name = @g}}> : () -> {big_t}',
                      f'    %s = "memref.subview"(%k) <{{operandSegmentSizes = array<i32: 1, 0, 0, 0>, static_offsets = array<i64: {", ".join(map(str, offs))}>, '
                      f'static_sizes = array<i64: {", ".join(map(str, shape))}>, static_strides = array<i64: {", ".join(["1"] * rank)}>}}> : ({big_t}) -> {sv_t}',
                      f'    %c = "snax.layout_cast"(%s) : ({sv_t}) -> {G.mtype(shape, elt, lt, sp)}',
                      use, tail]), gshape, offs


def prop_constants(r):
    from xdsl.dialects import builtin as B

    tb = [[max(1, int(x)) for x in bs] for bs in r["tb"]]
    order = [tuple(p) for p in r["order"]]
    pos = [(d, k) for d, bs in enumerate(tb) for k in range(len(bs))]
    if sorted(order) != sorted(pos):
        raise Outside("order is not a permutation of the stride positions")
    if r.get("order2") is not None and sorted(tuple(p) for p in r["order2"]) != sorted(pos):
        raise Outside("order2 is not a permutation of the stride positions")
    layout = G.layout_from_order(tb, order)
    if r.get("unit_step"):
        for dim in layout["dims"]:
            for st_ in dim:
                if st_[1] == 1:
                    st_[0] = int(r["unit_step"])
    if not T.ref_dense(layout):
        raise Outside("layout not dense (generator bug)")
    shape = T.shape_of(layout)
    elt = r["elt"]
    kind = r["kind"]
    rm = G.is_row_major(layout)
    cls = [f"kind:{kind}", f"elt:{elt}", f"rank:{len(shape)}", f"strides:{len(pos)}", "row-major" if rm else "permuted"]
    from snaxc.transforms.realize_memref_casts import transform_constant

    if kind in ("direct_memref", "direct_tensor"):
        n = int(np.prod(shape))
        data = G.data_values(r.get("seed", 0), n, elt)
        et = B.IntegerType(elt)
        ty = B.MemRefType(et, shape) if kind == "direct_memref" else B.TensorType(et, shape)
        src = B.DenseIntOrFPElementsAttr.from_list(ty, data)
        attr = T.mk_attr(layout)
        try:
            with warnings.catch_warnings():
                warnings.simplefilter("ignore")
                new = transform_constant(src, attr)
        except NotImplementedError as e:
            raise Reject(f"transform_constant: NotImplementedError {str(e)[:60]}")
        except Exception as e:
            raise Violation(f"constants:transform_constant:raises:{type(e).__name__}", dict(layout=G.tsl_text(layout), shape=shape, error=str(e)[:200]))
        if new is None:
            return Info(nontrivial=False, classes=tuple(cls + ["not-transformed"]))
        nt = new.type
        if not isinstance(nt, B.MemRefType) or list(nt.get_shape()) != shape or nt.element_type != et or nt.layout != attr:
            raise Violation("constants:transform_constant:result-type", dict(layout=G.tsl_text(layout), got=str(nt)))
        vals = list(new.get_values())
        logical, probs = M.decode_dense(vals, tuple(shape), layout)
        if probs or logical != data:
            bad = next((i for i, (a, c) in enumerate(zip(data, logical)) if a != c), None)
            raise Violation("constants:transform_constant:value-at-layout-address-differs",
                            dict(layout=G.tsl_text(layout), shape=shape, element=bad, expected=data[:16], decoded=logical[:16], stored=vals[:16], problems=probs))
        return Info(nontrivial=not rm, classes=tuple(cls + ["transformed"]))

    # pattern kinds: through the real pass, executed on the buffer machine before and after
    if kind == "subview_global":
        mult = [max(1, m) for m in r["sub"]["mult"]]
        n = int(np.prod([s * mult[d % len(mult)] for d, s in enumerate(shape)]))
    else:
        n = int(np.prod(shape))
    data = G.data_values(r.get("seed", 0), n, elt)
    text, gshape, offs = _const_module(r, layout, shape, data)
    with warnings.catch_warnings():
        warnings.simplefilter("ignore")
        orig = parse(text, shared_ctx())
        orig.verify()
        out = orig.clone()
        try:
            _run(out, "realize-memref-casts")
        except PassCrash as e:
            raise Violation(f"constants:{kind}:pass-raises:{type(e.exc).__name__}", dict(layout=G.tsl_text(layout), error=str(e)[:300], before=text))
    shown = dict(before=text, after=to_text(out))
    transformed = not any(op.name == "memref.copy" for op in out.walk())
    t0 = next(op for op in orig.walk() if op.name == "test.op").operands[0].type
    t1 = next(op for op in out.walk() if op.name == "test.op").operands[0].type
    if t0 != t1:
        raise Violation(f"constants:{kind}:consumer-sees-another-type-than-the-cast-promised", dict(promised=str(t0), got=str(t1), **shown))
    terms = M.Terms()
    ref = M.run(orig, "main", terms, [])
    try:
        res = M.run(out, "main", terms, [])
    except InterpError as e:
        raise Violation(f"constants:{kind}:output-not-executable", dict(error=str(e)[:200], **shown))
    mis = [(s_, dict(problem=t_)) for s_, t_ in res.m.problems] + M.compare(terms, ref, res)
    if mis:
        raise Violation(f"constants:{kind}:{mis[0][0]}", dict(layout=G.tsl_text(layout), mismatch=mis[0][1], **shown))
    if kind == "subview_global" and transformed:
        # the tile layout the consumer was promised must be the global's new layout restricted to the tile (up to the base)
        sv = next(op for op in out.walk() if op.name == "memref.subview")
        try:
            gl = M.tsl_recipe_of(sv.operands[0].type.layout)
            tl = M.tsl_recipe_of(sv.results[0].type.layout)
        except M.Unsupported as e:
            raise Violation("constants:subview_global:layout-kind", dict(error=str(e), **shown))
        if gl is None or tl is None:
            raise Violation("constants:subview_global:layout-missing-after-transformation", shown)
        base_g = T.addr(gl, offs)
        base_t = T.addr(tl, [0] * len(shape))
        for idx in np.ndindex(*shape):
            if T.addr(gl, [o + i for o, i in zip(offs, idx)]) - base_g != T.addr(tl, idx) - base_t:
                raise Violation("constants:subview_global:tile-layout-is-not-the-global-layout-restricted-to-the-tile",
                                dict(index=[int(i) for i in idx], global_layout=G.tsl_text(gl), tile_layout=G.tsl_text(tl), **shown))
    cls.append("transformed" if transformed else "copied")
    if r.get("order2") is not None and kind in ("arith", "global", "global_uninit", "alloc"):
        cls.append("chain-of-two-layout-casts")
        first = [pos.index(p) for p in order]
        if any(first[first[k]] != k for k in range(len(first))):
            cls.append("chain-of-two-layout-casts:first-order-not-an-involution")
    evals = 2
    if r.get("space") is None:
        # second round: the output (global / constant / alloc that now carries the layout, no memory space anywhere) is input
        # of the pipeline again; the consumer must still read the same logical values through the declared layout
        out2 = out.clone()
        try:
            with warnings.catch_warnings():
                warnings.simplefilter("ignore")
                _run(out2, "set-memory-space")
                _run(out2, "realize-memref-casts")
        except PassCrash as e:
            raise Violation(f"constants:{kind}:round2:pass-raises:{type(e.exc).__name__}", dict(error=str(e)[:300], before=to_text(out)))
        try:
            res2 = M.run(out2, "main", terms, [])
        except InterpError as e:
            raise Violation(f"constants:{kind}:round2:output-not-executable", dict(error=str(e)[:200], before=to_text(out), after=to_text(out2)))
        mis2 = [(s_, dict(problem=t_)) for s_, t_ in res2.m.problems] + M.compare(terms, ref, res2)
        if mis2:
            raise Violation(f"constants:{kind}:round2:{mis2[0][0]}", dict(layout=G.tsl_text(layout), mismatch=mis2[0][1], before=to_text(out), after=to_text(out2)))
        cls.append("round2")
        evals = 3
    return Info(nontrivial=transformed and not rm, classes=tuple(cls), sample=shown, evals=evals)


def prop_transpose(r):
    from snaxc.transforms.frontend.remove_transpose_constants import RemoveTransposeConstants

    d0, d1 = int(r["d0"]), int(r["d1"])
    if d0 < 1 or d1 < 1:
        raise Outside("empty shape")
    data = G.data_values(r.get("seed", 0), d0 * d1, 32)
    cls = [f"mode:{r['mode']}", "square" if d0 == d1 else "vector" if 1 in (d0, d1) else "rect"]
    if r["mode"] == "direct":
        try:
            got = list(RemoveTransposeConstants().transpose_tuple(tuple(data), d0, d1))
        except Exception as e:
            raise Violation(f"transpose:transpose_tuple:raises:{type(e).__name__}", dict(shape=[d0, d1], error=str(e)[:200]))
    else:
        from xdsl.pattern_rewriter import PatternRewriteWalker

        text = f"""builtin.module {{
  %c = "arith.constant"() <{{value = {G.dense_text(data, [d0, d1])} : tensor<{d0}x{d1}xi32>}}> : () -> tensor<{d0}x{d1}xi32>
  %e = "tensor.empty"() : () -> tensor<{d1}x{d0}xi32>
  %t = "linalg.generic"(%c, %e) <{{indexing_maps = [affine_map<(d0, d1) -> (d1, d0)>, affine_map<(d0, d1) -> (d0, d1)>], iterator_types = [#linalg.iterator_type<parallel>, #linalg.iterator_type<parallel>], operandSegmentSizes = array<i32: 1, 1>}}> ({{
  ^bb0(%a: i32, %b: i32):
    "linalg.yield"(%a) : (i32) -> ()
  }}) : (tensor<{d0}x{d1}xi32>, tensor<{d1}x{d0}xi32>) -> tensor<{d1}x{d0}xi32>
  "test.op"(%t) : (tensor<{d1}x{d0}xi32>) -> ()
}}"""
        mod = parse(text, shared_ctx())
        mod.verify()
        try:
            PatternRewriteWalker(RemoveTransposeConstants(), apply_recursively=False).rewrite_module(mod)
            mod.verify()
        except Exception as e:
            raise Violation(f"transpose:pattern:raises:{type(e).__name__}", dict(shape=[d0, d1], error=str(e)[:200]))
        use = next(op for op in mod.walk() if op.name == "test.op")
        src = use.operands[0].owner
        if getattr(src, "name", "") != "arith.constant":
            return Info(nontrivial=False, classes=tuple(cls + ["not-folded"]))
        if list(use.operands[0].type.get_shape()) != [d1, d0]:
            raise Violation("transpose:pattern:result-shape", dict(shape=[d0, d1], got=str(use.operands[0].type)))
        got = list(src.value.get_values())
    want = [data[j * d1 + i] for i in range(d1) for j in range(d0)]  # out[i][j] = in[j][i], out is d1 x d0 row-major
    if got != want:
        bad = next((k for k, (a, c) in enumerate(zip(want, got)) if a != c), None)
        raise Violation(f"transpose:{r['mode']}:element-differs", dict(shape=[d0, d1], position=bad, expected=want[:12], got=got[:12]))
    return Info(nontrivial=d0 > 1 and d1 > 1, classes=tuple(cls))


def transpose_exhaustive(tier):
    for d0 in range(1, 13):
        for d1 in range(1, 13):
            for mode in ("direct", "pattern"):
                yield dict(d0=d0, d1=d1, mode=mode, seed=d0 * 13 + d1)


def _prog_no_const(tier):
    """Programs for the boundary clause: dense arith.constant roots become initialised globals (clear-memory-space leaves the
    type inside an arith.constant's value attribute alone and the module no longer verifies; that is a crash, not a boundary)."""
    def fix(r):
        for rt in r["roots"]:
            if rt["kind"] == "const":
                rt["kind"] = "glob"
        return r

    # half of the cases in implicit mode: only there memrefs without a memory space exist, also beside annotated ones
    return st.one_of(G.program(tier), G.program(tier, mode="implicit")).map(fix)


SUBS = [
    Sub("locality", lambda tier: G.program(tier), prop_locality, budget=dict(quick=500, thorough=8000), floor=dict(quick=70, thorough=1100),
        nontrivial_rule="at least one linalg.generic/dart.operation; explicit mode: chain >= 2 or cast read and written; implicit mode: >= 2 ops"),
    Sub("dataflow", lambda tier: G.program(tier), prop_dataflow, budget=dict(quick=2000, thorough=30000), floor=dict(quick=230, thorough=3300),
        nontrivial_rule="as locality, at least one tagged op executed, no mismatch of any kind in the case"),
    Sub("constants", lambda tier: G.constant_case(tier), prop_constants, budget=dict(quick=2500, thorough=30000),
        exhaustive=G.constant_exhaustive, floor=dict(quick=600, thorough=6000),
        nontrivial_rule="constant/global really re-laid-out (no copy left) and the target layout is not row-major"),
    Sub("transpose", lambda tier: st.nothing(), prop_transpose, budget=dict(quick=0, thorough=0), exhaustive=transpose_exhaustive,
        exhaustive_only=True, floor=dict(quick=60, thorough=60), nontrivial_rule="both dimensions > 1"),
    Sub("boundaries", _prog_no_const, prop_boundaries, budget=dict(quick=500, thorough=8000), floor=dict(quick=80, thorough=1300),
        nontrivial_rule="public function with at least one memref argument or result"),
]
