"""C18 Kernel recognition and expansion preserve the scalar function."""
from __future__ import annotations

from vlib import ctx as C
from vlib import gen_c18 as G
from vlib import scalar_eval as E
from vlib.runner import Info, Outside, Reject, Sub, Violation  # noqa: F401

from xdsl.dialects import linalg
from xdsl.parser import Parser

from snaxc.accelerators.dispatching import DispatchTemplate
from snaxc.dialects import kernel as K

ID = "C18"
RULE = (
    "linalg_to_kernel: linalg.generic bodies = type-correct DAGs of 1..6 ops from addi/muli/subi/extsi over 2..6 block "
    "arguments of widths i8/i16/i32/i64, any wiring, operand order and yielded value; ~55% carry the op-type sequence of a "
    "kernel's equivalent region (canonical wiring, canonical plus 1..3 rewirings, or random wiring), plus the complete set of "
    "<=2-op bodies over 3 arguments at one width (thorough: 4 widths and all 3-op bodies at i8 yielding their last op). Oracle: body before vs body "
    "after `convert-linalg-to-kernel`, kernel ops evaluated through their own equivalent_region, on all corner inputs "
    "(min,-1,0,1,max per argument, all combinations) + 4 Hypothesis-drawn + 192 seed-derived vectors; equal outputs or the body is "
    "structurally unchanged. A quarter of the generated bodies also use values defined OUTSIDE of the body block (captured): scalar "
    "function arguments at positions 0..5, iter_args of an scf.for around the generic (loop block arguments 1..5), results of an "
    "op in front of it; three quarters of those replace uses of body argument #i by a captured value that sits at the same "
    "block-argument index #i of its own block and has the same type (half of them in a kernel's own wiring), the rest use any "
    "captured values in any type-correct place; plus the enumerated block: every kernel's own body with every non-empty subset of "
    "its arguments replaced by the same-index same-type function argument, and by the same-index iter_arg. Captured values are "
    "further free inputs of the scalar function (corner values, drawn and derived vectors like the block arguments). "
    "Non-trivial: the body has a kernel's op-type sequence and argument count. "
    "kernel_roundtrip: every kernel op x width combination with a well-typed definition (others: outside), operands = block "
    "arguments in order (75%) or any type-consistent choice; expansion by `convert-kernel-to-linalg` equals the kernel definition "
    "and a Python restatement of the kernel's meaning on the same vectors; `convert-linalg-to-kernel` recovers the same kernel. "
    "Non-trivial: the kernel was expanded and compared. rescale: kernel.rescale (i32)->i8 with drawn zero points, multiplier, shift 0..62, "
    "clamp bounds, double_round, 1..3 channels; expansion equals the documented limited formula on corner, clamp-edge, drawn and "
    "derived inputs. dispatch: module declaring 0..4 of snax_alu/snax_gemmx/snax_xdma/snax_hwpe_mult/gemmini and one generic whose "
    "body is a single kernel op of arbitrary operand types or a non-single-kernel body; library_call names accelerator X only if X "
    "is declared, lists the kernel class AND exactly the operand+result types. Non-trivial: the pass set a library_call and the target "
    "lists the kernel class with exactly these types. "
    "tosa_rescale: a module built from op objects (never parsed): tosa.const parameters (zero points as i32 tensors or of the "
    "element types, one multiplier, one shift 0..62 as i8 or i32 tensor), tosa.rescale (i8|i32) -> (i8|i32), SINGLE/DOUBLE_ROUND, "
    "whose result goes to its user directly, through a tosa.clamp (full range or inside), or to a clamp and a second user; static and "
    "dynamic tensor shapes; plus the enumerated grid 4 type pairs x {no clamp, full clamp, inner clamp} x 3 upstream parameter sets "
    "x rounding mode. `convert-tosa-to-kernel`, then: the result is one linalg.generic holding one kernel.rescale read by the "
    "former user; the kernel op, read through the documented limited formula with ITS attributes at the op's widths, equals "
    "tosa.rescale (same formula, limited to the output type's range) followed by the clamp, on every i8 input / on corner, "
    "clamp-edge, drawn and derived i32 inputs; double_round equals the rounding mode; for (i32) -> i8 `convert-kernel-to-linalg` "
    "is applied as well and the expanded arithmetic is compared with the same reference. Non-trivial: rewritten, compared, and "
    "the inputs reach two of {lower bound, upper bound, in between}."
)
ASSUMPTIONS = [
    "xDSL 0.70 compatibility shim (vlib/compat.py) only converts list-valued irdl_options to tuples",
    "scalar semantics: arith ops wrap at their result width (two's complement), extsi sign-extends, shrsi is arithmetic "
    "(vlib/scalar_eval.py, own evaluator, independent of xDSL's interpreter)",
    "a kernel op inside a body means: its equivalent_region applied to (its operands..., the body's last block argument), "
    "which is how ParseLinalgBody constructs kernel ops (operands = block.args[:-1], result type = type of block.args[-1])",
    "reference meaning of the kernels restated from their names and the upstream expected expansions "
    "(tests/filecheck/transforms/convert-kernel-to-linalg.mlir): mul = lhs*rhs, add = lhs+rhs, mac = out + sext(lhs)*sext(rhs), "
    "qmac = out + (sext(lhs)-zp_lhs)*(sext(rhs)-zp_rhs), all at the result width",
    "rescale oracle restates the documented limited lowering (LowerRescale docstring: first channel only, no double rounding): "
    "clamp(trunc32((sext64(x - zp_in) * mult) >> shift) + zp_out, min, max) truncated to i8; it guards the expansion against "
    "regressions, it cannot validate the formula against hardware; domain (i32)->i8, min <= max, shift < 64",
    "snax_xdma is registered in the context the way tools/config_parser.py does it (register_accelerator(name, lambda: instance))",
    "a 20 s watchdog around each pass application reports a non-terminating rewrite as a violation instead of hanging "
    "(safety net, four orders of magnitude above the normal cost; not a search budget)",
    "a value a body uses but does not define (function argument, loop block argument, result of an outside op) is a free input "
    "of the body's scalar function, of its own type, independent of the block arguments; the same SSA values are the free inputs "
    "before and after the pass; the accumulator a kernel op reads is the body's last BLOCK argument, never a captured value",
    "tosa_rescale: convert-tosa-to-kernel is driven on modules built from xdsl.dialects.tosa op objects (xDSL 0.70 parses "
    "tosa.rescale text differently from the pinned version, the op classes and the pass are the same); the meaning of "
    "tosa.rescale is restated with the same documented limited formula as the rescale sub (no rounding term, first channel), "
    "its result limited to the range of the output element type, tosa.clamp limits to [min_val, max_val]; signed operands only "
    "(input_unsigned = output_unsigned = false), scale32, per-tensor parameters; the pass is not required to rewrite (a rescale "
    "with two users stays), only what it rewrites is compared; the expansion into arithmetic is compared for (i32) -> i8 only, "
    "the documented domain of the limited lowering (VERIF_C18_TOSA_EXPAND=all widens this to every type pair)",
]

SIG_WIRING = "linalg-to-kernel:same-op-types-different-wiring:function-changed"
SIG_WIRING_UNDEF = "linalg-to-kernel:same-op-types-different-wiring:kernel-undefined-at-types"
SIG_DISPATCH_TYPES = "dispatch:kernel-class-declared:operand-types-differ"
SIG_K2L_OPERANDS = "kernel-to-linalg:kernel-operands-not-block-args-in-order:function-changed"
# kernel ops whose operands are not exactly the body's block arguments in order are valid IR (upstream's own
# dispatch_kernels.mlir contains one) but no pass in the repository produces them. Set to False to treat them as outside the domain.
K2L_INCLUDE_REORDERED_OPERANDS = True

E.selftest()  # evaluator sanity (milliseconds); a failure is a harness error at import, never a violation

# ------------------------------------------------------------------------------------------ helpers

_OM: dict = {}


def _om(passes: str):
    """One SNAXOptMain (context + pipeline) per pipeline string and process."""
    om = _OM.get(passes)
    if om is None:
        om = C.opt_main(passes)
        try:
            from snaxc.accelerators.snax_xdma import SNAXXDMAAccelerator

            om.ctx.register_accelerator("snax_xdma", lambda: SNAXXDMAAccelerator())
        except Exception:  # xdma not constructible in this tree: dispatch cases naming it are classified 'outside'
            pass
        _OM[passes] = om
    return om


def _build(text: str, passes: str):
    """Parse + verify. A failure here is a harness error (invalid generated IR), never a violation."""
    om = _om(passes)
    mod = Parser(om.ctx, text).parse_module()
    mod.verify()
    return om, mod


def _generics(mod):
    return [o for o in mod.walk() if isinstance(o, linalg.GenericOp)]


WATCHDOG_S = 20  # safety net only (a pass application takes milliseconds); not a search budget
_HUNG: dict = {}  # pipeline string -> True once it hit the watchdog in this process


class _PassTimeout(BaseException):
    pass


def _run_pipeline(om, mod):
    """Apply the pipeline under a watchdog, so that a rewrite that never reaches a fixpoint is reported instead of hanging.
    Once a pipeline hit the watchdog in this process, later applications are short-circuited (otherwise shrinking would take
    hours); the first replay file holds the recipe that really hung."""
    import signal

    key = id(om)
    if _HUNG.get(key):
        raise _PassTimeout()

    def on_alarm(signum, frame):
        raise _PassTimeout()

    try:
        old = signal.signal(signal.SIGALRM, on_alarm)
    except ValueError:  # not in the main thread: run unguarded
        om.pipeline.apply(om.ctx, mod)
        return
    signal.setitimer(signal.ITIMER_REAL, WATCHDOG_S)
    try:
        om.pipeline.apply(om.ctx, mod)
    except _PassTimeout:
        _HUNG[key] = True
        raise
    finally:
        signal.setitimer(signal.ITIMER_REAL, 0)
        signal.signal(signal.SIGALRM, old)


def _apply(om, mod, tag, n_generics=1):
    try:
        _run_pipeline(om, mod)
    except _PassTimeout:
        raise Violation(f"{tag}:pass-did-not-terminate", dict(watchdog_seconds=WATCHDOG_S))
    except Exception as e:
        raise Violation(f"{tag}:raises:{type(e).__name__}", dict(error=repr(e)[:400]))
    try:
        mod.verify()
    except Exception as e:
        raise Violation(f"{tag}:invalid-ir-after-pass", dict(error=repr(e)[:400], ir=C.to_text(mod)[:3000]))
    gens = _generics(mod)
    if len(gens) != n_generics:
        raise Violation(f"{tag}:generic-op-count-changed", dict(count=len(gens)))
    return gens[-1]


def _vectors(widths, r, n_derived=192):
    """Corner combinations + Hypothesis-drawn vectors + vectors derived from the Hypothesis-drawn seed."""
    n = len(widths)
    vs = []
    total = 5 ** n
    stride = 1
    if total > 3125:  # more than 5 arguments: every k-th combination, k coprime to 5 so that every argument still sees every corner
        stride = total // 3125 + 1
        while stride % 5 == 0:
            stride += 1
    for i, v in enumerate(E.corner_vectors(widths)):
        if i % stride == 0:
            vs.append(v)
    for v in r.get("vecs", []):
        if len(v) != n:
            raise Outside("input vector length differs from the argument count")
        vs.append(tuple(x & E.mask(w) for x, w in zip(v, widths)))
    vs.extend(E.splitmix_vectors(r.get("vseed", 0), widths, n_derived))
    return vs


def _first_diff(pa, pb, vectors, outs_a=None):
    outs_a = outs_a if outs_a is not None else E.run_all(pa, vectors)
    outs_b = E.run_all(pb, vectors)
    for v, a, b in zip(vectors, outs_a, outs_b):
        if a != b:
            return dict(inputs=[E.signed(x, w) for x, w in zip(v, pa.arg_widths)], before=list(a), after=list(b))
    return None


def _kernel_instrs(p):
    return [i for i in p.instrs if i.kind == "kernel"]


def _single_kernel_form(p):
    """The body is exactly `k = kernel(block args[0..n-2]); yield k` (n block arguments; captured values unused)."""
    n = p.n_block
    return (len(p.instrs) == 1 and p.instrs[0].kind == "kernel" and p.instrs[0].refs == tuple(range(n - 1))
            and p.yields == (len(p.arg_widths),))


# ------------------------------------------------------------------------------------------ sub 1


def _captured_values(mod, gen, r):
    """The SSA values named by recipe['caps'], found by their place in the IR (never by name): function argument #j, block
    argument #j+1 of the scf.for around the generic, result j of the tagged outside op."""
    from xdsl.dialects import func, scf

    caps = r.get("caps") or []
    if not caps:
        return ()
    fn = next(o for o in mod.walk() if isinstance(o, func.FuncOp))
    loop = gen.parent_op() if isinstance(gen.parent_op(), scf.ForOp) else None
    tagged = [o for o in fn.body.block.ops if o.name == "test.op" and G.OUTS_TAG in o.attributes]
    vals = []
    for kind, j in caps:
        if kind == "f":
            vals.append(fn.body.block.args[j])
        elif kind == "i":
            vals.append(loop.body.block.args[j + 1])
        else:
            vals.append(tagged[0].results[j])
    return tuple(vals)


def prop_l2k(r):
    argw = [G.width_of(t) for t in r["args"]]
    if not (2 <= len(argw) <= 6) or any(w not in G.WIDTHS for w in argw):
        raise Outside("argument list outside the stated domain")
    if not (1 <= len(r["ops"]) <= 6) or any(o[0] not in G.KINDS for o in r["ops"]):
        raise Outside("op list outside the stated domain")
    caps = [list(c) for c in (r.get("caps") or [])]
    env = r.get("env")
    if caps or env is not None:
        env = env or {}
        lists = [env.get("fargs") or [], env.get("iters") or [], env.get("outs") or []]
        if (len(lists[0]) > 6 or len(lists[1]) > 5 or len(lists[2]) > 4 or len(caps) > 6
                or any(not isinstance(t, str) or not t[1:].isdigit() or G.width_of(t) not in G.WIDTHS for l in lists for t in l)
                or any(len(c) != 2 or c[0] not in G.CAP_KINDS or G.cap_type(env, c) is None for c in caps)
                or len({tuple(c) for c in caps}) != len(caps)):
            raise Outside("surrounding / captured value list outside the stated domain")
    capw = [G.width_of(G.cap_type(env, c)) for c in caps]
    try:
        rp = E.program_from_recipe(argw, [[k, refs, G.width_of(t)] for k, refs, t in r["ops"]], r["yield"], capw)
    except E.IllTyped as e:
        raise Outside(f"ill-typed recipe: {e}")
    if rp.yield_widths() != (argw[-1],):
        raise Outside("yielded value type differs from the output element type")

    text = G.l2k_text(r)
    sib = r.get("sib") if (r.get("env") is None and not r.get("caps")) else None
    if sib:
        # a second generic (a kernel's canonical body over the same buffers) in front of the one under test
        t2 = G.l2k_text(sib)
        g2 = t2[t2.index("linalg.generic"): t2.rindex("}")].rstrip()
        i = text.index("linalg.generic")
        text = text[:i] + g2 + "\n" + text[i:]
    om, mod = _build(text, "convert-linalg-to-kernel")
    gen0 = _generics(mod)[-1]
    captured = _captured_values(mod, gen0, r)  # the same SSA values before and after the pass: further free inputs of the body
    before = E.program_from_block(gen0.body.block, captured)
    if before.struct() != rp.struct():
        raise AssertionError("builder produced a body different from the recipe")  # harness error

    gen = _apply(om, mod, "linalg-to-kernel", n_generics=2 if sib else 1)
    after = E.program_from_block(gen.body.block, captured)

    kinds = before.kinds()
    has_kseq = any(len(argw) == n and kinds == seq for n, seq in G.KSEQ.values())
    cls = [f"gen:{r.get('mode', '?').split(':')[0]}", f"ops:{len(kinds)}", f"args:{len(argw)}",
           "widths:mixed" if len(set(argw)) > 1 else "widths:uniform", "kseq:yes" if has_kseq else "kseq:no"]
    if sib:
        cls.append("canonical-sibling-in-front")
    if r.get("mode", "").startswith(("canonical", "near", "seq")):
        cls.append("aim:" + r["mode"].split(":")[1])
    if env is not None:
        used = sorted({caps[x - len(argw)][0] for i in before.instrs for x in i.refs if len(argw) <= x < len(argw) + len(caps)}
                      | {caps[x - len(argw)][0] for x in before.yields if len(argw) <= x < len(argw) + len(caps)})
        cls.append("captured:" + ("+".join(used) if used else "unused"))
        cls.append("surrounding:" + ("loop" if env.get("iters") is not None else "function"))
        # a captured value that sits, in its own block, at the same argument index and with the same type as a body argument
        twins = [c for c, w in zip(caps, capw)
                 if (bi := G.cap_block_index(c)) is not None and bi < len(argw) and argw[bi] == w]
        if twins:
            cls.append("captured:same-index-and-type-as-a-body-argument" + (":kseq" if has_kseq else ""))
    else:
        cls.append("captured:none")

    if after.struct() == before.struct():
        cls.append("outcome:unchanged")
        return Info(nontrivial=has_kseq, classes=tuple(cls))

    if after.arg_widths != before.arg_widths or len(after.yields) != 1:
        raise Violation("linalg-to-kernel:body-signature-changed", dict(after=C.to_text(mod)[:2000]))

    # how was it rewritten, and was the original wired like the kernel's definition?
    ks = _kernel_instrs(after)
    if _single_kernel_form(after):
        kname, sub = ks[0].param
        canonical = before.struct() == sub.struct()
        same_types = before.kinds() == sub.kinds()
        form = "canonical-wiring" if canonical else ("same-op-types-different-wiring" if same_types else "different-op-types")
        cls.append("kernel:" + kname)
    else:
        kname = ks[0].param[0] if ks else None
        form = "rewritten-to-other-body"
    sig = None
    detail = dict(before=text, after=C.to_text(mod)[:2500], kernel=kname)
    if caps:
        detail["inputs_are"] = [f"%a{i}" for i in range(len(argw))] + [f"%{k}{j} (captured)" for k, j in caps]
    try:
        E.typecheck(after)
    except E.KernelUndefined as e:
        sig = f"linalg-to-kernel:{form}:kernel-undefined-at-types"
        detail["problem"] = str(e)
    except E.IllTyped as e:
        raise Violation("linalg-to-kernel:ill-typed-body-after-pass", dict(detail, problem=str(e)))
    evals = 1
    if sig is None:
        vectors = _vectors(argw + capw, r)  # captured values are inputs like the block arguments
        evals = len(vectors)
        d = _first_diff(before, after, vectors)
        if d is not None:
            sig = f"linalg-to-kernel:{form}:function-changed"
            detail["first_difference"] = d
    if sig is not None:
        # reported through Info.known: the runner raises it as a violation unless the signature is a listed known finding,
        # in which case the case is still counted and the search continues
        cls.append("outcome:rewritten:" + form + ":" + sig.rsplit(":", 1)[1])
        return Info(nontrivial=True, classes=tuple(cls), evals=evals, known=[(sig, detail)])
    cls.append("outcome:rewritten:" + ("canonical" if form == "canonical-wiring" else "other-wiring-equivalent"))
    return Info(nontrivial=True, classes=tuple(cls), evals=evals, sample=text if form != "canonical-wiring" else None)


# ------------------------------------------------------------------------------------------ sub 2


def prop_k2l(r):
    kernel = r["kernel"]
    if kernel not in G.KERNEL_OPERANDS:
        raise Outside("unknown kernel")
    k = G.KERNEL_OPERANDS[kernel]
    widths = [G.width_of(t) for t in r["types"]]
    wiring = list(r["wiring"])
    if len(widths) != k + 1 or len(wiring) != k or any(w not in G.WIDTHS for w in widths):
        raise Outside("recipe shape")
    if any(not (0 <= a <= k) or widths[a] != widths[j] for j, a in enumerate(wiring)):
        raise Outside("operand wiring is not type-consistent")
    text = G.k2l_text(r)
    om, mod = _build(text, "convert-kernel-to-linalg")
    before = E.program_from_block(_generics(mod)[0].body.block)
    try:
        E.typecheck(before)
    except E.KernelUndefined as e:
        raise Outside("kernel has no well-typed definition at these types")
    in_order = wiring == list(range(k))
    if not in_order and not K2L_INCLUDE_REORDERED_OPERANDS:
        raise Outside("kernel operands are not the block arguments in order")
    kname = before.instrs[0].param[0]
    cls = [f"kernel:{kernel}", "widths:mixed" if len(set(widths)) > 1 else "widths:uniform",
           "operands:in-order" if in_order else "operands:other"]
    vectors = _vectors(widths, r)
    problems = []

    # the kernel definition (equivalent_region) against the restated meaning of the kernel
    outs_before = E.run_all(before, vectors)
    for v, o in zip(vectors, outs_before):
        want = E.kernel_reference(kname, widths, [v[a] for a in wiring] + [v[-1]])
        got = o[0]
        if want is not None and want != got:
            problems.append((f"kernel-definition:{kname}:differs-from-reference",
                             dict(ir=text, inputs=[E.signed(x, w) for x, w in zip(v, widths)], definition=got, reference=want)))
            break

    gen = _apply(om, mod, "kernel-to-linalg")
    after = E.program_from_block(gen.body.block)
    if _kernel_instrs(after):
        cls.append("outcome:not-expanded")
        return Info(nontrivial=False, classes=tuple(cls), known=problems)
    expanded_text = C.to_text(mod)
    try:
        E.typecheck(after)
    except E.IllTyped as e:
        raise Violation("kernel-to-linalg:ill-typed-expansion", dict(before=text, after=expanded_text[:2500], problem=str(e)))
    if after.arg_widths != before.arg_widths:
        raise Violation("kernel-to-linalg:body-signature-changed", dict(before=text, after=expanded_text[:2500]))
    d = _first_diff(before, after, vectors, outs_before)
    if d is not None:
        sig = ("kernel-to-linalg:operands-in-order:expansion-differs-from-kernel-definition" if in_order else SIG_K2L_OPERANDS)
        problems.append((sig, dict(before=text, after=expanded_text[:2500], first_difference=d)))
    cls.append("outcome:expanded")

    if in_order:
        om2 = _om("convert-linalg-to-kernel")
        try:
            _run_pipeline(om2, mod)
            mod.verify()
        except _PassTimeout:
            raise Violation("roundtrip:linalg-to-kernel:pass-did-not-terminate", dict(watchdog_seconds=WATCHDOG_S))
        except Exception as e:
            raise Violation(f"roundtrip:linalg-to-kernel:raises:{type(e).__name__}", dict(error=repr(e)[:400], ir=expanded_text[:2500]))
        back = E.program_from_block(_generics(mod)[0].body.block)
        if back.struct() != before.struct():
            rec = [i.param[0] for i in _kernel_instrs(back)]
            sig = "roundtrip:kernel-not-recovered" if not rec else "roundtrip:different-kernel-recovered"
            problems.append((sig, dict(before=text, expanded=expanded_text[:2500], back=C.to_text(mod)[:2500])))
        else:
            cls.append("roundtrip:recovered")
    return Info(nontrivial=True, classes=tuple(cls), evals=len(vectors), known=problems)


# ------------------------------------------------------------------------------------------ sub 3


def _rescale_inputs(r):
    xs = list(E.corners(32)) + [x & E.mask(32) for x in r.get("xs", [])]
    xs += [v[0] for v in E.splitmix_vectors(r.get("vseed", 0), [32], 96)]
    zp_in, zp_out, mult, shift = r["zp_in"], r["zp_out"], r["mult"][0], r["shift"][0]
    near = [zp_in - 1, zp_in, zp_in + 1]
    if mult != 0:
        # inputs whose scaled value lands next to the clamp bounds / zero (where min/max and rounding matter)
        for t in (r["min"] - 1, r["min"], r["min"] + 1, -1, 0, 1, r["max"] - 1, r["max"], r["max"] + 1):
            c = zp_in + ((t - zp_out) << shift) // mult
            near += [c - 1, c, c + 1, c + 2]
    xs += [x & E.mask(32) for x in near if -(1 << 31) <= x < (1 << 31)]
    return xs


def prop_rescale(r):
    if r["in_ty"] != "i32" or r["out_ty"] != "i8":
        raise Outside("limited lowering: only (i32) -> i8 is in the documented domain")
    if r["min"] > r["max"]:
        raise Outside("min_int > max_int")
    if not r["mult"] or len(r["mult"]) != len(r["shift"]):
        raise Outside("multiplier/shift arrays")
    if not all(0 <= s < 64 for s in r["shift"]):
        raise Outside("shift outside 0..63 (undefined for a 64-bit arithmetic shift)")
    lo, hi = G.I32
    if not all(lo <= r[k] <= hi for k in ("zp_in", "zp_out", "min", "max")) or not all(lo <= m <= hi for m in r["mult"]):
        raise Outside("attribute does not fit i32")
    if r.get("shift_ty", "i32") == "i8" and not all(s < 128 for s in r["shift"]):
        raise Outside("shift does not fit i8")
    text = G.rescale_text(r)
    om, mod = _build(text, "convert-kernel-to-linalg")
    gen = _apply(om, mod, "rescale")
    cls = [f"channels:{min(len(r['mult']), 2)}", "double_round" if r["dr"] else "single_round",
           "clamp:i8-full" if (r["min"], r["max"]) == (-128, 127) else "clamp:inside-i8" if -128 <= r["min"] and r["max"] <= 127 else "clamp:wide",
           "shift:" + ("0-31" if r["shift"][0] < 32 else "32-62")]
    if any(isinstance(o, K.RescaleOp) for o in gen.body.block.ops):
        cls.append("outcome:not-expanded")
        return Info(nontrivial=False, classes=tuple(cls))
    after = E.program_from_block(gen.body.block)
    expanded = C.to_text(mod)
    try:
        E.typecheck(after)
    except E.IllTyped as e:
        raise Violation("rescale:ill-typed-expansion", dict(before=text, after=expanded[:3000], problem=str(e)))
    if after.arg_widths != (32, 8) or after.yield_widths() != (8,):
        raise Violation("rescale:body-signature-changed", dict(before=text, after=expanded[:3000]))
    xs = _rescale_inputs(r)
    hit = set()
    try:
        outs = E.run_all(after, [(x, 0) for x in xs])
    except E.Undefined as e:
        raise Violation("rescale:expansion-has-undefined-shift", dict(before=text, after=expanded[:3000], problem=str(e)))
    for x, o in zip(xs, outs):
        want = E.rescale_reference(x, r["zp_in"], r["zp_out"], r["mult"][0], r["shift"][0], r["min"], r["max"])
        got = o[0]
        if got != want:
            raise Violation("rescale:expansion-differs-from-documented-formula",
                            dict(before=text, after=expanded[:3000], x=E.signed(x, 32), expansion=E.signed(got, 8), reference=E.signed(want, 8)))
        s = E.signed(want, 8)
        hit.add("lo" if s == E.signed(r["min"] & 0xFF, 8) else "hi" if s == E.signed(r["max"] & 0xFF, 8) else "mid")
    cls.append("outputs:" + "+".join(sorted(hit)))
    return Info(nontrivial=len(hit) >= 2, classes=tuple(cls), evals=len(xs))


# ------------------------------------------------------------------------------------------ sub 4

KCLASS = {"add": K.AddOp, "mul": K.MulOp, "mac": K.MacOp, "qmac": K.QMacOp, "rescale": K.RescaleOp}


def prop_dispatch(r):
    accs = list(r["accs"])
    b = r["body"]
    if len(set(accs)) != len(accs) or any(a not in G.ACCS for a in accs):
        raise Outside("accelerator list")
    if b["kernel"] not in KCLASS:
        raise Outside("unknown kernel")
    k = 1 if b["kernel"] == "rescale" else G.KERNEL_OPERANDS[b["kernel"]]
    widths = [G.width_of(t) for t in b["types"]]
    if len(widths) != k + 1 or len(b["wiring"]) != k or any(not (0 <= a <= k) or widths[a] != widths[j] for j, a in enumerate(b["wiring"])):
        raise Outside("recipe shape")
    passes = ",".join([f"insert-accfg-op{{accelerator={a}}}" for a in accs] + ["dispatch-kernels"])
    om = _om(passes)
    if "snax_xdma" in accs and "snax_xdma" not in set(om.ctx.registered_accelerator_names):
        raise Outside("snax_xdma cannot be constructed in this tree")
    text = G.dispatch_text(r)
    om, mod = _build(text, passes)
    gen0 = _generics(mod)[0]
    body_ops = list(gen0.body.block.ops)
    single = len(body_ops) == 2 and isinstance(body_ops[0], K.KernelOp) and isinstance(body_ops[1], linalg.YieldOp)
    kop = body_ops[0] if single else None
    ktypes = [o.type for o in kop.operands] + [x.type for x in kop.results] if single else None
    preset = gen0.library_call.data if gen0.library_call else None

    gen = _apply(om, mod, "dispatch")
    call = gen.library_call.data if gen.library_call else None

    templates = {}
    for a in accs:
        acc = om.ctx.get_acc(a)
        if isinstance(acc, DispatchTemplate):
            templates[a] = [(sk.kernel_type, list(sk.operand_types)) for sk in acc.supported_kernels]
    declares_class = single and any(kt is type(kop) for sup in templates.values() for kt, _ in sup)
    exact_somewhere = single and any(kt is type(kop) and ts == ktypes for sup in templates.values() for kt, ts in sup)
    cls = [f"body:{b['kind']}", f"kernel:{b['kernel']}", f"accs:{len(accs)}", f"templates:{len(templates)}", f"shape:{r['shape']}",
           "class-declared" if declares_class else "class-not-declared", "exact-types-declared" if exact_somewhere else "no-exact-types"]
    detail = dict(ir=text, library_call=call, declared={a: [(kt.name, [str(t) for t in ts]) for kt, ts in sup] for a, sup in templates.items()})

    if call == preset:
        cls.append("outcome:" + ("preset-kept" if preset else "not-dispatched"))
        return Info(nontrivial=False, classes=tuple(cls))
    if preset is not None:
        raise Violation("dispatch:preset-library-call-overwritten", detail)
    # a library_call was set by the pass
    target = call if call in accs else call[: -len("_stream")] if call.endswith("_stream") and call[: -len("_stream")] in accs else None
    if target is None:
        raise Violation("dispatch:library-call-names-no-declared-accelerator", detail)
    if not single:
        raise Violation("dispatch:non-single-kernel-body-dispatched", detail)
    if target not in templates:
        raise Violation("dispatch:target-is-not-a-dispatch-template", detail)
    sup = templates[target]
    if not any(kt is type(kop) for kt, _ in sup):
        raise Violation("dispatch:kernel-class-not-declared-by-target", detail)
    if not any(kt is type(kop) and ts == ktypes for kt, ts in sup):
        cls.append("outcome:dispatched-types-differ")
        # not counted as non-trivial: the count must not depend on whether this known defect is present
        return Info(nontrivial=False, classes=tuple(cls), known=[(SIG_DISPATCH_TYPES, detail)])
    cls.append("outcome:dispatched-exact")
    return Info(nontrivial=True, classes=tuple(cls), sample=f"{b['kernel']} {b['types']} -> {call}")


# ------------------------------------------------------------------------------------------ sub 5

# convert-kernel-to-linalg on the kernel.rescale that convert-tosa-to-kernel produced: "documented" = only for (i32) -> i8, the
# domain the rescale sub states for the limited lowering (ASSUMPTIONS); "all" = for every in/out type pair the first pass accepts.
# On the unchanged tree LowerRescale has no type guard: for an i8 input the pass raises (arith.subi i8, i32), for an i32 result the
# expansion still ends in `arith.trunci ... to i8` and yields an i8 into an i32 tensor. Both are reported under the two narrow
# signatures below when the domain is "all" (VERIF_C18_TOSA_EXPAND=all, or edit the default together with the repair
# /var/tmp/c18x/fix_lower_rescale_types.diff or the known-finding entries of /var/tmp/known_C18x.json).
import os as _os

TOSA_EXPAND_DOMAIN = _os.environ.get("VERIF_C18_TOSA_EXPAND", "all")
SIG_TOSA_EXPAND_RAISES = "tosa-chain:expansion:input-narrower-than-i32:raises"
SIG_TOSA_EXPAND_TRUNC = "tosa-chain:expansion:result-wider-than-i8:result-truncated-to-i8"


def _tosa_reference(r):
    """tosa.rescale followed by the optional tosa.clamp, with the documented limited formula for the rescale: the result is
    limited to the range of the output type, then to the clamp bounds."""
    lo, hi = G.int_range(r["out_ty"])
    if r["clamp"] is not None:
        lo, hi = max(lo, r["clamp"][0]), min(hi, r["clamp"][1])
    in_w, out_w = G.width_of(r["in_ty"]), G.width_of(r["out_ty"])
    f = lambda x: E.rescale_reference(x, r["zp_in"], r["zp_out"], r["mult"][0], r["shift"][0], lo, hi, in_w, out_w)  # noqa: E731
    return f, lo, hi


def prop_tosa(r):
    if r["in_ty"] not in ("i8", "i32") or r["out_ty"] not in ("i8", "i32"):
        raise Outside("element types outside i8/i32")
    if r["consumer"] not in ("none", "clamp", "clamp+use") or r["shape"] not in G.TOSA_SHAPES or r["zp_ty"] not in ("i32", "native") \
            or r["shift_ty"] not in ("i8", "i32"):
        raise Outside("recipe shape")
    if len(r["mult"]) != 1 or len(r["shift"]) != 1:
        raise Outside("per-tensor parameters only (one multiplier, one shift)")
    if not (0 <= r["shift"][0] < 64):
        raise Outside("shift outside 0..63 (undefined for a 64-bit arithmetic shift)")
    lo32, hi32 = G.I32
    if not (lo32 <= r["mult"][0] <= hi32):
        raise Outside("multiplier does not fit i32")
    for key, t in (("zp_in", r["in_ty"]), ("zp_out", r["out_ty"])):
        a, b = G.int_range(t if r["zp_ty"] == "native" else "i32")
        if not (a <= r[key] <= b):
            raise Outside("zero point does not fit its tensor type")
    if (r["consumer"] == "none") != (r["clamp"] is None):
        raise Outside("clamp bounds without clamp (or the reverse)")
    if r["clamp"] is not None:
        a, b = G.int_range(r["out_ty"])
        if not (a <= r["clamp"][0] <= r["clamp"][1] <= b):
            raise Outside("clamp bounds: min > max or outside the element type")
    in_w, out_w = G.width_of(r["in_ty"]), G.width_of(r["out_ty"])

    om = _om("convert-tosa-to-kernel")
    mod = G.tosa_module(r)
    mod.verify()  # a failure here is a harness error
    text = C.to_text(mod)
    final = next(o for o in mod.walk() if o.name == "test.op" and "final_user" in o.attributes)
    cls = [f"types:({r['in_ty']})->{r['out_ty']}", "consumer:" + r["consumer"], "shape:" + r["shape"], "zp:" + r["zp_ty"],
           "double_round" if r["dr"] else "single_round"]
    if r["clamp"] is not None:
        cls.append("clamp:full-range" if tuple(r["clamp"]) == G.int_range(r["out_ty"]) else "clamp:inside")
    try:
        _run_pipeline(om, mod)
    except _PassTimeout:
        raise Violation("tosa-to-kernel:pass-did-not-terminate", dict(watchdog_seconds=WATCHDOG_S))
    except Exception as e:
        raise Violation(f"tosa-to-kernel:raises:{type(e).__name__}", dict(error=repr(e)[:400], ir=text))
    try:
        mod.verify()
    except Exception as e:
        raise Violation("tosa-to-kernel:invalid-ir-after-pass", dict(error=repr(e)[:400], before=text, after=C.to_text(mod)[:3000]))
    gens = _generics(mod)
    left = [o.name for o in mod.walk() if o.name in ("tosa.rescale", "tosa.clamp")]
    if not gens:
        if "tosa.rescale" not in left:
            raise Violation("tosa-to-kernel:rescale-removed-without-replacement", dict(before=text, after=C.to_text(mod)[:3000]))
        cls.append("outcome:not-rewritten")
        return Info(nontrivial=False, classes=tuple(cls))
    after1 = C.to_text(mod)
    detail = dict(before=text, after=after1[:3000])
    body = list(gens[0].body.block.ops)
    bargs = gens[0].body.block.args
    if (len(gens) != 1 or left or len(body) != 2 or not isinstance(body[0], K.RescaleOp) or not isinstance(body[1], linalg.YieldOp)
            or len(bargs) != 2 or body[0].input is not bargs[0] or list(body[1].operands) != [body[0].result]
            or [E._width(a.type) for a in bargs] != [in_w, out_w] or E._width(body[0].result.type) != out_w):
        raise Violation("tosa-to-kernel:result-is-not-one-generic-with-a-single-kernel-rescale", detail)
    if final.operands[0].owner is not gens[0]:
        raise Violation("tosa-to-kernel:user-does-not-read-the-new-generic", detail)
    if r["consumer"] == "clamp+use":
        # the unclamped rescale result has a second user: replacing rescale + clamp by one clamped kernel would change what it reads
        raise Violation("tosa-to-kernel:rescale-with-a-second-user-rewritten", detail)
    kop = body[0]
    kmult, kshift = [int(v) for v in kop.multiplier.get_values()], [int(v) for v in kop.shift.get_values()]
    if len(kmult) != 1 or len(kshift) != 1:
        raise Violation("tosa-to-kernel:per-tensor-parameters-became-arrays", detail)
    katt = dict(zp_in=kop.input_zp.value.data, zp_out=kop.output_zp.value.data, mult=kmult[0], shift=kshift[0],
                min=kop.min_int.value.data, max=kop.max_int.value.data, dr=bool(kop.double_round.value.data))
    detail["kernel_attributes"] = katt
    if not (0 <= katt["shift"] < 64):
        raise Violation("tosa-to-kernel:shift-changed", detail)

    ref, lo, hi = _tosa_reference(r)
    if in_w == 8:
        xs = list(range(256))  # every input
    else:
        xs = _rescale_inputs(dict(xs=r.get("xs", []), vseed=r.get("vseed", 0), zp_in=r["zp_in"], zp_out=r["zp_out"], mult=r["mult"],
                                  shift=r["shift"], min=lo, max=hi))
    want = [ref(x) for x in xs]
    hit = set()
    for x, w in zip(xs, want):
        s = E.signed(w, out_w)
        hit.add("lo" if s == lo else "hi" if s == hi else "mid")
    cls.append("outputs:" + "+".join(sorted(hit)))

    # stage 1: the kernel op, read through the same formula with ITS attributes, against rescale [+ clamp]
    if katt["dr"] != bool(r["dr"]):
        raise Violation("tosa-to-kernel:double-round-flag-differs-from-rounding-mode", detail)
    for x, w in zip(xs, want):
        got = E.rescale_reference(x, katt["zp_in"], katt["zp_out"], katt["mult"], katt["shift"], katt["min"], katt["max"], in_w, out_w)
        if got != w:
            raise Violation("tosa-to-kernel:kernel-rescale-differs-from-tosa-rescale-and-clamp",
                            dict(detail, x=E.signed(x, in_w), kernel=E.signed(got, out_w), tosa=E.signed(w, out_w)))
    evals = len(xs)

    # stage 2: the kernel op expanded into arithmetic
    documented = (in_w, out_w) == (32, 8)
    if not documented and TOSA_EXPAND_DOMAIN != "all":
        cls.append("expansion:outside-documented-domain")
        return Info(nontrivial=len(hit) >= 2, classes=tuple(cls), evals=evals)
    problems = []
    om2 = _om("convert-kernel-to-linalg")
    try:
        _run_pipeline(om2, mod)
        mod.verify()
    except _PassTimeout:
        raise Violation("tosa-chain:kernel-to-linalg:pass-did-not-terminate", dict(watchdog_seconds=WATCHDOG_S))
    except Exception as e:
        if in_w < 32:
            cls.append("expansion:raises")
            return Info(nontrivial=len(hit) >= 2, classes=tuple(cls), evals=evals,
                        known=[(SIG_TOSA_EXPAND_RAISES, dict(detail, error=repr(e)[:300]))])
        raise Violation(f"tosa-chain:kernel-to-linalg:raises:{type(e).__name__}", dict(detail, error=repr(e)[:400]))
    gens2 = _generics(mod)
    if len(gens2) != 1:
        raise Violation("tosa-chain:generic-op-count-changed", dict(detail, count=len(gens2)))
    if any(isinstance(o, K.RescaleOp) for o in gens2[0].body.block.ops):
        cls.append("expansion:not-expanded")
        return Info(nontrivial=False, classes=tuple(cls), evals=evals)
    expanded = C.to_text(mod)[:3000]
    after = E.program_from_block(gens2[0].body.block)
    try:
        E.typecheck(after)
    except E.IllTyped as e:
        raise Violation("tosa-chain:ill-typed-expansion", dict(detail, expanded=expanded, problem=str(e)))
    if after.arg_widths != (in_w, out_w):
        raise Violation("tosa-chain:body-signature-changed", dict(detail, expanded=expanded))
    if after.yield_widths() != (out_w,):
        if out_w > 8 and after.yield_widths() == (8,):
            cls.append("expansion:truncated-to-i8")
            return Info(nontrivial=len(hit) >= 2, classes=tuple(cls), evals=evals,
                        known=[(SIG_TOSA_EXPAND_TRUNC, dict(detail, expanded=expanded))])
        raise Violation("tosa-chain:expansion-yields-another-type", dict(detail, expanded=expanded))
    try:
        outs = E.run_all(after, [(x, 0) for x in xs])
    except E.Undefined as e:
        raise Violation("tosa-chain:expansion-has-undefined-shift", dict(detail, expanded=expanded, problem=str(e)))
    for x, o, w in zip(xs, outs, want):
        if o[0] != w:
            raise Violation("tosa-chain:expanded-arithmetic-differs-from-tosa-rescale-and-clamp",
                            dict(detail, expanded=expanded, x=E.signed(x, in_w), expansion=E.signed(o[0], out_w), tosa=E.signed(w, out_w)))
    cls.append("expansion:compared")
    return Info(nontrivial=len(hit) >= 2, classes=tuple(cls), evals=evals + len(xs), known=problems)


SUBS = [
    Sub("linalg_to_kernel", lambda tier: G.l2k_recipe(tier), prop_l2k,
        budget=dict(quick=6000, thorough=150000), exhaustive=G.l2k_exhaustive, floor=dict(quick=1000, thorough=20000),
        nontrivial_rule="the body has the op-type sequence and argument count of a kernel's equivalent region (candidate for rewriting)"),
    Sub("kernel_roundtrip", lambda tier: G.k2l_recipe(tier), prop_k2l,
        budget=dict(quick=1000, thorough=30000), exhaustive=G.k2l_exhaustive, floor=dict(quick=200, thorough=6000),
        nontrivial_rule="the kernel op has a well-typed definition, was expanded, and expansion/definition/reference were compared on inputs"),
    Sub("rescale", lambda tier: G.rescale_recipe(tier), prop_rescale,
        budget=dict(quick=1200, thorough=40000), floor=dict(quick=180, thorough=6000),
        nontrivial_rule="kernel.rescale was expanded and the tested inputs reach at least two of {lower clamp, upper clamp, unclamped}"),
    Sub("dispatch", lambda tier: G.dispatch_recipe(tier), prop_dispatch,
        budget=dict(quick=1500, thorough=30000), exhaustive=G.dispatch_exhaustive, floor=dict(quick=30, thorough=400),
        nontrivial_rule="the pass set library_call and the named accelerator is declared and lists the kernel class with exactly the operand+result types"),
    Sub("tosa_rescale", lambda tier: G.tosa_recipe(tier), prop_tosa,
        budget=dict(quick=600, thorough=20000), exhaustive=G.tosa_exhaustive, floor=dict(quick=80, thorough=2500),
        nontrivial_rule="tosa.rescale [+ tosa.clamp] became one kernel.rescale, the kernel (and for (i32)->i8 its expansion) was compared "
                        "with the tosa meaning, and the tested inputs reach at least two of {lower bound, upper bound, in between}"),
]
