"""C02 Streamer address streams equal the scheduled element stream."""
from __future__ import annotations

import contextlib
import io
import warnings

import numpy as np
from hypothesis import strategies as st

from vlib import gen_tsl as GT
from vlib import streamer_model as SM
from vlib.ctx import PassTimeout, parse, run_pass, shared_ctx, time_limit, to_text
from vlib.runner import HarnessError, Info, Outside, Reject, Sub, Violation

ID = "C02"
RULE = (
    "Recipes: a dart.operation on memref operands for snax_alu (element-wise add on i64, rank 1..3, optionally a transposed input) or snax_gemmx "
    "(matmul mac/qmac with i32 output, matmul + bias add (gemm), conv-like mac with window dims and strides; i8 inputs) with shapes that are multiples and "
    "non-multiples of the template bounds, and a layout mode per case: none (row-major), compiler-chosen (set-memory-layout tiled / untiled), or given "
    "static strided layouts (dimension permutation, padding, optional non-zero offset). Real pipeline: insert-accfg-op, dart-scheduler, [set-memory-layout], "
    "dart-layout-resolution, convert-dart-to-snax-stream. Oracle (reference model): from the dart.schedule op (bounds, per-operand affine patterns, operand memref "
    "types after set-memory-layout) the expected per-temporal-step byte sequence of each operand is enumerated with an own layout address function "
    "(tiled-strided via the C10 reference, strided, row-major) in template order, dropping spatial dims the template marks irrelevant; from the stride patterns "
    "(the list handed to set_stride_patterns and the final snax_stream.streaming_region) the per-step ordered 8-byte words are expanded with the streamer address "
    "model. Required: same number of steps and per step the same byte sequence. Patterns the accelerator adds for ports without a schedule operand must be disabled "
    "(all bounds 0) or a copy of the pattern they mirror / a zero-pointer operand. Cases for which the conversion warns 'Non-contiguous access' are outside the domain. "
    "A quarter of the cases place a second operation of the same kind and another shape in a function in front of @main in the same module (one pass "
    "run converts both; @main's schedule and region are the ones compared); further variants: given tiled-strided layouts of up to three tile levels, "
    "i8-output gemmx kernels and the rescale-only function, one buffer for two operands, configured streamer geometries. "
    "Non-trivial: >= 2 temporal steps and an operand with element size < 8 bytes or a spatial fill-up/merge; distinct by recipe hash. "
    "Sub xdma_streams (snax_xdma, registered in a private context the way snaxc/tools/config_parser.py does it): a dart.operation with one extension kernel - "
    "kernel.add i32 (AddExtension), kernel.rescale i32->i8 (RescaleDownExtension), kernel.rescale i8->i32 (RescaleUpExtension) - on rank-1 and rank-2 operands "
    "(identity maps, optionally a transposed first input), element counts that are multiples of 64, multiples of 16 only (n/16 mod 4 = 1, 2, 3) and "
    "non-multiples of 16, layouts row-major / compiler-chosen (set-memory-layout tiled, untiled) / given per operand (strided permutations with padding, "
    "tiled-strided, contiguous tiles at a padded pitch). The finite core (every kernel x 18 rank-1 counts x 5 layouts, a grid of 96 rank-2 shapes x 4 layouts "
    "x plain/transposed) is enumerated in every run, the rest is sampled. Pipeline: insert-accfg-op, dart-scheduler, [set-memory-layout], "
    "dart-layout-resolution, convert-dart-to-snax-stream, module verify. Oracle, per operand and in bytes (the i32 and the i8 side of a rescale move a "
    "different number of elements per 64-byte hardware step): the reference stream is built exactly as for sub streams (schedule elements in template "
    "order under the operand's own layout function); the hardware stream of the operand's pattern (8 ports x 8 bytes) must equal it step by step, one "
    "hardware step being the concatenation of g consecutive schedule steps (documented fill-up, g = 64 / bytes per schedule step; operands of equal element "
    "size must agree on g). Compared at the hand-over to set_stride_patterns (one pattern per schedule operand) and on the final region (reader, writer, "
    "after StridePattern.canonicalize; reader based at the first input, writer at the output). For add the final reader serves both inputs: even hardware "
    "steps must be the first input's stream, odd steps moved back by the distance D the pattern itself uses must be the second input's stream (i.e. under "
    "the extension's documented assumption that the second input lies D = 512 bytes behind the first); that the region carries no pointer for the second "
    "input is reported as a known finding on every add case. Refusals (RuntimeError texts of the conversion, NotImplementedError, bare asserts / exhausted "
    "access iterator, scheduler without result, verifier 'exceeds streamer dimensionality') are rejections; given / row-major layouts are inside the domain "
    "under the same rule as for sub streams; operands with a static layout offset are not compared. Non-trivial: >= 2 schedule steps and both stages compared."
)
ASSUMPTIONS = [
    "xDSL 0.70 compatibility shim (vlib/compat.py)",
    "streamer address model (vlib/streamer_model.py) follows the StridePattern docstring: temporal dim 0 innermost, spatial dim 0 fastest, one 8-byte word per port",
    "the accelerator template (get_template) and streamer port sizes (get_streamers) are taken as the hardware description",
    "elements are delivered to the accelerator in template order (last template dim fastest)",
    "xdma_streams: reader and writer of snax_xdma are decoupled by the extension between them (StreamerSystemType.DmaExt), so operands of different element "
    "size may cover a different number of schedule steps per 64-byte hardware step; the element order of each operand's whole stream is what is fixed",
    "xdma_streams: the merged reader the add extension builds alternates between its two inputs hardware step by hardware step, first input first "
    "(innermost bound 2 in AddExtension.set_stride_patterns, CSR value 2 = number of inputs)",
    "xdma_streams: extensions without a kernel (maxpool, memset, transpose, add_long: supported_kernel = None) can not be selected by any operation and are "
    "not exercised; a static layout offset is taken to live in the operand's base pointer (C10) and such operands are not compared",
]

# ------------------------------------------------------------------------------------------------ text building


def _mt(shape, ty, layout=None, space='"L1"'):
    s = "x".join(str(x) for x in shape) + "x" + ty
    parts = [s]
    if layout:
        parts.append(layout)
    if space:
        parts.append(space)
    return "memref<" + ", ".join(parts) + ">"


def _tsl(spec, shape):
    """spec: dict(tsl=[[inner tile, middle tile] per dim], rot=k, pad=[...], offset=k) -> #tsl.tsl<...> with up to three tile levels per
    dimension. All (dim, level) positions are nested into each other (innermost levels fastest, rotated by `rot`), so the layout is one-to-one."""
    bounds = []
    for d, n in enumerate(shape):
        levels, rem = [], n
        for a in spec["tsl"][d % len(spec["tsl"])]:
            if a > 1 and rem % a == 0 and rem // a > 1:
                levels.append(a)
                rem //= a
        bounds.append([rem] + levels[::-1])
    order = [d for d in (spec.get("perm") or []) if d < len(shape)]
    order += [d for d in range(len(shape)) if d not in order]
    # fastest first: the innermost tile of every dimension (last dimension of `order` fastest), then per dimension its middle and outer
    # level directly above each other (so a dimension split into three levels stays affine in its tile index when nothing is padded between)
    pos = [(d, len(bounds[d]) - 1) for d in reversed(order)]
    pos += [(d, l) for d in reversed(order) for l in reversed(range(len(bounds[d]) - 1))]
    k = spec.get("rot", 0) % len(pos)
    pos = pos[k:] + pos[:k]
    steps = {}
    cur = 1
    npad = 0
    for j, (d, l) in enumerate(pos):
        steps[(d, l)] = cur
        cur = cur * bounds[d][l]
        if j + 1 < len(pos) and pos[j + 1][0] != d:
            cur += spec["pad"][npad % len(spec["pad"])]
            npad += 1
    dims = ", ".join("[" + ", ".join(str(b) for b in bounds[d]) + "] -> (" + ", ".join(str(steps[(d, l)]) for l in range(len(bounds[d]))) + ")"
                     for d in range(len(shape)))
    off = spec.get("offset", 0)
    return "#tsl.tsl<" + dims + (f", offset: {off}" if off else "") + ">"


def _strided(spec, shape):
    """spec: dict(perm=[...], pad=[...], offset=k) -> strided<[...], offset: k> with dims laid out in `perm` order (last = fastest)."""
    if "tsl" in spec:
        return _tsl(spec, shape)
    perm = spec["perm"]
    strides = [0] * len(shape)
    cur = 1
    for pos, d in enumerate(reversed(perm)):
        strides[d] = cur
        cur = cur * shape[d] + spec["pad"][pos % len(spec["pad"])]
    off = spec.get("offset", 0)
    return "strided<[" + ", ".join(str(s) for s in strides) + "]" + (f", offset: {off}" if off else "") + ">"


def build(r):
    k = r["kind"]
    lay = r["layout"]
    L = ["builtin.module {"]
    if k == "alu":
        shape = r["shape"]
        rank = len(shape)
        dims = ", ".join(f"d{i}" for i in range(rank))
        ident = f"affine_map<({dims}) -> ({dims})>"
        maps = [ident, ident, ident]
        shapes = [shape, shape, shape]
        if r.get("transpose_in") and rank >= 2:
            perm = list(range(rank))
            perm[-1], perm[-2] = perm[-2], perm[-1]
            maps[1] = f"affine_map<({dims}) -> ({', '.join(f'd{i}' for i in perm)})>"
            shapes[1] = [shape[i] for i in perm]
        elif r.get("neg_off"):
            # halo-style read with a negative constant term (C03 only: the scheduler must keep it; C02 never generates it because the
            # access leaves the buffer at the origin)
            last = f"d{rank - 1} - {int(r['neg_off'])}"
            maps[1] = f"affine_map<({dims}) -> ({', '.join([f'd{i}' for i in range(rank - 1)] + [last])})>"
        elif r.get("const_row") is not None:
            # the second input is one row of a larger buffer: a dimension-independent, non-zero constant index
            c, rows = r["const_row"]
            maps[1] = f"affine_map<({dims}) -> ({c}, {dims})>"
            shapes[1] = [rows] + list(shape)
        tys = []
        for i in range(3):
            l = _strided(r["given"][i], shapes[i]) if lay == "given" else None
            tys.append(_mt(shapes[i], "i64", l))
        L.append(f"  func.func public @main(%arg0 : {tys[0]}, %arg1 : {tys[1]}, %arg2 : {tys[2]}) {{")
        L.append(f'    "dart.operation"(%arg0, %arg1, %arg2) <{{patterns = [{", ".join(maps)}], accelerator = "snax_alu", operandSegmentSizes = array<i32: 2, 1>}}> ({{')
        L.append("    ^bb0(%0 : !dart.stream<i64>, %1 : !dart.stream<i64>, %2 : !dart.stream<i64>):")
        L.append('      %3 = "dart.generic"(%0, %1) <{library_call = "snax_alu"}> ({')
        L.append("      ^bb1(%a : i64, %b : i64, %c : i64):")
        L.append("        %4 = kernel.add %a, %b : i64, i64 -> i64")
        L.append("        dart.yield %4 : i64")
        L.append("      }) : (!dart.stream<i64>, !dart.stream<i64>) -> !dart.stream<i64>")
        L.append("      dart.yield %3 : !dart.stream<i64>")
        L.append(f"    }}) : ({', '.join(tys)}) -> ()")
    elif k == "rescale":
        # the rescale-only function of snax_gemmx: out[m, k] = rescale(in[m, k]), i32 -> i8
        M, K = r["M"], r["K"]
        shapes = [[M, K], [M, K]]
        etys = ["i32", "i8"]
        tys = []
        for i, sh in enumerate(shapes):
            l = _strided(r["given"][i % len(r["given"])], sh) if lay == "given" else None
            tys.append(_mt(sh, etys[i], l))
        ident = "affine_map<(d0, d1) -> (d0, d1)>"
        L.append(f"  func.func public @main(%arg0 : {tys[0]}, %arg1 : {tys[1]}) {{")
        L.append(f'    "dart.operation"(%arg0, %arg1) <{{patterns = [{ident}, {ident}], accelerator = "snax_gemmx", operandSegmentSizes = array<i32: 1, 1>}}> ({{')
        L.append("    ^bb0(%s0 : !dart.stream<i32>, %s1 : !dart.stream<i8>):")
        L.append('      %g0 = "dart.generic"(%s0) <{library_call = "snax_gemmx"}> ({')
        L.append("      ^bb1(%v : i32, %o : i8):")
        L.append("        %k0 = kernel.rescale %v {double_round = true, input_zp = 3 : i32, max_int = 127 : i32, min_int = -128 : i32, "
                 "multiplier = array<i32: 1140768826>, output_zp = -5 : i32, shift = array<i32: 47>} : (i32) -> i8")
        L.append("        dart.yield %k0 : i8")
        L.append("      }) : (!dart.stream<i32>) -> !dart.stream<i8>")
        L.append("      dart.yield %g0 : !dart.stream<i8>")
        L.append(f"    }}) : ({', '.join(tys)}) -> ()")
    else:
        if k in ("matmul", "gemm"):
            M, N, K = r["M"], r["N"], r["K"]
            maps = ["affine_map<(d0, d1, d2) -> (d0, d2)>", "affine_map<(d0, d1, d2) -> (d2, d1)>"]
            shapes = [[M, K], [K, N]]
            if r.get("b_transposed"):
                # B stored as N x K (the reduction dimension contiguous)
                maps[1] = "affine_map<(d0, d1, d2) -> (d1, d2)>"
                shapes[1] = [N, K]
            if k == "gemm":
                if r.get("bias_1d"):
                    maps.append("affine_map<(d0, d1, d2) -> (d1)>")
                    shapes.append([N])
                else:
                    maps.append("affine_map<(d0, d1, d2) -> (d0, d1)>")
                    shapes.append([M, N])
            maps.append("affine_map<(d0, d1, d2) -> (d0, d1)>")
            shapes.append([M, N])
        else:  # conv: out[n, f, oy, ox] += in[n, c, oy*s + fy, ox*s + fx] * w[f, c, fy, fx]
            Nn, F, C, OY, OX, FY, FX, S = (r[x] for x in ("Nn", "F", "C", "OY", "OX", "FY", "FX", "S"))
            IY, IX = (OY - 1) * S + FY, (OX - 1) * S + FX
            d = "(d0, d1, d2, d3, d4, d5, d6)"  # n f oy ox c fy fx
            sy = f"d2 * {S} + d5" if S != 1 else "d2 + d5"
            sx = f"d3 * {S} + d6" if S != 1 else "d3 + d6"
            maps = [f"affine_map<{d} -> (d0, d4, {sy}, {sx})>", f"affine_map<{d} -> (d1, d4, d5, d6)>", f"affine_map<{d} -> (d0, d1, d2, d3)>"]
            shapes = [[Nn, C, IY, IX], [F, C, FY, FX], [Nn, F, OY, OX]]
        etys = ["i8", "i8"] + ["i32"] * (len(shapes) - 2)
        i8_out = bool(r.get("i8_out")) and k in ("matmul", "gemm")
        if i8_out:
            # the i8 output variants of snax_gemmx: a rescale behind the (q)mac [+ add]
            etys[-1] = "i8"
        tys = []
        for i, sh in enumerate(shapes):
            l = _strided(r["given"][i % len(r["given"])], sh) if lay == "given" else None
            tys.append(_mt(sh, etys[i], l))
        n_in = len(shapes) - 1
        args = ", ".join(f"%arg{i} : {t}" for i, t in enumerate(tys))
        L.append(f"  func.func public @main({args}) {{")
        L.append("    %z = arith.constant 0 : i32")
        opnds = [f"%arg{i}" for i in range(len(shapes))]
        if r.get("gram") and k in ("matmul", "gemm") and r.get("b_transposed") and shapes[0] == shapes[1] and tys[0] == tys[1]:
            # D = X * X^T: one memref value feeds both inputs, with different access patterns
            opnds[1] = opnds[0]
        L.append(f'    "dart.operation"({", ".join(opnds)}) <{{patterns = [{", ".join(maps)}], accelerator = "snax_gemmx", '
                 f'operandSegmentSizes = array<i32: {n_in}, 1>}}> ({{')
        L.append("    ^bb0(" + ", ".join(f"%s{i} : !dart.stream<{t}>" for i, t in enumerate(etys)) + "):")
        if r.get("qmac") and k != "conv":
            L.append('      %g0 = "dart.generic"(%s0, %s1, %z, %z) <{library_call = "snax_gemmx"}> ({')
            L.append("      ^bb1(%a : i8, %b : i8, %za : i32, %zb : i32, %o : i32):")
            L.append("        %k0 = kernel.qmac %a, %b zp_lhs : %za zp_rhs : %zb : i8, i8, i32, i32 -> i32")
            L.append("        dart.yield %k0 : i32")
            L.append("      }) : (!dart.stream<i8>, !dart.stream<i8>, i32, i32) -> !dart.stream<i32>")
        else:
            L.append('      %g0 = "dart.generic"(%s0, %s1) <{library_call = "snax_gemmx"}> ({')
            L.append("      ^bb1(%a : i8, %b : i8, %o : i32):")
            L.append("        %k0 = kernel.mac %a, %b : i8, i8 -> i32")
            L.append("        dart.yield %k0 : i32")
            L.append("      }) : (!dart.stream<i8>, !dart.stream<i8>) -> !dart.stream<i32>")
        last = "%g0"
        if k == "gemm":
            L.append('      %g1 = "dart.generic"(%g0, %s2) <{library_call = "snax_gemmx"}> ({')
            L.append("      ^bb2(%x : i32, %y : i32, %o2 : i32):")
            L.append("        %k1 = kernel.add %x, %y : i32, i32 -> i32")
            L.append("        dart.yield %k1 : i32")
            L.append("      }) : (!dart.stream<i32>, !dart.stream<i32>) -> !dart.stream<i32>")
            last = "%g1"
        if i8_out:
            L.append(f'      %g2 = "dart.generic"({last}) <{{library_call = "snax_gemmx"}}> ({{')
            L.append("      ^bb3(%v : i32, %o3 : i8):")
            L.append("        %k2 = kernel.rescale %v {double_round = true, input_zp = 3 : i32, max_int = 127 : i32, min_int = -128 : i32, "
                     "multiplier = array<i32: 1140768826>, output_zp = -5 : i32, shift = array<i32: 47>} : (i32) -> i8")
            L.append("        dart.yield %k2 : i8")
            L.append("      }) : (!dart.stream<i32>) -> !dart.stream<i8>")
            last = "%g2"
        L.append(f"      dart.yield {last} : !dart.stream<{etys[-1]}>")
        L.append(f"    }}) : ({', '.join(tys)}) -> ()")
    L.append("    func.return")
    L.append("  }")
    L.append("}")
    return "\n".join(L)


# ------------------------------------------------------------------------------------------------ reference layout

def layout_fn(mt):
    """(addr(index array [..., rank]) -> element address incl. offset, element size in bytes, description) for a memref type."""
    from xdsl.dialects.builtin import NoneAttr, StridedLayoutAttr

    from snaxc.dialects.tsl import TiledStridedLayoutAttr

    shape = [int(x) for x in mt.get_shape()]
    elsize = mt.element_type.size
    lay = mt.layout
    if isinstance(lay, TiledStridedLayoutAttr):
        rec = GT.tsl_to_recipe(lay.data)
        if GT.is_dynamic(rec) or rec["offset"] is None:
            raise Outside("dynamic layout")
        # per dimension: index = outer_digit * inner_size + inner_index; the outermost digit is not wrapped (reference addr of C10),
        # so the function is also defined where the layout's bounds do not cover the operand's shape (that is C09's business, not C02's)
        inner_vecs = [GT.dim_vector(d[1:]) for d in rec["dims"]]
        outer_steps = [d[0][0] for d in rec["dims"]]

        def f(idx):
            a = np.full(idx.shape[:-1], rec["offset"], dtype=np.int64)
            for d, (v, s0) in enumerate(zip(inner_vecs, outer_steps)):
                i = idx[..., d]
                a = a + (i // len(v)) * s0 + v[i % len(v)]
            return a

        return f, elsize, "tsl"
    if isinstance(lay, StridedLayoutAttr):
        strides = [s.data if hasattr(s, "data") else s for s in lay.strides.data]
        off = lay.offset.data if hasattr(lay.offset, "data") else lay.offset
        if any(not isinstance(s, int) for s in strides) or not isinstance(off, int):
            raise Outside("dynamic strided layout")
        st_ = np.array(strides, dtype=np.int64)

        def f(idx):
            return idx @ st_ + off

        return f, elsize, "strided" + (":offset" if off else "")
    if isinstance(lay, NoneAttr):
        st_ = np.ones(len(shape), dtype=np.int64)
        for d in range(len(shape) - 2, -1, -1):
            st_[d] = st_[d + 1] * shape[d + 1]

        def f(idx):
            return idx @ st_

        return f, elsize, "rowmajor"
    raise Outside(f"layout {lay.name}")


def mt_elsize(mt):
    return mt.element_type.size


def affine_matrix(amap):
    """(A, b) of an affine map by evaluating it at 0 and at the unit vectors; checked for linearity on a second scale."""
    n = amap.num_dims
    zero = [0] * n
    b = np.array(amap.eval(zero, []), dtype=np.int64)
    A = np.zeros((len(b), n), dtype=np.int64)
    for i in range(n):
        e = list(zero)
        e[i] = 1
        A[:, i] = np.array(amap.eval(e, []), dtype=np.int64) - b
        e[i] = 3
        if not (np.array(amap.eval(e, []), dtype=np.int64) - b == 3 * A[:, i]).all():
            raise Outside("schedule pattern is not linear")
    return A, b


def _outside_domain(bounds, A, b, f, elsize, n_sp, rel):
    n = len(bounds)
    nt = n - n_sp
    relevant = [True] * nt + list(rel)
    base = int(f((np.zeros((1, n), dtype=np.int64) @ A.T + b))[0])
    strides = []
    for j in range(n):
        e = np.zeros((1, n), dtype=np.int64)
        e[0, j] = 1
        strides.append((int(f(e @ A.T + b)[0]) - base) if bounds[j] > 1 else 0)
    # affine on the box? A layout address is a sum of per-operand-dimension terms, so the access function is a sum of functions of the
    # groups of schedule dimensions that meet in one operand dimension: it is affine on the box iff it is affine on every group's
    # sub-box (all other dimensions at 0). The groups are small even when the whole box is not.
    svec = np.array(strides, dtype=np.int64)
    group = list(range(n))
    for row in A:
        js = [j for j in range(n) if row[j] != 0]
        for j in js[1:]:
            a_, b_ = group[js[0]], group[j]
            if a_ != b_:
                group = [a_ if g == b_ else g for g in group]
    for g in sorted(set(group)):
        js = [j for j in range(n) if group[j] == g and bounds[j] > 1]
        if not js:
            continue
        sub = [bounds[j] for j in js]
        npts = int(np.prod(sub))
        if npts <= 200000:
            loc = np.indices(tuple(sub)).reshape(len(js), -1).T
        else:
            rng = np.random.RandomState(12345)
            loc = np.stack([rng.randint(0, bj, size=100000) for bj in sub], axis=1)
        pts = np.zeros((len(loc), n), dtype=np.int64)
        pts[:, js] = loc
        if not (f(pts @ A.T + b) == base + pts @ svec).all():
            return "access function is not affine on the iteration box"
    run = None
    cur_stride = None
    for j in reversed(range(n)):
        if not relevant[j] or bounds[j] == 1:
            continue
        sb = strides[j] * elsize
        if run is None:
            if sb != elsize:
                return "innermost relevant dimension is not contiguous in memory"
            run = bounds[j] * elsize
        elif sb == run:
            run *= bounds[j]
        else:
            break
        if run >= SM.BANK:
            break
    if run is not None and run < SM.BANK:
        return "innermost contiguous run is shorter than one 8-byte bank word"
    return None


# ------------------------------------------------------------------------------------------------ property

DOC_REFUSALS = ("Non-contiguous access is not possible", "Access pattern bounds do not fit this streamer", "Access patterns with symbols", "unsupported kernel", "Unsupported type")


def _geom_ctx(r, acc_name):
    """Context for this case: the shared one, or (r["geom"]) a clone in which the accelerator is registered with another streamer
    geometry -- the same ports, other spatial factorisations -- the way snaxc --config registers a configured accelerator."""
    ctx = shared_ctx()
    if not r.get("geom"):
        return ctx
    from snaxc.accelerators.streamers.streamers import Streamer, StreamerConfiguration

    base = ctx.get_acc(acc_name)
    old = base.streamer_config.data.streamers
    new = []
    for i, s_ in enumerate(old):
        sp = r["geom"][i % len(r["geom"])]
        total = 1
        for x in s_.spatial_dims:
            total *= x
        t2 = 1
        for x in sp:
            t2 *= x
        new.append(Streamer(s_.type, tuple(s_.temporal_dims), tuple(sp) if t2 == total else tuple(s_.spatial_dims), tuple(s_.opts)))
    acc = type(base)(StreamerConfiguration(new))
    ctx = ctx.clone()
    ctx._registered_accelerators = dict(ctx._registered_accelerators)
    ctx._registered_accelerators[acc_name] = lambda: acc
    return ctx


# which hardware streamer serves which operand (written down here, not asked from the accelerator class)
GEMMX_STREAMERS = {("matmul", False): (0, 1, 4), ("matmul", True): (0, 1, 2), ("gemm", False): (0, 1, 3, 4), ("gemm", True): (0, 1, 3, 2),
                   ("conv", False): (0, 1, 4), ("rescale", True): (3, 2)}


def _in_main(o):
    while o is not None and o.name != "func.func":
        o = o.parent_op()
    return o is not None and o.sym_name.data == "main"


def prop(r):
    text = build(r)
    acc_name = "snax_alu" if r["kind"] == "alu" else "snax_gemmx"
    ctx = _geom_ctx(r, acc_name)
    sibling = False
    if r.get("sibling"):
        # a second operation of the same kind with another shape, in a function placed in front of @main in the same module
        try:
            t2 = build(dict(r, **r["sibling"]))
            body2 = t2.strip()[len("builtin.module {"):].rstrip()[:-1].replace("@main", "@pre")
            body1 = text.strip()[len("builtin.module {"):]
            merged = "builtin.module {" + body2.rstrip() + "\n" + body1.lstrip("\n")
            m2 = parse(merged, ctx)
            m2.verify()
            text, sibling = merged, True
        except Exception:
            pass
    try:
        mod = parse(text, ctx)
        mod.verify()
    except Exception as e:
        raise HarnessError(f"builder produced invalid IR: {e}\n{text}")
    try:
        with time_limit(20):
            run_pass(mod, "insert-accfg-op", ctx=ctx, accelerator=acc_name)
            run_pass(mod, "dart-scheduler", ctx=ctx)
            if r["layout"] in ("pass_tiled", "pass_untiled"):
                run_pass(mod, "set-memory-layout", ctx=ctx, tiled=(r["layout"] == "pass_tiled"))
            mod.verify()
    except PassTimeout:
        raise Reject("scheduler did not terminate within 20 s")
    except StopIteration:
        raise Reject(f"scheduler found no schedule [{r['kind']}]")
    except (NotImplementedError, RuntimeError, AssertionError, IndexError, ValueError) as e:
        raise Reject(f"scheduling/layout stage: {type(e).__name__} {str(e)[:50]}")
    scheds = [o for o in mod.walk() if o.name == "dart.schedule" and _in_main(o)]
    if len(scheds) != 1:
        raise Reject("no dart.schedule produced (operation left unscheduled)")
    sched = scheds[0]
    acc = ctx.get_acc(acc_name)
    template = acc.get_template(sched)
    hw_all = acc.streamer_config.data.streamers
    if r["kind"] == "alu":
        streamers = [hw_all[i] for i in range(len(sched.operands))]
    else:
        key = (r["kind"], bool(r.get("i8_out")) or r["kind"] == "rescale")
        streamers = [hw_all[i] for i in GEMMX_STREAMERS[key]]
    bounds = [b.value.data for b in sched.bounds.data]
    n_sp = template.num_dims
    if len(bounds) < n_sp:
        raise Reject("schedule has fewer dims than the template")
    # expected element byte streams per operand
    expected = []
    descs = []
    outside_why = []
    for i, operand in enumerate(sched.operands):
        A, b = affine_matrix(sched.patterns.data[i].data)
        f, elsize, desc = layout_fn(operand.type)
        if f is None:
            raise Violation("layout:does-not-cover-operand-shape", dict(operand=i, why=desc, schedule=to_text(sched)[:1500]))
        rel = [bool(x) for x in template[i].pattern.A.any(axis=0).tolist()]
        # schedule-level broadcast: a spatial dim the template uses for this port but the operand does not depend on (e.g. a 1-D bias).
        # The lowering then relies on the streamer's broadcast mode (flag <s>_broadcast), whose address behaviour is not documented in the
        # repository; such an operand is not compared (counted).
        sched_rel = [bool(x) for x in (A[:, len(bounds) - n_sp:] != 0).any(axis=0).tolist()]
        if any(t and not s_ and bounds[len(bounds) - n_sp + j] > 1 for j, (t, s_) in enumerate(zip(rel, sched_rel))):
            expected.append(None)
            descs.append(("broadcast-operand-not-modelled", mt_elsize(operand.type)))
            continue
        idx = SM.sched_elem_indices(bounds, A, b, n_sp, rel)
        shape = np.array([int(x) for x in operand.type.get_shape()])
        if (idx < 0).any() or (idx >= shape).any():
            raise Violation("schedule:index-outside-operand-shape", dict(operand=i, schedule=to_text(sched)[:1500]))
        addr = f(idx)
        if r["layout"] in ("none", "given"):
            # explicit input domain for layouts the compiler did not choose (DESIGN 4/C02): the true access function must be affine on the
            # iteration box and the innermost relevant run must be contiguous up to at least one 8-byte bank word.
            why = _outside_domain(bounds, A, b, f, elsize, n_sp, rel)
            if why:
                # this operand is not compared; the others still are (every operand's pattern is derived on its own)
                expected.append(None)
                descs.append(("outside-domain", elsize))
                outside_why.append(why)
                continue
        expected.append(SM.elem_bytes(addr, elsize))
        descs.append((desc, elsize))
    if outside_why and all(e is None for e in expected):
        raise Outside(outside_why[0])
    sched_text = to_text(sched)[:2500]
    # capture the patterns handed to set_stride_patterns
    captured = {}
    import snaxc.transforms.convert_dart_to_snax_stream as CONV

    acc_cls = type(acc)
    orig = acc_cls.set_stride_patterns

    def spy(self, op, pats):
        if _in_main(op):
            captured["pats"] = list(pats)
            captured["operands"] = list(op.operands)
        return orig(self, op, pats)

    acc_cls.set_stride_patterns = spy
    try:
        with warnings.catch_warnings(record=True) as wlist, time_limit(20), contextlib.redirect_stderr(io.StringIO()):
            warnings.simplefilter("always")
            run_pass(mod, "dart-layout-resolution", ctx=ctx)
            run_pass(mod, "convert-dart-to-snax-stream", ctx=ctx)
    except PassTimeout:
        raise Reject("conversion did not terminate within 20 s")
    except (NotImplementedError,) as e:
        raise Reject(f"conversion [{r['kind']}/{r['layout']}]: NotImplementedError {str(e)[:40]}")
    except RuntimeError as e:
        if any(s in str(e) for s in DOC_REFUSALS):
            raise Reject(f"conversion [{r['kind']}/{r['layout']}]: " + str(e)[:40])
        raise Violation("conversion:raises:RuntimeError", dict(error=str(e)[:200], schedule=sched_text))
    except (AssertionError, StopIteration) as e:
        # convert_dart_to_snax_stream guards unsupported shapes with bare asserts / runs out of dims
        raise Reject(f"conversion [{r['kind']}/{r['layout']}]: {type(e).__name__} (unsupported shape)")
    except Exception as e:
        raise Violation(f"conversion:raises:{type(e).__name__}", dict(error=str(e)[:200], schedule=sched_text))
    finally:
        acc_cls.set_stride_patterns = orig
    if any("Non-contiguous access" in str(w.message) for w in wlist):
        raise Outside("conversion warns: non-contiguous access (documented as unsupported)")
    regions = [o for o in mod.walk() if o.name == "snax_stream.streaming_region" and _in_main(o)]
    if len(regions) != 1 or "pats" not in captured:
        raise Violation("conversion:no-streaming-region", dict(after=to_text(mod)[:2000]))
    region = regions[0]

    fill = {}

    def match(hw, exp):
        """None if the hardware stream equals the scheduled stream; else (kind, info).
        Spatial fill-up: when a spatial schedule bound is smaller than the hardware unrolling, the conversion lets one hardware step cover
        g consecutive schedule steps (documented in convert_dart_to_snax_stream.py). Then the hardware step must be the concatenation of
        those g schedule steps, or - for an operand whose data is identical in all g steps - that data once."""
        if hw.shape == exp.shape:
            if (hw == exp).all():
                return None
            bad = int(np.argwhere((hw != exp).any(axis=1))[0][0])
            same_set = bool((np.sort(hw, axis=1) == np.sort(exp, axis=1)).all())
            return ("byte-order-within-step-differs" if same_set else "bytes-of-step-differ",
                    dict(first_bad_step=bad, hw=hw[bad][:32].tolist(), expected=exp[bad][:32].tolist()))
        if hw.shape[0] and exp.shape[0] % hw.shape[0] == 0 and exp.shape[0] > hw.shape[0]:
            g = exp.shape[0] // hw.shape[0]
            grouped = exp.reshape(hw.shape[0], g, exp.shape[1])
            if hw.shape[1] == g * exp.shape[1] and (hw == grouped.reshape(hw.shape[0], -1)).all():
                return ("fillup", g)
            if hw.shape[1] == exp.shape[1] and (grouped == grouped[:, :1, :]).all() and (hw == grouped[:, 0, :]).all():
                return ("fillup", g)
        if hw.shape[0] != exp.shape[0]:
            return ("number-of-temporal-steps-differs", dict(hw_steps=int(hw.shape[0]), expected_steps=int(exp.shape[0]),
                                                           hw_bytes_per_step=int(hw.shape[1]), expected_bytes_per_step=int(exp.shape[1])))
        return ("bytes-per-step-differ", dict(hw_bytes=int(hw.shape[1]), expected_bytes=int(exp.shape[1])))

    def compare(pat, operand_i, stage, spatial=None):
        ub = [x.data for x in pat.upper_bounds.data]
        ts = [x.data for x in pat.temporal_strides.data]
        ss = [x.data for x in pat.spatial_strides.data]
        sp = list(spatial if spatial is not None else streamers[operand_i].spatial_dims)
        hw = SM.hw_bytes(ub, ts, ss, sp)
        res = match(hw, expected[operand_i])
        if res is None:
            fill.setdefault(stage, set()).add(1)
            return
        if res[0] == "fillup":
            fill.setdefault(stage, set()).add(res[1])
            return
        suffix = ":layout-with-static-offset" if descs[operand_i][0].endswith(":offset") else ""
        detail = dict(operand=operand_i, stage=stage, pattern=dict(ub=ub, ts=ts, ss=ss), spatial_dims=sp,
                      layout=descs[operand_i][0], elsize=descs[operand_i][1], schedule=sched_text, info=res[1])
        raise Violation(f"{stage}:{res[0]}" + suffix, detail)

    for i, pat in enumerate(captured["pats"]):
        if expected[i] is not None:
            compare(pat, i, "patterns-handed-to-set_stride_patterns")
    # final region: find each schedule operand's pointer among the region operands
    final_pats = list(region.stride_patterns.data)
    used = set()
    for i, ptr in enumerate(captured["operands"]):
        js = [j for j, o in enumerate(region.operands) if o is ptr and j not in used]
        if not js:
            raise Violation("final-region:schedule-operand-has-no-stream", dict(operand=i, after=to_text(region)[:1500]))
        # the accelerator may attach the same pointer to a second (disabled/dummy) port: take the first whose pattern is not disabled
        j = next((j for j in js if any(x.data != 0 for x in final_pats[j].upper_bounds.data) or not final_pats[j].upper_bounds.data), js[0])
        used.add(j)
        if expected[i] is None:
            continue
        # final patterns belong to the hardware streamer of that port
        all_streamers = acc.streamer_config.data.streamers
        sp = all_streamers[j].spatial_dims if len(final_pats) == len(all_streamers) else streamers[i].spatial_dims
        compare(final_pats[j], i, "final-region", spatial=sp)
    for stage, gs in fill.items():
        if len(gs - {1}) > 1:
            raise Violation(f"{stage}:operands-use-different-fill-up-factors", dict(factors=sorted(gs), schedule=sched_text))
    # extra ports: disabled, a zero-pointer operand, or an exact mirror of another port's pattern
    for j, pat in enumerate(final_pats):
        if j in used:
            continue
        ub = [x.data for x in pat.upper_bounds.data]
        disabled = bool(ub) and all(x == 0 for x in ub)
        owner = region.operands[j].owner
        zero_ptr = getattr(owner, "name", "") == "arith.constant" and owner.value.value.data == 0
        mirror = any(pat == final_pats[k] for k in used)
        if not (disabled or zero_ptr or mirror):
            raise Violation("final-region:extra-port-neither-disabled-nor-zero-nor-mirror", dict(port=j, region=to_text(region)[:1500]))
    nsteps = next(e for e in expected if e is not None).shape[0]
    small = any(e < 8 for _, e in descs)
    cls = ["kind:" + r["kind"], "layout:" + r["layout"], "steps:" + ("1" if nsteps == 1 else "2+"), "tdims:%d" % (len(bounds) - n_sp)]
    if len(set(id(o) for o in sched.operands)) < len(sched.operands):
        cls.append("one-buffer-feeds-two-operands")
    if r.get("i8_out") and r["kind"] in ("matmul", "gemm"):
        cls.append("gemmx-i8-output:" + r["kind"])
    if sibling:
        cls.append("sibling-op-in-module")
    if r.get("geom") and [tuple(s_.spatial_dims) for s_ in hw_all] != [tuple(s_.spatial_dims) for s_ in shared_ctx().get_acc(acc_name).streamer_config.data.streamers]:
        cls.append("non-default-streamer-geometry")
    cls += sorted({"ref:" + d for d, _ in descs})
    if any(g - {1} for g in fill.values()):
        cls.append("spatial_fillup")
    return Info(nontrivial=bool(nsteps >= 2 and (small or r["layout"] != "none")), classes=tuple(cls), evals=sum(1 for e in expected if e is not None))


# ------------------------------------------------------------------------------------------------ strategies

@st.composite
def _given(draw, rank, tsl_in_4=1, inner=4):
    if draw(st.integers(0, 3)) < tsl_in_4:
        # tiled-strided layout with up to three tile levels per dimension; the innermost tile mostly matches the accelerator's unrolling
        return dict(tsl=[[draw(st.sampled_from([inner] * 6 + [2, 4, 8, 16])), draw(st.sampled_from([1, 2, 2, 4]))] for _ in range(rank)],
                    rot=draw(st.sampled_from([0] * 9 + [1, 2, 3])),
                    pad=[draw(st.sampled_from([0] * 7 + [8]))] + [draw(st.sampled_from([0, 0, 0, 0, 8, 64])) for _ in range(2)],
                    offset=0, perm=list(range(rank)))  # a TSL offset lives in the operand's pointer (convert-memref-to-arith, C10), not in the streams
    perm = draw(st.permutations(list(range(rank)))) if draw(st.integers(0, 3)) == 0 else list(range(rank))
    # padding behind the fastest dimension breaks the contiguous run the streamers need when that dimension is short: keep it rare
    return dict(perm=perm, pad=[draw(st.sampled_from([0] * 7 + [8]))] + [draw(st.sampled_from([0, 0, 0, 8, 16, 64])) for _ in range(rank - 1)],
                offset=draw(st.sampled_from([0, 0, 0, 0, 0, 8, 64])))


@st.composite
def recipe(draw, tier):
    r = draw(_recipe(tier))
    if draw(st.integers(0, 3)) == 0 and "sibling" not in r:
        f = st.sampled_from([1, 2, 2, 3])
        if r["kind"] == "alu":
            if len(r["shape"]) >= 2 and r["shape"] != r["shape"][::-1] and draw(st.booleans()):
                r["sibling"] = dict(shape=r["shape"][::-1])
            else:
                sib = dict(shape=[d * draw(f) for d in r["shape"]])
                if sib["shape"] == r["shape"]:
                    sib["shape"][-1] *= 2
                r["sibling"] = sib
        elif r["kind"] in ("matmul", "gemm"):
            sib = dict(M=r["M"] * draw(f), N=r["N"] * draw(f), K=r["K"] * draw(f))
            if (sib["M"], sib["N"], sib["K"]) == (r["M"], r["N"], r["K"]):
                sib["M"] *= 2
            r["sibling"] = sib
        elif r["kind"] == "rescale":
            r["sibling"] = dict(M=r["M"] * 2, K=r["K"])
    return r


@st.composite
def _recipe(draw, tier):
    big = tier == "thorough"
    kind = draw(st.sampled_from(["alu", "alu", "alu", "alu", "matmul", "matmul", "matmul", "matmul", "gemm", "gemm", "conv", "conv", "rescale"]))
    layout = draw(st.sampled_from(["none", "pass_tiled", "pass_tiled", "pass_untiled", "given", "given"]))
    r = dict(kind=kind, layout=layout)
    if draw(st.integers(0, 4)) == 0:
        # another spatial factorisation of the same ports (configured accelerator): per streamer one of the factorisations that fit
        one = st.sampled_from([[8], [4, 2], [2, 4], [4], [2, 2]])
        two = st.sampled_from([[8, 4], [4, 8], [32], [2, 16], [16, 2], [4], [2, 2]])
        r["geom"] = [draw(one), draw(one), draw(one if kind != "alu" else one), draw(two), draw(two)] if kind != "alu" else [draw(one) for _ in range(3)]
    mult8 = st.sampled_from([8, 16, 24, 32] + ([40, 64] if big else []))
    if kind == "alu":
        rank = draw(st.integers(1, 3))
        last = draw(st.sampled_from([4, 8, 12, 16, 32, 64, 20, 4, 8, 16] + ([128, 256] if big else []) + [2]))
        r["shape"] = [draw(st.sampled_from([1, 2, 3, 4, 5, 8])) for _ in range(rank - 1)] + [last]
        r["transpose_in"] = draw(st.integers(0, 3)) == 0
        rows = draw(st.integers(2, 5))
        r["const_row"] = [draw(st.integers(0, rows - 1)), rows] if draw(st.integers(0, 3)) == 0 else None
        r["given"] = [draw(_given(rank)) for _ in range(3)]
        if r["const_row"] is not None and not r["transpose_in"]:
            r["given"][1] = draw(_given(rank + 1))
        if r["transpose_in"] and rank >= 2:
            # the transposed input needs the (swapped) last dim to be schedulable too
            r["shape"][-2] = draw(st.sampled_from([4, 8, 12]))
        return r
    if kind == "rescale":
        r["M"], r["K"] = draw(mult8), draw(mult8)
        r["given"] = [draw(_given(2, 3, 8)) for _ in range(2)]
        return r
    if kind in ("matmul", "gemm"):
        # shapes that are not multiples of the template bound are refused by the scheduler (documented TODO): keep them rare
        odd = draw(st.integers(0, 11))
        r["M"] = draw(mult8) if odd != 0 else draw(st.sampled_from([4, 12, 1]))
        r["N"] = draw(mult8) if odd != 1 else draw(st.sampled_from([4, 12]))
        r["K"] = draw(mult8) if odd != 2 else draw(st.sampled_from([4, 12]))
        r["qmac"] = draw(st.booleans())
        r["bias_1d"] = draw(st.booleans())
        r["b_transposed"] = draw(st.booleans())
        r["i8_out"] = draw(st.integers(0, 2)) == 0
        # plain strided layouts are almost always refused by the conversion for gemmx (its 8x8 tiles are not contiguous): favour tiled ones
        r["given"] = [draw(_given(2, 3, 8)) for _ in range(4)]
        if r["b_transposed"] and layout in ("none", "given") and draw(st.integers(0, 2)) == 0:
            # Gram matrix: the same buffer is both inputs (needs equal types: square-compatible shapes and one layout)
            r["gram"] = True
            r["N"] = r["M"]
            r["given"][1] = dict(r["given"][0])
        if not r["b_transposed"] and draw(st.integers(0, 3)) != 0:
            # B is read along K: store it with K fastest (otherwise the access is not contiguous and the case is outside the domain)
            r["given"][1]["perm"] = [1, 0]
        if kind == "gemm" and r["bias_1d"]:
            r["given"][2] = draw(_given(1, 3, 8))
        return r
    r.update(Nn=draw(st.sampled_from([1, 1, 2])), F=draw(st.sampled_from([8, 16])), C=draw(st.sampled_from([8, 16])),
             OY=draw(st.sampled_from([1, 2, 4, 8])), OX=draw(st.sampled_from([8, 16])), FY=draw(st.sampled_from([1, 3])),
             FX=draw(st.sampled_from([1, 3])), S=draw(st.sampled_from([1, 1, 2])))
    r["given"] = [draw(_given(4, 3, 8)) for _ in range(3)]
    if draw(st.integers(0, 3)) != 0:
        # channels-last input and weights: the reduction over c is the contiguous run
        r["given"][0]["perm"] = [0, 2, 3, 1]
        r["given"][1]["perm"] = [0, 2, 3, 1]
    return r


# ------------------------------------------------------------------------------------------------ sub xdma_streams (snax_xdma extensions)
#
# snax_xdma is a reader -> extension -> writer pipe (StreamerSystemType.DmaExt): one reader and one writer streamer, each with 8 ports of
# 8 bytes, i.e. 64 bytes per hardware step, whatever the element type. Every extension template has one spatial dimension of 16 elements,
# so a schedule step holds 16 elements = 64 bytes of i32 or 16 bytes of i8; for the rescale kernels the two streamers therefore move a
# different number of schedule steps per hardware step. The reference works per operand in bytes: the hardware stream of an operand must
# be its scheduled stream, g consecutive schedule steps per hardware step (g = 64 / bytes per schedule step, the documented fill-up).

_CTXX: list = []

XDMA_KERNELS = ("add", "down", "up")
XDMA_TYPES = dict(add=("i32", "i32", "i32"), down=("i32", "i8"), up=("i8", "i32"))

# refusals the code words itself (RuntimeError texts) on the xdma path
XDMA_REFUSALS = DOC_REFUSALS + ("No suitable extension found", "needs both inputs")


def ctx_xdma():
    """Private context: the default snax-opt context plus snax_xdma, registered the way snaxc/tools/config_parser.py does it (snax_xdma is not in
    snax-opt's default registry)."""
    if not _CTXX:
        from snaxc.accelerators.snax_xdma import SNAXXDMAAccelerator
        from vlib.ctx import fresh_ctx

        c = fresh_ctx()
        acc = SNAXXDMAAccelerator()
        c.register_accelerator(SNAXXDMAAccelerator.name, lambda: acc)
        _CTXX.append(c)
    return _CTXX[0]


def _xdma_layout(spec, shape):
    """layout text for one operand: the specs of `_strided` / `_tsl`, plus dict(tile=t, gap=g): the last dimension cut into tiles of t contiguous
    elements that lie t + g elements apart (rows / tiles padded to an aligned pitch), outer dimensions row-major above it."""
    if "tile" not in spec:
        return _strided(spec, shape)
    t, gap = spec["tile"], spec["gap"]
    n = shape[-1]
    if n % t or n // t < 2:
        return None if len(shape) == 1 else _strided(dict(perm=list(range(len(shape))), pad=[0], offset=0), shape)
    pitch = t + gap
    cur = (n // t) * pitch
    outer = []
    for d in reversed(range(len(shape) - 1)):
        outer.insert(0, f"[{shape[d]}] -> ({cur})")
        cur *= shape[d]
    g = spec.get("group") or 0
    if g > 1 and (n // t) % g == 0:
        # the same addresses written with three tile levels: groups of g tiles, the groups dense above the padded pitch
        return "#tsl.tsl<" + ", ".join(outer + [f"[{n // t // g}, {g}, {t}] -> ({g * pitch}, {pitch}, 1)"]) + ">"
    return "#tsl.tsl<" + ", ".join(outer + [f"[{n // t}, {t}] -> ({pitch}, 1)"]) + ">"


def build_xdma(r):
    """dart.operation on snax_xdma with one extension kernel: add (i32 + i32 -> i32), down (rescale i32 -> i8), up (rescale i8 -> i32); the shape the
    frontend produces for kernels/xdma/add.py and kernels/rescale/rescale_{down,up}.py (element-wise, identity maps), plus rank 2 and a transposed
    first input."""
    k = r["kernel"]
    etys = XDMA_TYPES[k]
    shape = list(r["shape"])
    rank = len(shape)
    dims = ", ".join(f"d{i}" for i in range(rank))
    ident = f"affine_map<({dims}) -> ({dims})>"
    maps = [ident] * len(etys)
    shapes = [shape] * len(etys)
    if r.get("transpose_in") and rank == 2:
        maps = [f"affine_map<({dims}) -> (d1, d0)>"] + maps[1:]
        shapes = [[shape[1], shape[0]]] + shapes[1:]
    tys = []
    for i, ety in enumerate(etys):
        l = _xdma_layout(r["given"][i % len(r["given"])], shapes[i]) if r["layout"] == "given" else None
        tys.append(_mt(shapes[i], ety, l))
    n_in = len(etys) - 1
    L = ["builtin.module {"]
    L.append("  func.func public @main(" + ", ".join(f"%arg{i} : {t}" for i, t in enumerate(tys)) + ") {")
    L.append(f'    "dart.operation"({", ".join(f"%arg{i}" for i in range(len(tys)))}) <{{patterns = [{", ".join(maps)}], accelerator = "snax_xdma", '
             f'operandSegmentSizes = array<i32: {n_in}, 1>}}> ({{')
    L.append("    ^bb0(" + ", ".join(f"%s{i} : !dart.stream<{t}>" for i, t in enumerate(etys)) + "):")
    if k == "add":
        L.append('      %g0 = "dart.generic"(%s0, %s1) <{library_call = "snax_xdma"}> ({')
        L.append("      ^bb1(%a : i32, %b : i32, %o : i32):")
        L.append("        %k0 = kernel.add %a, %b : i32, i32 -> i32")
        L.append("        dart.yield %k0 : i32")
        L.append("      }) : (!dart.stream<i32>, !dart.stream<i32>) -> !dart.stream<i32>")
    else:
        ti, to = etys
        mx, mn = (127, -128) if to == "i8" else (2147483647, -2147483648)
        L.append('      %g0 = "dart.generic"(%s0) <{library_call = "snax_xdma"}> ({')
        L.append(f"      ^bb1(%a : {ti}, %o : {to}):")
        L.append(f"        %k0 = kernel.rescale %a {{input_zp = 0 : i32, output_zp = 0 : i32, multiplier = array<i32: 1140768826>, shift = array<i32: 47>, "
                 f"max_int = {mx} : i32, min_int = {mn} : i32, double_round = true}} : ({ti}) -> {to}")
        L.append(f"        dart.yield %k0 : {to}")
        L.append(f"      }}) : (!dart.stream<{ti}>) -> !dart.stream<{to}>")
    L.append(f"      dart.yield %g0 : !dart.stream<{etys[-1]}>")
    L.append(f"    }}) : ({', '.join(tys)}) -> ()")
    L.append("    func.return")
    L.append("  }")
    L.append("}")
    return "\n".join(L)


def _count_class(r):
    n = 1
    for x in r["shape"]:
        n *= x
    return "n%64==0" if n % 64 == 0 else ("n%16==0" if n % 16 == 0 else "n%16!=0")


def _pat_lists(pat):
    return ([x.data for x in pat.upper_bounds.data], [x.data for x in pat.temporal_strides.data], [x.data for x in pat.spatial_strides.data])


def prop_xdma(r):
    from xdsl.utils.exceptions import VerifyException

    from snaxc.accelerators.snax_xdma import SNAXXDMAAccelerator

    kernel = r["kernel"]
    tag = f"{kernel}/rank{len(r['shape'])}/{r['layout']}/{_count_class(r)}"
    text = build_xdma(r)
    ctx = ctx_xdma()
    try:
        mod = parse(text, ctx)
        mod.verify()
    except Exception as e:
        raise HarnessError(f"builder produced invalid IR: {e}\n{text}")
    try:
        with time_limit(20):
            run_pass(mod, "insert-accfg-op", ctx=ctx, accelerator="snax_xdma")
            run_pass(mod, "dart-scheduler", ctx=ctx)
            if r["layout"] in ("pass_tiled", "pass_untiled"):
                run_pass(mod, "set-memory-layout", ctx=ctx, tiled=(r["layout"] == "pass_tiled"))
            mod.verify()
    except PassTimeout:
        raise Reject("scheduler did not terminate within 20 s")
    except StopIteration:
        raise Reject(f"scheduler found no schedule [{tag}]")
    except (NotImplementedError, RuntimeError, AssertionError, IndexError, ValueError) as e:
        raise Reject(f"scheduling/layout stage [{tag}]: {type(e).__name__} {str(e)[:50]}")
    scheds = [o for o in mod.walk() if o.name == "dart.schedule"]
    if len(scheds) != 1:
        raise Reject("no dart.schedule produced (operation left unscheduled)")
    sched = scheds[0]
    acc = ctx.get_acc("snax_xdma")
    template = acc.get_template(sched)
    streamers = acc.get_streamers(sched)
    hw_streamers = acc.streamer_config.data.streamers  # (reader, writer)
    bounds = [b.value.data for b in sched.bounds.data]
    n_sp = template.num_dims
    if len(bounds) < n_sp:
        raise Reject("schedule has fewer dims than the template")
    n_ops = len(sched.operands)
    if n_ops != len(XDMA_TYPES[kernel]):
        raise HarnessError("operand count changed")
    # ---- reference: per operand, per schedule step, the bytes of the scheduled elements under the operand's layout (template order)
    expected, descs, outside_why = [], [], []
    for i, operand in enumerate(sched.operands):
        A, b = affine_matrix(sched.patterns.data[i].data)
        f, elsize, desc = layout_fn(operand.type)
        rel = [bool(x) for x in template[i].pattern.A.any(axis=0).tolist()]
        idx = SM.sched_elem_indices(bounds, A, b, n_sp, rel)
        shape = np.array([int(x) for x in operand.type.get_shape()])
        if (idx < 0).any() or (idx >= shape).any():
            raise Violation("schedule:index-outside-operand-shape", dict(operand=i, schedule=to_text(sched)[:1500]))
        if desc.endswith(":offset"):
            # a static layout offset is added to the operand's base pointer by the pointer lowering (convert-memref-to-arith, C10); the repository
            # does not say whether the stream has to contain it as well, so such an operand is not compared (counted)
            expected.append(None)
            descs.append(("static-offset-not-modelled", elsize))
            outside_why.append("layout with a static offset (not modelled)")
            continue
        if r["layout"] in ("none", "given"):
            why = _outside_domain(bounds, A, b, f, elsize, n_sp, rel)
            if why:
                expected.append(None)
                descs.append(("outside-domain", elsize))
                outside_why.append(why)
                continue
        expected.append(SM.elem_bytes(f(idx), elsize))
        descs.append((desc, elsize))
    if all(e is None for e in expected):
        raise Outside(outside_why[0])
    sched_text = to_text(sched)[:2500]
    # ---- run layout resolution and the conversion; capture what is handed to set_stride_patterns
    captured = {}
    orig = SNAXXDMAAccelerator.set_stride_patterns

    def spy(self, op, pats):
        captured["pats"] = list(pats)
        captured["operands"] = list(op.operands)
        return orig(self, op, pats)

    SNAXXDMAAccelerator.set_stride_patterns = spy
    try:
        with warnings.catch_warnings(record=True) as wlist, time_limit(20), contextlib.redirect_stderr(io.StringIO()):
            warnings.simplefilter("always")
            run_pass(mod, "dart-layout-resolution", ctx=ctx)
            run_pass(mod, "convert-dart-to-snax-stream", ctx=ctx)
    except PassTimeout:
        raise Reject("conversion did not terminate within 20 s")
    except NotImplementedError as e:
        raise Reject(f"conversion [{tag}]: NotImplementedError {str(e)[:40]}")
    except RuntimeError as e:
        if any(s in str(e) for s in XDMA_REFUSALS):
            raise Reject(f"conversion [{tag}]: " + str(e)[:60])
        raise Violation("xdma:conversion:raises:RuntimeError", dict(error=str(e)[:200], schedule=sched_text))
    except (AssertionError, StopIteration) as e:
        # convert_dart_to_snax_stream guards unsupported shapes with bare asserts / runs out of dims (next() on the access iterator)
        raise Reject(f"conversion [{tag}]: {type(e).__name__} (unsupported shape)")
    except Exception as e:
        raise Violation(f"xdma:conversion:raises:{type(e).__name__}", dict(error=str(e)[:200], schedule=sched_text))
    finally:
        SNAXXDMAAccelerator.set_stride_patterns = orig
    if any("Non-contiguous access" in str(w.message) for w in wlist):
        raise Outside("conversion warns: non-contiguous access (documented as unsupported)")
    try:
        mod.verify()
    except VerifyException as e:
        # snax_stream.streaming_region's verifier refuses patterns with more dimensions than the streamer has
        if "exceeds streamer dimensionality" in str(e):
            raise Reject(f"conversion [{tag}]: verifier: " + str(e)[:60])
        raise Violation("xdma:conversion:result-does-not-verify", dict(error=str(e)[:200], schedule=sched_text))
    regions = [o for o in mod.walk() if o.name == "snax_stream.streaming_region"]
    if len(regions) != 1 or "pats" not in captured:
        raise Violation("xdma:conversion:no-streaming-region", dict(after=to_text(mod)[:2000]))
    region = regions[0]
    if len(captured["pats"]) != n_ops:
        raise Violation("xdma:patterns-handed-to-set_stride_patterns:one-pattern-per-operand-expected", dict(n=len(captured["pats"]), schedule=sched_text))

    found = []  # (signature, detail): every mismatch of the case; the runner raises the first one that is not a listed known finding
    fills = {}
    compared = set()

    def check(hw, i, stage, pattern, extra_sig="", note=None, whole_sig=None):
        res = SM.match_steps(hw, expected[i])
        compared.add(stage)
        if res is None:
            fills[(stage, i)] = 1
            return True
        if res[0] == "fillup":
            fills[(stage, i)] = res[1]
            return True
        detail = dict(kernel=kernel, operand=i, stage=stage, pattern=pattern, layout=descs[i][0], elsize=descs[i][1], schedule=sched_text,
                      mismatch=res[0], info=res[1])
        if note:
            detail["note"] = note
        found.append((whole_sig or f"xdma:{stage}{extra_sig}:{res[0]}", detail))
        return False

    # stage 1: the patterns handed to set_stride_patterns, one per schedule operand, each on that operand's streamer
    for i, pat in enumerate(captured["pats"]):
        if expected[i] is None:
            continue
        ub, ts, ss = _pat_lists(pat)
        check(SM.hw_bytes(ub, ts, ss, list(streamers[i].spatial_dims)), i, "patterns-handed-to-set_stride_patterns", dict(ub=ub, ts=ts, ss=ss))

    # stage 2: the final region: (reader, writer) of the xdma
    final_pats = list(region.stride_patterns.data)
    if len(final_pats) != 2 or len(region.operands) != 2:
        raise Violation("xdma:final-region:reader-and-writer-pattern-expected", dict(region=to_text(region)[:1500]))
    ptrs = captured["operands"]
    cls_extra = []
    if region.operands[0] is not ptrs[0]:
        found.append(("xdma:final-region:reader-does-not-start-at-first-input", dict(kernel=kernel, region=to_text(region)[:1500])))
    if region.operands[1] is not ptrs[-1]:
        found.append(("xdma:final-region:writer-does-not-start-at-output", dict(kernel=kernel, region=to_text(region)[:1500])))
    rub, rts, rss = _pat_lists(final_pats[0])
    wub, wts, wss = _pat_lists(final_pats[1])
    hw_r = SM.hw_bytes(rub, rts, rss, list(hw_streamers[0].spatial_dims))
    hw_w = SM.hw_bytes(wub, wts, wss, list(hw_streamers[1].spatial_dims))
    if expected[-1] is not None:
        check(hw_w, n_ops - 1, "final-region", dict(ub=wub, ts=wts, ss=wss))
    if kernel != "add":
        if expected[0] is not None:
            check(hw_r, 0, "final-region", dict(ub=rub, ts=rts, ss=rss))
    else:
        # AddExtension.set_stride_patterns gives the one reader both inputs: an extra innermost temporal dimension of bound 2 alternates between
        # the first input (reader base pointer) and the second one, which is not passed to the region at all but assumed at a fixed distance
        # behind the first ("TODO: make this 512 not hardcoded"). Reference: even hardware steps are the first input's stream; odd steps, moved
        # back by the distance D the pattern itself uses, are the second input's stream *if* that input lies D bytes behind the first.
        if hw_r.shape[0] % 2 or hw_r.shape[0] == 0:
            found.append(("xdma:final-region:add-reader-does-not-alternate-between-two-inputs", dict(pattern=dict(ub=rub, ts=rts, ss=rss), schedule=sched_text)))
        else:
            hw_a, hw_b = hw_r[0::2], hw_r[1::2]
            if expected[0] is not None:
                check(hw_a, 0, "final-region", dict(ub=rub, ts=rts, ss=rss))
            dist = int(hw_b[0, 0] - hw_a[0, 0])
            # the region has no pointer for the second input: where it is read depends on a placement the compiler neither enforces nor checks
            found.append(("xdma:final-region:add-second-input-has-no-pointer:read-at-fixed-distance-behind-first-input",
                          dict(assumed_distance_bytes=dist, pattern=dict(ub=rub, ts=rts, ss=rss), region=to_text(region)[:600])))
            cls_extra.append(f"add:assumed-distance:{dist}")
            if expected[1] is not None:
                # the extension builds the reader pattern from the first input's pattern only; a second input that was handed over with a
                # pattern of its own (another layout) is then streamed with the first input's strides: one root cause, one signature
                same = captured["pats"][0].canonicalize() == captured["pats"][1].canonicalize()
                ok = check(hw_b - dist, 1, "final-region", dict(ub=rub, ts=rts, ss=rss), extra_sig=":add-second-input",
                           whole_sig=None if same else "xdma:final-region:add-second-input-streamed-with-first-input-pattern",
                           note=f"second input compared relative to first input + {dist} bytes; handed-over pattern of the second input: "
                                f"{_pat_lists(captured['pats'][1])}")
                cls_extra.append("add:second-input:" + ("same-pattern-as-first" if same else "own-pattern") + (":matches" if ok else ":differs"))
    # operands of equal element size must use one fill-up factor (they advance in lockstep); across element sizes the factor follows the bytes
    for stage in compared:
        by_size = {}
        for (s, i), g in fills.items():
            if s == stage:
                by_size.setdefault(descs[i][1], set()).add(g)
        if any(len(gs) > 1 for gs in by_size.values()):
            found.append((f"xdma:{stage}:operands-of-one-element-size-use-different-fill-up-factors",
                          dict(factors={str(k_): sorted(v) for k_, v in by_size.items()}, schedule=sched_text)))
    nsteps = next(e for e in expected if e is not None).shape[0]
    n_cmp = sum(1 for e in expected if e is not None)
    cls = ["kernel:" + kernel, "rank:%d" % len(r["shape"]), "layout:" + r["layout"], "count:" + _count_class(r), "steps:" + ("1" if nsteps == 1 else "2+"),
           "tdims:%d" % (len(bounds) - n_sp), f"cmp:{kernel}/rank{len(r['shape'])}/{_count_class(r)}", f"cmp:{kernel}/{r['layout']}",
           "operands-compared:%d/%d" % (n_cmp, n_ops)]
    if r.get("transpose_in") and len(r["shape"]) == 2:
        cls.append("transposed-input")
    cls += sorted({"ref:" + d for d, _ in descs})
    cls += sorted({"fill:elsize%d:x%d" % (descs[i][1], g) for (s, i), g in fills.items()})
    cls += cls_extra
    return Info(nontrivial=bool(nsteps >= 2 and "final-region" in compared), classes=tuple(cls), evals=2 * n_cmp, known=found)


@st.composite
def recipe_xdma(draw, tier):
    big = tier == "thorough"
    kernel = draw(st.sampled_from(XDMA_KERNELS))
    layout = draw(st.sampled_from(["none", "none", "pass_tiled", "pass_untiled", "given", "given"]))
    rank = draw(st.sampled_from([1, 2]))
    mult64 = [64, 128, 192, 256, 320, 512] + ([1024, 2048, 4096] if big else [])
    mult16 = [16, 32, 48, 80, 96, 160, 224]  # n/16 % 4 in 1, 2, 3
    other = [8, 24, 40, 4, 100]
    if rank == 1:
        shape = [draw(st.sampled_from(mult64 * 4 + mult16 * 3 + other))]
    else:
        a = draw(st.sampled_from([16, 16, 32, 64, 64, 128, 8, 4, 48] + ([256] if big else [])))
        # 20 / 24: too large and not a multiple of 16, so the scheduler has to unroll the other dimension
        b = draw(st.sampled_from([1, 2, 3, 4, 4, 5, 6, 8, 8, 12, 16, 20, 24]))
        shape = [a, b] if draw(st.integers(0, 2)) != 0 else [b, a]
        if layout == "none" and draw(st.integers(0, 2)) != 0:
            # row-major: only an operation whose dimension 0 can not be unrolled (too large, not a multiple of 16) streams along the rows
            shape = [draw(st.sampled_from([20, 24, 40, 17])), draw(st.sampled_from([16, 32, 64, 64, 128]))]
    r = dict(kernel=kernel, layout=layout, shape=shape, transpose_in=bool(rank == 2 and draw(st.integers(0, 3)) == 0))
    given = []
    for _ in range(3):
        if draw(st.integers(0, 2)) == 0:
            # contiguous tiles at a padded pitch (gap in elements; 8 i8 elements = one bank word)
            given.append(dict(tile=draw(st.sampled_from([16, 16, 16, 32, 64])), gap=draw(st.sampled_from([16, 16, 8, 48, 112])),
                              group=draw(st.sampled_from([0, 0, 2, 4]))))
        else:
            g = draw(_given(rank, 1, 16))
            if "offset" in g and draw(st.integers(0, 3)) != 0:
                g["offset"] = 0  # operands with a static offset are not compared: keep them rare
            given.append(g)
    if draw(st.integers(0, 3)) != 0:
        # the usual case: all operands of the element-wise operation laid out alike
        given = [dict(given[0]) for _ in range(3)]
    if rank == 2 and draw(st.integers(0, 3)) != 0:
        # the scheduler unrolls dimension 0 spatially whenever its size allows: make that dimension the contiguous one
        for i, g in enumerate(given):
            if "tile" not in g:
                g = dict(g)
                g["perm"] = [0, 1] if (i == 0 and r["transpose_in"]) else [1, 0]
                given[i] = g
    r["given"] = given
    return r


XDMA_R1_SIZES = (4, 8, 16, 24, 32, 40, 48, 64, 80, 96, 100, 128, 160, 192, 224, 256, 320, 512)


def exhaustive_xdma(tier):
    """The finite core of the space, enumerated in every run: every kernel x every rank-1 element count (multiples of 64, of 16 only with every
    residue of n/16 mod 4, and non-multiples of 16) x {row-major, both compiler-chosen layouts, tiles of 16 at a padded pitch}, and a grid of rank-2
    shapes x {compiler-chosen layouts, dimension 0 contiguous, row-major} x {plain, transposed first input}."""
    for kernel in XDMA_KERNELS:
        for n in XDMA_R1_SIZES:
            for layout in ("none", "pass_tiled", "pass_untiled"):
                yield dict(kernel=kernel, layout=layout, shape=[n], transpose_in=False, given=[dict(perm=[0], pad=[0], offset=0)])
            for gap in (16, 48):
                yield dict(kernel=kernel, layout="given", shape=[n], transpose_in=False, given=[dict(tile=16, gap=gap)])
                yield dict(kernel=kernel, layout="given", shape=[n], transpose_in=False, given=[dict(tile=16, gap=gap, group=2)])
        for a in (4, 8, 16, 32, 64, 128):
            for b in (1, 2, 3, 4, 6, 8, 16, 20):
                for shape in ([a, b], [b, a]):
                    for tr in (False, True):
                        for layout in ("pass_tiled", "pass_untiled"):
                            yield dict(kernel=kernel, layout=layout, shape=shape, transpose_in=tr, given=[dict(perm=[0, 1], pad=[0, 0], offset=0)])
                        for perm in ([1, 0], [0, 1]):
                            if perm == [0, 1] and shape[0] not in (1, 20):
                                continue  # row-major while dimension 0 is the unrolled one: outside the domain, nothing to compare
                            first =dict(perm=([0, 1] if perm == [1, 0] else [1, 0]) if tr else perm, pad=[0, 0], offset=0)
                            other = dict(perm=perm, pad=[0, 0], offset=0)
                            yield dict(kernel=kernel, layout="given", shape=shape, transpose_in=tr, given=[first, other, other])


SUBS = [
    Sub("streams", lambda tier: recipe(tier), prop, budget=dict(quick=3000, thorough=30000), floor=dict(quick=150, thorough=1500),
        nontrivial_rule=">= 2 temporal steps and an operand with element size < 8 bytes or a non-default layout"),
    Sub("xdma_streams", lambda tier: recipe_xdma(tier), prop_xdma, budget=dict(quick=2400, thorough=24000), exhaustive=exhaustive_xdma,
        floor=dict(quick=300, thorough=1200),  # unchanged tree: 940..990 quick (seeds 1, 2, 3, 7, 11), 3885 thorough (seed 1)
        nontrivial_rule=">= 2 schedule steps and both stages (hand-over to set_stride_patterns, final streaming region) compared for at least one operand"),
]
