"""C03 Scheduling preserves the iteration space."""
from __future__ import annotations

import numpy as np
from hypothesis import strategies as st

from vlib import gen_sched as G
from vlib.runner import Info, Outside, Reject, Sub, Violation

from snaxc.ir.dart.access_pattern import Schedule, SchedulePattern
from snaxc.ir.dart.affine_transform import AffineTransform
from snaxc.ir.dart import scheduler as S

ID = "C03"
RULE = (
    "Recipes are (bounds, per-operand integer access matrices A and offsets b) plus either an elementary action "
    "(rotate d / tile_dim d,t with t | bound / add_dim / clear_unused_dims with and without explicit bounds / canonicalize / "
    "chains of 2..5 of them) or an accelerator template (bounded and unbounded dims, broadcast rows, extra outer dims) "
    "with extra-check subsets; every schedule yielded by scheduler_backtrack (cap 200) is checked. Oracle: the multiset over "
    "the iteration box of the concatenated operand index tuples is equal before and after (numpy enumeration, both directions). "
    "Non-trivial: the result differs from the input as an object and the box has more than one point; a case is distinct by recipe hash."
)
ASSUMPTIONS = [
    "xDSL 0.70 compatibility shim (vlib/compat.py) only converts list-valued irdl_options to tuples",
    "the iteration space of a schedule is the box 0..bound-1 per dim (docstrings of SchedulePattern)",
]


def _apply(s: Schedule, act):
    k = act[0]
    if k == "rotate":
        return s.rotate(act[1])
    if k == "tile":
        return s.tile_dim(act[1], act[2])
    if k == "add_dim":
        return s.add_dim()
    if k == "clear":
        return s.clear_unused_dims()
    if k == "canon":
        return s.canonicalize()
    raise AssertionError(k)


def prop_elementary(r):
    s = G.mk_schedule(r["bounds"], r["ops"])
    before = G.sched_multiset(s)
    act = r["action"]
    npts = int(np.prod(r["bounds"]))
    try:
        if act[0] == "chain":
            out = s
            for a in act[1]:
                out = _apply(out, a)
        elif act[0] == "clear_b":
            # explicit bounds define the iteration space of the input
            s = G.mk_schedule(act[1], r["ops"])
            before = G.sched_multiset(s)
            npts = int(np.prod(act[1]))
            out = s.clear_unused_dims(tuple(act[1]))
        elif act[0] == "inner":
            # inner_dims(k): original with the outer dims fixed to 0
            k = min(len(r["bounds"]), 1 + (sum(r["bounds"]) % len(r["bounds"])))
            out = s.inner_dims(k)
            fixed = G.mk_schedule([1] * (len(r["bounds"]) - k) + list(r["bounds"][-k:]), r["ops"])
            before = G.sched_multiset(fixed)
        else:
            out = _apply(s, act)
    except Exception as e:  # pure function on an input inside its domain: must produce an object
        raise Violation(f"elementary:{act[0]}:raises:{type(e).__name__}", dict(error=repr(e)))
    after = G.sched_multiset(out)
    if not G.same_multiset(before, after):
        raise Violation(f"elementary:{act[0]}:iteration-multiset-differs",
                        dict(before_bounds=r["bounds"], after=G.schedule_to_recipe(out) if len(out) else None))
    # single-pattern API must agree with the collection API
    if act[0] in ("rotate", "tile", "add_dim", "canon"):
        for p_in, p_out in zip(s, out):
            single = {"rotate": lambda p: p.rotate(act[1]), "tile": lambda p: p.tile_dim(act[1], act[2]),
                      "add_dim": lambda p: p.add_dim(), "canon": lambda p: p.canonicalize()}[act[0]](p_in)
            if tuple(single.bounds) != tuple(p_out.bounds) or not _same_pattern(single.pattern, p_out.pattern):
                raise Violation(f"elementary:{act[0]}:pattern-vs-collection-differ", None)
    changed = (tuple(out[0].bounds) != tuple(r["bounds"])) or any(
        not _same_pattern(a.pattern, b.pattern) for a, b in zip(s, out)) if len(out) else False
    return Info(nontrivial=bool(changed and npts > 1), classes=(f"act:{act[0]}", f"dims:{len(r['bounds'])}",
                                                                 "changed" if changed else "unchanged"))


def _same_pattern(a, b):
    """a == b for AffineTransform objects; transforms of different shape are different (their __eq__ raises on them)."""
    try:
        if a.A.shape != b.A.shape or a.b.shape != b.b.shape:
            return False
        return bool(a == b)
    except Exception:
        return False


def _checks(r):
    cs = []
    if "pos" in r["checks"]:
        cs.append(S.is_pure_output_stationary)
    if "mem" in r["checks"]:
        es = list(r["elsizes"])
        cs.append(lambda t, s: S.is_memory_flexible_enough(t, s, es))
    return cs


CAP = 200


def prop_backtrack(r):
    s = G.mk_schedule(r["bounds"], r["ops"])
    t = G.mk_template(r["tbounds"], r["tops"])
    before = G.sched_multiset(s)
    npts = int(np.prod(r["bounds"]))
    n = 0
    changed = 0
    tiled = 0
    try:
        it = S.scheduler_backtrack(t, s, extra_checks=_checks(r))
        results = []
        for res in it:
            results.append(res)
            if len(results) >= CAP:
                break
    except Exception as e:
        raise Violation(f"backtrack:raises:{type(e).__name__}", dict(error=repr(e)))
    for res in results:
        n += 1
        after = G.sched_multiset(res)
        if not G.same_multiset(before, after):
            raise Violation("backtrack:iteration-multiset-differs", dict(yield_index=n - 1, result=G.schedule_to_recipe(res)))
        if not (res == s):
            changed += 1
        if res.num_dims > s.num_dims:
            tiled += 1
    # scheduler(..., schedule_idx=i) returns the i-th yield
    if results and len(results) < CAP:
        i = (npts + len(results)) % len(results)
        try:
            pick = S.scheduler(t, s, extra_checks=_checks(r), schedule_idx=i)
            first = S.scheduler(t, s, extra_checks=_checks(r))
        except Exception as e:
            raise Violation(f"scheduler:raises:{type(e).__name__}", dict(error=repr(e)))
        if not (pick == results[i]) or not (first == results[0]):
            raise Violation("scheduler:index-selects-other-schedule", dict(i=i))
    cls = [f"yields:{'0' if n == 0 else '1' if n == 1 else '2+' if n < CAP else 'cap'}", f"mode:{r['mode']}",
           f"checks:{'+'.join(r['checks']) or 'none'}"]
    if tiled:
        cls.append("tiled")
    if any(b is None for b in r["tbounds"]):
        cls.append("template-unbounded-dim")
    return Info(nontrivial=bool(changed and npts > 1), classes=tuple(cls), evals=max(1, n))


def exhaustive_elementary(tier):
    """All 1..2-operand, <=3-dim, bounds<=3, entries in {0,1,2} single-result patterns x all elementary actions (thorough only)."""
    import itertools
    if tier != "thorough":
        return
    for n in (1, 2, 3):
        for bounds in itertools.product((1, 2, 3), repeat=n):
            for nops in (1, 2):
                for rows in itertools.product(itertools.product((0, 1, 2), repeat=n), repeat=nops):
                    ops = [dict(A=[list(row)], b=[0]) for row in rows]
                    acts = [["add_dim"], ["clear"], ["canon"]]
                    acts += [["rotate", d] for d in range(1, n + 1)]
                    for d in range(n):
                        acts += [["tile", d, t] for t in range(1, bounds[d] + 1) if bounds[d] % t == 0]
                    for a in acts:
                        yield dict(bounds=list(bounds), ops=ops, action=a)


SUBS = [
    Sub("elementary", lambda tier: G.elementary_recipe(tier), prop_elementary,
        budget=dict(quick=12000, thorough=300000), floor=dict(quick=2000, thorough=50000),
        nontrivial_rule="the transformed schedule differs from the input and the box has > 1 point"),
    Sub("elementary_exhaustive", None, prop_elementary, budget=dict(quick=0, thorough=0),
        exhaustive=exhaustive_elementary, exhaustive_only=True,
        nontrivial_rule="as elementary; complete enumeration of the small space (thorough tier only)"),
    Sub("backtrack", lambda tier: G.template_case(tier), prop_backtrack,
        budget=dict(quick=4000, thorough=80000), floor=dict(quick=200, thorough=4000),
        nontrivial_rule="at least one yielded schedule differs from the input schedule and the box has > 1 point"),
]


# ---------------------------------------------------------------------------------------------------------------
# 3. AutoflowScheduler on IR: dart.operation vs dart.schedule (generator shared with C02)

def prop_autoflow(r):
    import props.C02 as C02
    from vlib.ctx import PassTimeout, parse, run_pass, shared_ctx, time_limit

    text = C02.build(r)
    sibling = False
    if r.get("sibling"):
        # a second operation of the same kind with another shape, in a function placed in front of @main in the same module
        try:
            t2 = C02.build(dict(r, **r["sibling"]))
            body2 = t2.strip()[len("builtin.module {"):].rstrip()[:-1].replace("@main", "@pre")
            body1 = text.strip()[len("builtin.module {"):]
            merged = "builtin.module {" + body2.rstrip() + "\n" + body1.lstrip("\n")
            m2 = parse(merged, shared_ctx())
            m2.verify()
            text, sibling = merged, True
        except Exception:
            pass
    mod = parse(text, shared_ctx())
    mod.verify()

    def in_main(o):
        while o is not None and o.name != "func.func":
            o = o.parent_op()
        return o is not None and o.sym_name.data == "main"

    ops = [o for o in mod.walk() if o.name == "dart.operation" and in_main(o)]
    assert len(ops) == 1
    op = ops[0]
    # iteration bounds from the recipe (independent of the dialect's own bound inference)
    if r["kind"] == "alu":
        ob = list(r["shape"])
    elif r["kind"] == "rescale":
        ob = [r["M"], r["K"]]
    elif r["kind"] in ("matmul", "gemm"):
        ob = [r["M"], r["N"], r["K"]]
    else:
        ob = [r["Nn"], r["F"], r["OY"], r["OX"], r["C"], r["FY"], r["FX"]]
    mats = [C02.affine_matrix(p.data) for p in op.patterns.data]
    before = G.iteration_multiset(ob, mats)
    acc_name = "snax_alu" if r["kind"] == "alu" else "snax_gemmx"
    try:
        with time_limit(20):
            run_pass(mod, "insert-accfg-op", accelerator=acc_name)
            run_pass(mod, "dart-scheduler")
    except PassTimeout:
        raise Reject("scheduler did not terminate within 20 s")
    except StopIteration:
        raise Reject("scheduler found no schedule")
    except (NotImplementedError, RuntimeError, AssertionError) as e:
        raise Reject(f"scheduler refused: {type(e).__name__}")
    except Exception as e:
        raise Violation(f"autoflow:raises:{type(e).__name__}", dict(error=repr(e), module=text))
    scheds = [o for o in mod.walk() if o.name == "dart.schedule" and in_main(o)]
    if len(scheds) != 1:
        raise Reject("operation left unscheduled")
    s = scheds[0]
    sb = [b.value.data for b in s.bounds.data]
    smats = [C02.affine_matrix(p.data) for p in s.patterns.data]
    after = G.iteration_multiset(sb, smats)
    if not G.same_multiset(before, after):
        raise Violation("autoflow:iteration-multiset-differs", dict(op_bounds=ob, schedule_bounds=sb, module=text))
    npts = int(np.prod(ob))
    changed = sb != ob or any(not (a[0] == b[0]).all() for a, b in zip(mats, smats) if a[0].shape == b[0].shape) or len(sb) != len(ob)
    return Info(nontrivial=bool(changed and npts > 1),
                classes=("kind:" + r["kind"], "tiled" if len(sb) > len(ob) else "untiled") + (("sibling-op-in-module",) if sibling else ()))


def _autoflow_strategy(tier):
    import props.C02 as C02
    from hypothesis import strategies as st

    @st.composite
    def strat(draw):
        r = draw(C02.recipe(tier))
        r.pop("sibling", None)
        if r["kind"] == "alu" and not r.get("transpose_in") and r.get("const_row") is None and draw(st.integers(0, 3)) == 0:
            r["neg_off"] = draw(st.integers(1, 3))
        if draw(st.integers(0, 2)) == 0:
            f = st.sampled_from([1, 2, 2, 3])
            if r["kind"] == "alu" and len(r["shape"]) >= 2 and r["shape"] != r["shape"][::-1] and draw(st.booleans()):
                # the same extents in another order (e.g. 1x16 and 16x1)
                r["sibling"] = dict(shape=r["shape"][::-1])
            elif r["kind"] == "alu":
                sib = dict(shape=[d * draw(f) for d in r["shape"]])
                if sib["shape"] == r["shape"]:
                    sib["shape"][-1] *= 2
                r["sibling"] = sib
            elif r["kind"] in ("matmul", "gemm"):
                sib = dict(M=r["M"] * draw(f), N=r["N"] * draw(f), K=r["K"] * draw(f))
                if (sib["M"], sib["N"], sib["K"]) == (r["M"], r["N"], r["K"]):
                    sib["M"] *= 2
                r["sibling"] = sib
        return r

    return strat()


SUBS.append(
    Sub("autoflow_ir", _autoflow_strategy, prop_autoflow, budget=dict(quick=600, thorough=10000), floor=dict(quick=60, thorough=1000),
        nontrivial_rule="the dart.schedule differs from the dart.operation (tiling/rotation) and the iteration box has > 1 point"))
