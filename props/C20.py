"""C20 A merged processing element, configured as decoded, computes each kernel."""
from __future__ import annotations

import os

from vlib import ctx as C
from vlib import gen_c20 as G
from vlib import pe_interp as I
from vlib.runner import Info, Outside, Reject, Sub, Violation

from xdsl.dialects import builtin, linalg
from xdsl.ir.affine import AffineMap
from xdsl.pattern_rewriter import PatternRewriter
from xdsl.utils.exceptions import VerifyException

from snaxc.accelerators.snax_phs import SNAXPHSAccelerator
from snaxc.dialects import phs
from snaxc.phs.combine import append_to_abstract_graph
from snaxc.phs.decode import MappingNotFoundError, decode_abstract_graph
from snaxc.phs.encode import convert_generic_body_to_phs
from snaxc.phs.template_spec import TemplateSpec
from snaxc.transforms.phs.encode import PhsEncodePass
from snaxc.transforms.phs.remove_one_option_switches import PhsRemoveOneOptionSwitchesPass

ID = "C20"
RULE = (
    "A recipe is a whole merge *history*: element type (i8/i16/i32/i64/f32/f64, one per history), k in 2..4 data inputs, and 1..5 "
    "(thorough: 1..8) linalg.generic bodies of 1..4 binary ops (int: addi subi muli andi ori xori maxsi minsi; float: addf subf mulf) "
    "with arbitrary routing (swapped operands, reuse of earlier results, the same value on both operands, dead ops, yield of any "
    "result or rarely of a data input, unused block arguments that encode erases, outs argument used or unused); later kernels are fresh or 1..2-step mutations (swap/rename/reroute/append/drop/other yield/duplicate) of earlier "
    "ones so that they collide with them. The history is built as MLIR text, parsed, and replayed inside prop step by step with the "
    "real convert_generic_body_to_phs / append_to_abstract_graph (first kernel becomes the PE) exactly as phs-encode does; after EVERY "
    "merge the invariant is checked for EVERY kernel merged so far. This is equivalent to a Hypothesis RuleBasedStateMachine with "
    "one rule merge(kernel) and an invariant, but keeps the recipe/replay/shrinking machinery of the runner (the recipe is the rule "
    "sequence). Invariant: decode_abstract_graph succeeds; #values == get_true_switches() == #phs_switch_* fields of "
    "SNAXPHSAccelerator(pe) (also in its accfg.accelerator op) == #values of its get_switch_values == op-walk count (muxes + "
    "chooses with >= 2 regions) == #switches left by phs-remove-one-option-switches; the PE interpreter (vlib/pe_interp.py) under the decoded values equals the kernel's "
    "own body on 5^k corner vectors + 4..6 drawn vectors + 96 vectors expanded (splitmix64) from a drawn seed; same on the PE after "
    "phs-remove-one-option-switches with the values applied positionally. At the end the real phs-encode pass is run on the whole "
    "module and must produce the same PE. If the PE exceeds MUX_CAP muxes the history is cut there (decode's search is 2^muxes). "
    "Non-trivial: >= 2 kernels with different routing, i.e. the final PE holds at least one mux; distinct by recipe hash."
)
ASSUMPTIONS = [
    "xDSL 0.70 compatibility shim (vlib/compat.py) only converts list-valued irdl_options to tuples",
    "PE semantics as lowered by the repository itself: choose switch i selects region i (finalize-phs-to-hw: array_create of the "
    "reversed yields, array_get[switch]); mux 0 = lhs, 1 = rhs (ConvertMuxes); decode's values belong, in order, to the switches "
    "that are not single-operation chooses (decode_abstract_graph, phs-remove-one-option-switches)",
    "a kernel's data inputs are its used block arguments in order (convert_generic_body_to_phs erases unused ones); all kernels of a "
    "history use the same number of inputs (decode_abstract_graph documents/asserts equal operand counts)",
    "arith semantics: two's complement wrap at the element width, signed max/min, IEEE f32/f64 (numpy); float inputs from the grid "
    "n/2, |n| <= 8, so no overflow/NaN; comparison is exact because a correct decode replays the identical operation sequence",
]

MUX_CAP = int(os.environ.get("C20_MUX_CAP", "11"))

_CTX = []
_SPEC = []


def _ctx():
    if not _CTX:
        _CTX.append(C.fresh_ctx())
    return _CTX[0]


def _spec():
    # the fixed template phsc_main uses
    if not _SPEC:
        _SPEC.append(TemplateSpec(
            input_maps=(AffineMap.from_callable(lambda y: (y,)), AffineMap.from_callable(lambda y: (y,))),
            output_maps=(AffineMap.from_callable(lambda y: (y,)),), template_bounds=(4,)))
    return _SPEC[0]


def _encode(generic, tag):
    """convert_generic_body_to_phs the way EncodeLinalgGeneric / SNAXPHSAccelerator.get_switch_values call it."""
    try:
        pe = convert_generic_body_to_phs(generic, "acc", PatternRewriter(generic))
    except NotImplementedError as e:
        raise Reject(f"encode: NotImplementedError {e}")
    except Exception as e:
        raise Violation(f"encode:raises:{type(e).__name__}", dict(where=tag, error=repr(e)))
    return pe


def _body_reference(generic, k, dead, X):
    """The kernel's own function: its linalg body on the data vectors (unused block arguments get zeros)."""
    args = []
    cols = iter(range(k))
    for _name, used in G.block_args(k, dead):
        args.append(X[:, next(cols)] if used is not None else X[:, 0] * 0)
    out = I.run_scalar_block(generic.body.block, args)
    assert len(out) == 1
    return out[0]


def _pe_text(pe):
    try:
        return C.to_text(pe)
    except Exception as e:  # printing must never decide anything
        return f"<unprintable: {e!r}>"


def _classify_pe_error(e: I.PEError, where: str, pe, extra=None):
    d = dict(where=where, error=str(e), pe=_pe_text(pe))
    if extra:
        d.update(extra)
    return Violation(f"{where}:{e.kind}", d)


def _mux_count(pe):
    return sum(1 for op in pe.body.block.ops if isinstance(op, phs.MuxOp))


def _swap_present(kernels):
    """two kernels hold the same non-commutative op at the same position with exactly swapped, different sources."""
    seen = set()
    for kern in kernels:
        for j, (name, s0, s1) in enumerate(kern["ops"]):
            if name in G.NONCOMM and s0 != s1:
                if (j, name, s1, s0) in seen:
                    return True
                seen.add((j, name, s0, s1))
    return False


SIG_DUP = "function:differs:choose-region-cloned-from-duplicate-operand-op"


def _only_cause_is_nonpositional_region(pe, data, values, ref):
    """Classification of a function mismatch. Returns the list of selected choose regions that are not of the form
    op(arg0, arg1) *iff* running exactly those regions positionally (what insert_operations would have built) makes the
    PE compute the kernel; else None. So the narrow signature only covers mismatches fully explained by that one defect."""
    trace = []
    try:
        rep = I.eval_pe(pe, data, values, repair_regions=True, trace=trace)
    except I.PEError:
        return None
    nonpos = [dict(choose=t[0], region=t[1]) for t in trace if not t[2]]
    if nonpos and len(rep) == 1 and I.same(rep[0], ref):
        return nonpos
    return None


def _hw_view(abstract):
    """The PE as the hardware flow sees it: a clone after phs-remove-one-option-switches."""
    clone = abstract.clone()
    mod = builtin.ModuleOp([clone])
    PhsRemoveOneOptionSwitchesPass().apply(_ctx(), mod)
    pes = [o for o in mod.ops if isinstance(o, phs.PEOp)]
    assert len(pes) == 1
    return pes[0]


def prop_history(r):
    why = G.check_recipe(r)
    if why:
        raise Outside(why)
    k = r["k"]
    text = G.history_text(r)
    mod = C.parse(text, _ctx())
    mod.verify()  # a builder that produces invalid IR is a harness bug
    generics = [o for o in mod.walk() if isinstance(o, linalg.GenericOp)]
    assert len(generics) == len(r["kernels"])
    X = G.data_matrix(r)
    data = [X[:, i].copy() for i in range(k)]
    refs = []
    abstract = None
    evals = 0
    steps_done = 0
    cut = False
    max_choices = 1
    known_hits = []

    for n, (generic, kern) in enumerate(zip(generics, r["kernels"])):
        # ---- encode (must be concrete and compute the body)
        pe = _encode(generic, f"kernel {n}")
        ref = _body_reference(generic, k, kern["dead"], X)
        refs.append(ref)
        try:
            pe.verify()
        except VerifyException as e:
            raise Violation("encode:pe-verify-fails", dict(kernel=n, error=str(e)))
        if len(pe.data_operands()) != k:
            raise Violation("encode:data-operand-count", dict(kernel=n, got=len(pe.data_operands()), want=k))
        try:
            concrete = pe.is_concrete()
        except Exception as e:
            raise Violation(f"encode:is_concrete-raises:{type(e).__name__}", dict(kernel=n, error=repr(e)))
        if not concrete:
            raise Violation("encode:pe-not-concrete", dict(kernel=n, pe=_pe_text(pe)))
        try:
            got = I.eval_pe(pe, data, [])
        except I.PEError as e:
            raise _classify_pe_error(e, "encode", pe, dict(kernel=n))
        if len(got) != 1 or not I.same(got[0], ref):
            raise Violation("encode:function-differs", dict(kernel=n, pe=_pe_text(pe)))

        # ---- merge, as EncodeLinalgGeneric does
        if abstract is None:
            abstract = pe
        else:
            try:
                append_to_abstract_graph(pe, abstract)
            except NotImplementedError as e:
                raise Reject(f"merge: NotImplementedError {e}")
            except AssertionError as e:
                if "does not match the type of the choose_op" in str(e) or "type mismatch" in str(e):
                    raise Reject("merge: documented type-mismatch assert")
                raise Violation("merge:raises:AssertionError", dict(step=n, error=repr(e)))
            except Exception as e:
                raise Violation(f"merge:raises:{type(e).__name__}", dict(step=n, error=repr(e)))

        if _mux_count(abstract) > MUX_CAP:
            cut = True  # decode's search is exponential in the mux count: stop the history here (counted as a class)
            break
        steps_done = n + 1

        # ---- invariant: structure of the abstract PE
        try:
            abstract.verify()
        except VerifyException as e:
            raise Violation("pe:verify-fails", dict(step=n, error=str(e), pe=_pe_text(abstract)))
        try:
            walk_count = I.count_value_switches(abstract)
            I.switch_plan(abstract)
        except I.PEError as e:
            raise _classify_pe_error(e, "pe", abstract, dict(step=n))
        if len(abstract.data_operands()) != k:
            raise Violation("pe:data-operand-count", dict(step=n, got=len(abstract.data_operands()), want=k))
        try:
            true_sw = abstract.get_true_switches()
        except Exception as e:
            raise Violation(f"count:get_true_switches-raises:{type(e).__name__}", dict(step=n, error=repr(e)))
        try:
            acc = SNAXPHSAccelerator(abstract.clone(), _spec())
            n_fields = sum(1 for f in acc.fields if f.startswith("phs_switch_"))
            acc_op = acc.generate_acc_op()
            n_csr = sum(1 for f in acc_op.fields.data if f.startswith("phs_switch_"))
        except Exception as e:
            raise Violation(f"count:accelerator-raises:{type(e).__name__}", dict(step=n, error=repr(e)))
        if not (true_sw == n_fields == n_csr == len(acc.phs_switch_fields)):
            raise Violation("count:true-switches-vs-accelerator-fields",
                            dict(step=n, true_switches=true_sw, fields=n_fields, csr=n_csr))
        if true_sw != walk_count:
            raise Violation("count:true-switches-vs-pe-structure",
                            dict(step=n, true_switches=true_sw, muxes_plus_multi_chooses=walk_count, pe=_pe_text(abstract)))
        try:
            hw_pe = _hw_view(abstract)
            hw_pe.verify()
            hw_switches = len(hw_pe.get_switches())
        except Exception as e:
            raise Violation(f"hw-view:remove-one-option-raises:{type(e).__name__}", dict(step=n, error=repr(e)))
        if hw_switches != true_sw:
            raise Violation("count:true-switches-vs-hardware-switches", dict(step=n, true_switches=true_sw, hw=hw_switches))
        for op in abstract.body.block.ops:
            if isinstance(op, phs.ChooseOp):
                max_choices = max(max_choices, len(op.regions))

        # ---- invariant: every kernel merged so far decodes and computes its own function
        for m in range(n + 1):
            which = "just-merged" if m == n else "earlier-kernel"
            cand = _encode(generics[m], f"kernel {m} (candidate)")
            try:
                values = decode_abstract_graph(abstract, cand)
            except MappingNotFoundError as e:
                raise Violation(f"decode:mapping-not-found:{which}",
                                dict(step=n, kernel=m, error=str(e)[:300], pe=_pe_text(abstract)))
            except Exception as e:
                raise Violation(f"decode:raises:{type(e).__name__}:{which}",
                                dict(step=n, kernel=m, error=repr(e)[:300], pe=_pe_text(abstract)))
            values = list(values)
            if not all(isinstance(v, int) and not isinstance(v, bool) for v in values):
                raise Violation("decode:non-integer-value", dict(step=n, kernel=m, values=[repr(v) for v in values]))
            if len(values) != true_sw:
                raise Violation("count:values-vs-true-switches", dict(step=n, kernel=m, values=values, true_switches=true_sw))
            # the consumer: SNAXPHSAccelerator.get_switch_values must feed exactly one value per declared phs_switch_* field
            try:
                acc_vals = acc.get_switch_values(generics[m])
                acc_ints = [ops[0].value.value.data for ops, _res in acc_vals]
            except Exception as e:
                raise Violation(f"count:accelerator-get_switch_values-raises:{type(e).__name__}",
                                dict(step=n, kernel=m, error=repr(e)[:300]))
            if acc_ints != values or len(acc_ints) != len(acc.phs_switch_fields):
                raise Violation("count:accelerator-switch-values-vs-fields",
                                dict(step=n, kernel=m, values=values, accelerator_values=acc_ints, fields=acc.phs_switch_fields))
            try:
                got = I.eval_pe(abstract, data, values)
            except I.PEError as e:
                raise _classify_pe_error(e, f"eval:{which}", abstract, dict(step=n, kernel=m, values=values))
            evals += 1
            if len(got) != 1 or not I.same(got[0], refs[m]):
                bad = int((got[0] != refs[m]).argmax()) if len(got) == 1 and got[0].shape == refs[m].shape else -1
                detail = dict(step=n, kernel=m, values=values, pe=_pe_text(abstract),
                              witness=[x.item() for x in X[bad]] if bad >= 0 else None,
                              expected=refs[m][bad].item() if bad >= 0 else None,
                              got=got[0][bad].item() if bad >= 0 else None)
                nonpos = _only_cause_is_nonpositional_region(abstract, data, values, refs[m])
                if nonpos:
                    # narrow, separately reported defect; keep checking the rest of the history
                    detail["non_positional_regions"] = nonpos
                    known_hits.append((SIG_DUP, detail))
                    continue
                raise Violation(f"function:differs:{which}", detail)
            try:
                got_hw = I.eval_pe(hw_pe, data, values, positional_all=True)
            except I.PEError as e:
                raise _classify_pe_error(e, f"hw-view:eval:{which}", hw_pe, dict(step=n, kernel=m, values=values))
            if len(got_hw) != 1 or not I.same(got_hw[0], refs[m]):
                raise Violation(f"hw-view:function-differs:{which}", dict(step=n, kernel=m, values=values, pe=_pe_text(hw_pe)))

    # ---- the real pass on the whole history builds the same PE (only when the history was not cut)
    if not cut:
        pmod = mod.clone()
        try:
            PhsEncodePass().apply(_ctx(), pmod)
            pmod.verify()
        except Exception as e:
            raise Violation(f"pass:phs-encode-raises:{type(e).__name__}", dict(error=repr(e)[:300]))
        pes = [o for o in pmod.ops if isinstance(o, phs.PEOp)]
        if len(pes) != 1:
            raise Violation("pass:phs-encode-builds-no-single-pe", dict(by_pass=[_pe_text(p) for p in pes], step_by_step=_pe_text(abstract)))
        if not pes[0].is_structurally_equivalent(abstract):
            # another merge order / structure is fine as long as every kernel decodes against it and computes its function
            for m in range(steps_done):
                cand = _encode(generics[m], f"kernel {m} (candidate)")
                try:
                    values = list(decode_abstract_graph(pes[0], cand))
                    got = I.eval_pe(pes[0], data, values)
                except Exception as e:
                    raise Violation(f"pass:pe-built-by-pass:decode-or-eval-fails:{type(e).__name__}",
                                    dict(kernel=m, error=repr(e)[:300], by_pass=_pe_text(pes[0]), step_by_step=_pe_text(abstract)))
                evals += 1
                if len(got) != 1 or not I.same(got[0], refs[m]):
                    raise Violation("pass:pe-built-by-pass:function-differs",
                                    dict(kernel=m, values=values, by_pass=_pe_text(pes[0]), step_by_step=_pe_text(abstract)))

    kernels = r["kernels"][:steps_done]
    muxes = _mux_count(abstract) if not cut else MUX_CAP + 1
    cls = [f"len:{len(r['kernels'])}", f"k:{k}", f"ty:{r['ty']}",
           "muxes:" + ("0" if muxes == 0 else "1-2" if muxes <= 2 else "3-5" if muxes <= 5 else "6-cap" if muxes <= MUX_CAP else "over-cap(cut)"),
           f"max-choices:{min(max_choices, 4)}{'+' if max_choices >= 4 else ''}"]
    if _swap_present(kernels):
        cls.append("noncomm-swap")
    if any(kern["ret"] != k + len(kern["ops"]) - 1 for kern in kernels):
        cls.append("yield-not-last")
    if any(kern["ret"] < k for kern in kernels):
        cls.append("yield-data-input")
    if any(sum(kern["dead"][:k]) for kern in kernels):
        cls.append("erased-input-arg")
    if any(not kern["dead"][k] for kern in kernels):
        cls.append("outs-arg-used")
    if len({len(kern["ops"]) for kern in kernels}) > 1:
        cls.append("different-depths")
    if cut:
        cls.append("cut-at-mux-cap")
    nontrivial = steps_done >= 2 and (muxes >= 1)
    if known_hits:
        cls.append("hit:duplicate-operand-region")
    return Info(nontrivial=bool(nontrivial), classes=tuple(cls), evals=max(1, evals),
                sample=text if len(text) < 6000 else text[:6000], known=known_hits[:1])


SUBS = [
    Sub("history", lambda tier: G.history(tier), prop_history,
        budget=dict(quick=3000, thorough=40000), floor=dict(quick=500, thorough=7500),
        nontrivial_rule=">= 2 kernels were merged and checked and the PE holds at least one mux (different routing met)"),
    Sub("history_exhaustive", None, prop_history, budget=dict(quick=0, thorough=0),
        exhaustive=G.exhaustive_histories, exhaustive_only=True, floor=dict(quick=12, thorough=1100),
        nontrivial_rule="as history; every history of length <= 2 (quick) / <= 4 (thorough) over the 8-kernel alphabet"),
]
