"""C08 Generated configuration values line up with field names."""
from __future__ import annotations

import math

from hypothesis import strategies as st

from vlib.accfg_common import execute
from vlib.ctx import fresh_ctx, parse, run_pass, shared_ctx, to_text
from vlib.interp import InterpError, unsigned
from vlib.machines import CSRMachine
from vlib.runner import Info, Outside, Reject, Sub, Violation

ID = "C08"
RULE = (
    "Recipes: an accelerator instance (snax_alu with generated streamer configurations: 1..4 streamers, 1..6 temporal dims with n/i/r flags, "
    "1..2 spatial dims, option subsets (also patterns with more temporal dims than the streamer has, whose canonical form fits); snax_gemmx default and from_config geometries m,n,k with >= 3 temporal dims; snax_xdma with extension/mask "
    "subsets; snax_hwpe_mult) plus a snax_stream.streaming_region (hwpe: linalg.generic) whose stride patterns carry pairwise distinct marker values "
    "(prime bounds, strides that are distinct multiples of 8) with lengths 0..dimensionality, zero-pointer operands, and kernel bodies "
    "(alu add/mul; gemmx mac / qmac with zero points / mac+rescale / rescale only, i8 and i32 outputs with generated rescale parameters; xdma with each extension's kernel or none). "
    "The real pass convert-linalg-to-accfg runs with a context in which the generated instance is registered; the emitted accfg.setup is verified "
    "(one value per field), its param_names must equal the declared field tuple, and after executing the constant-producing ops each value(name) must equal "
    "a reference derived from the field NAME: <s>_ptr_low/high, <s>_sstride_i, <s>_bound_i (padded with 1, reuse collapse), <s>_tstride_i (padded with 0), "
    "option fields per the documented rules, xDMA masks, kernel loop counts (alu loop bound = temporal steps; gemmx K*N*M = steps of the A stream, N*M = steps of the output stream, "
    "temporal_loop_bound), packed registers unpacked by byte (subtractions, csr0, csr1, shift_i, mult_i). "
    "Non-trivial: non-default configuration, or a pattern shorter than the hardware dimensionality, or a reuse/broadcast/zero-pointer rule fired; distinct by recipe hash."
)
ASSUMPTIONS = [
    "xDSL 0.70 compatibility shim (vlib/compat.py)",
    "register meanings are taken from the field names and the comments/docstrings in snaxc/accelerators/*.py (csr0 = min|max|zp_out|zp_in, subtractions = zp_b|zp_a, "
    "shift_i packs four 8-bit shifts, channel mask all-ones / 0 for a zero operand, broadcast 1 iff a spatial stride is 0); there is no RTL model offline",
    "csr1 (double_round) is compared as a boolean: xDSL 0.70 stores the i1 attribute true as -1 where the pinned xDSL stores 1",
    "gemmx stride patterns are generated in the shape the real pipeline (set_stride_patterns) produces: 5 patterns A,B,D8,C,D32, output-stationary (zero output stride only in the innermost temporal dim)",
]

PRIMES = [2, 3, 5, 7, 11, 13, 17, 19, 23, 29, 31, 37, 41, 43]

# --------------------------------------------------------------------------------------------- accelerator instances


def _streamer(spec):
    from snaxc.accelerators.streamers.extensions import STREAMER_OPT_MAP
    from snaxc.accelerators.streamers.streamers import Streamer, StreamerType

    ty, temporal, spatial, opts = spec
    return Streamer(StreamerType.Reader if ty == "r" else StreamerType.Writer, list(temporal), list(spatial),
                    [STREAMER_OPT_MAP[o]() for o in opts])


def make_acc(r):
    from snaxc.accelerators.streamers.streamers import StreamerConfiguration, StreamerSystemType

    k = r["acc"]
    if k == "alu":
        from snaxc.accelerators.snax_alu import SNAXAluAccelerator

        return SNAXAluAccelerator() if r["config"] == "default" else SNAXAluAccelerator(
            StreamerConfiguration([_streamer(s) for s in r["config"]["streamers"]]))
    if k == "gemmx":
        from snaxc.accelerators.snax_gemmx import SNAXGEMMXAccelerator
        from snaxc.tools.configs import GemmxConfig, StreamerConfig

        if r["config"] == "default":
            return SNAXGEMMXAccelerator()
        c = r["config"]
        return SNAXGEMMXAccelerator.from_config(GemmxConfig(m=c["m"], n=c["n"], k=c["k"],
                                                            streamers=[StreamerConfig(t, list(s)) for t, s in c["streamers"]]))
    if k == "xdma":
        from snaxc.accelerators.snax_xdma import SNAXXDMAAccelerator

        return SNAXXDMAAccelerator() if r["config"] == "default" else SNAXXDMAAccelerator(
            StreamerConfiguration([_streamer(s) for s in r["config"]["streamers"]], StreamerSystemType.DmaExt))
    if k == "hwpe":
        from snaxc.accelerators.snax_hwpe_mult import SNAXHWPEMultAccelerator

        return SNAXHWPEMultAccelerator()
    raise AssertionError(k)


# --------------------------------------------------------------------------------------------- module text

def _pat(p):
    return f"#snax_stream.stride_pattern<ub = {p['ub']}, ts = {p['ts']}, ss = {p['ss']}>"


def _rescale_attrs(rs):
    sh = ", ".join(str(x) for x in rs["shift"])
    mu = ", ".join(str(x) for x in rs["mult"])
    return (f'{{double_round = {"true" if rs["double_round"] else "false"}, input_zp = {rs["zp_in"]} : i32, max_int = {rs["max_int"]} : i32, '
            f'min_int = {rs["min_int"]} : i32, multiplier = array<i32: {mu}>, output_zp = {rs["zp_out"]} : i32, shift = array<i32: {sh}>}}')


def gemmx_body(kern, rs):
    """Region body text for the gemmx kernel variants, as the real pipeline leaves it (5 block args: A, B, D8/.., C, D32 streams)."""
    L = []
    if kern in ("mac", "mac_rescale"):
        L.append('    %g0 = "dart.generic"(%s0, %s1) <{library_call = "snax_gemmx"}> ({')
        L.append("    ^bb1(%a: i8, %b: i8, %o: i32):")
        L.append("      %k = kernel.mac %a, %b : i8, i8 -> i32")
        L.append("      dart.yield %k : i32")
        L.append("    }) : (!dart.stream<i8>, !dart.stream<i8>) -> !dart.stream<i32>")
    elif kern in ("qmac", "qmac_rescale"):
        L.append('    %g0 = "dart.generic"(%s0, %s1, %zpa, %zpb) <{library_call = "snax_gemmx"}> ({')
        L.append("    ^bb1(%a: i8, %b: i8, %za: i32, %zb: i32, %o: i32):")
        L.append("      %k = kernel.qmac %a, %b zp_lhs : %za zp_rhs : %zb : i8, i8, i32, i32 -> i32")
        L.append("      dart.yield %k : i32")
        L.append("    }) : (!dart.stream<i8>, !dart.stream<i8>, i32, i32) -> !dart.stream<i32>")
    elif kern == "rescale_only":
        L.append('    %g0 = "dart.generic"(%s3) <{library_call = "snax_gemmx"}> ({')
        L.append("    ^bb1(%a: i32, %o: i8):")
        L.append(f"      %k = kernel.rescale %a {_rescale_attrs(rs)} : (i32) -> i8")
        L.append("      dart.yield %k : i8")
        L.append("    }) : (!dart.stream<i32>) -> !dart.stream<i8>")
        L.append("    dart.yield %g0 : !dart.stream<i8>")
        return L
    if kern.endswith("_rescale"):
        L.append('    %g1 = "dart.generic"(%g0) <{library_call = "snax_gemmx"}> ({')
        L.append("    ^bb2(%a2: i32, %o2: i8):")
        L.append(f"      %k2 = kernel.rescale %a2 {_rescale_attrs(rs)} : (i32) -> i8")
        L.append("      dart.yield %k2 : i8")
        L.append("    }) : (!dart.stream<i32>) -> !dart.stream<i8>")
        L.append("    dart.yield %g1 : !dart.stream<i8>")
    elif kern == "mac_i8_plain":
        pass
    else:
        L.append("    dart.yield %g0 : !dart.stream<i32>")
    return L


XDMA_KERNELS = {
    # name -> (body lines producing %k from %a [, %b], in type, out type, n inputs)
    "none": None,
    "add": ("      %k = kernel.add %a, %b : i8, i8 -> i8", ("i8", "i8"), "i8"),
    "rescale_down": None,  # filled by recipe (needs attrs)
    "rescale_up": None,
}


def build_module(r, acc):
    accop = to_text(acc.generate_acc_op())
    k = r["acc"]
    n_ops = len(r["patterns"]) if k != "hwpe" else 3
    args = [f"%p{i}: index" for i in range(n_ops)] + ["%zpa: i32", "%zpb: i32"]
    L = ["builtin.module {", "  " + accop]
    if k == "hwpe":
        L.append("  func.func @main(%A: memref<?xi32>, %B: memref<?xi32>, %D: memref<?xi32>) {")
        L.append('    linalg.generic {indexing_maps = [], iterator_types = ["parallel"], library_call = "snax_hwpe_mult"} '
                 "ins(%A, %B : memref<?xi32>, memref<?xi32>) outs(%D : memref<?xi32>) {")
        L.append("    ^bb0(%a: i32, %b: i32, %d: i32):")
        L.append("      %r0 = arith.muli %a, %b : i32")
        L.append("      linalg.yield %r0 : i32")
        L.append("    }")
        L.append("    func.return")
        L.append("  }")
        L.append("}")
        return "\n".join(L)
    L.append(f"  func.func @main({', '.join(args)}) {{")
    L.append("    %zero = arith.constant 0 : index")
    operands = [("%zero" if i in r.get("zero", []) else f"%p{i}") for i in range(n_ops)]
    n_out = r.get("n_out", 1)
    n_in = n_ops - n_out
    pats = ", ".join(_pat(p) for p in r["patterns"])
    name = acc.name
    stream_tys = r["stream_types"]
    L.append(f'    "snax_stream.streaming_region"({", ".join(operands)}) <{{stride_patterns = [{pats}], accelerator = "{name}", '
             f'operandSegmentSizes = array<i32: {n_in}, {n_out}>}}> ({{')
    L.append("    ^bb0(" + ", ".join(f"%s{i}: !dart.stream<{t}>" for i, t in enumerate(stream_tys)) + "):")
    if k == "gemmx":
        L.extend(gemmx_body(r["kernel"], r.get("rescale")))
    elif k == "xdma" and r["kernel"] != "none":
        kn = r["kernel"]
        if kn == "mul_unsupported":
            # a kernel no extension supports: every extension register must be programmed with 0
            L.append('    %g0 = "dart.generic"(%s0, %s0) <{library_call = "snax_xdma"}> ({')
            L.append("    ^bb1(%a: i8, %b: i8, %o: i8):")
            L.append("      %k = kernel.mul %a, %b : i8, i8 -> i8")
            L.append("      dart.yield %k : i8")
            L.append("    }) : (!dart.stream<i8>, !dart.stream<i8>) -> !dart.stream<i8>")
        elif kn in ("add", "add_i8"):
            # AddExtension declares kernel.add on i32; the same kernel on i8 is supported by no extension
            t = "i32" if kn == "add" else "i8"
            L.append('    %g0 = "dart.generic"(%s0, %s0) <{library_call = "snax_xdma"}> ({')
            L.append(f"    ^bb1(%a: {t}, %b: {t}, %o: {t}):")
            L.append(f"      %k = kernel.add %a, %b : {t}, {t} -> {t}")
            L.append(f"      dart.yield %k : {t}")
            L.append(f"    }}) : (!dart.stream<{t}>, !dart.stream<{t}>) -> !dart.stream<{t}>")
        elif kn == "rescale_down":
            L.append('    %g0 = "dart.generic"(%s0) <{library_call = "snax_xdma"}> ({')
            L.append("    ^bb1(%a: i32, %o: i8):")
            L.append(f"      %k = kernel.rescale %a {_rescale_attrs(r['rescale'])} : (i32) -> i8")
            L.append("      dart.yield %k : i8")
            L.append("    }) : (!dart.stream<i32>) -> !dart.stream<i8>")
        elif kn == "rescale_up":
            L.append('    %g0 = "dart.generic"(%s0) <{library_call = "snax_xdma"}> ({')
            L.append("    ^bb1(%a: i8, %o: i32):")
            L.append(f"      %k = kernel.rescale %a {_rescale_attrs(r['rescale'])} : (i8) -> i32")
            L.append("      dart.yield %k : i32")
            L.append("    }) : (!dart.stream<i8>) -> !dart.stream<i32>")
        L.append(f"    dart.yield %g0 : !dart.stream<{stream_tys[-1]}>")
    L.append("    }) : (" + ", ".join(["index"] * n_ops) + ") -> ()")
    L.append("    func.return")
    L.append("  }")
    L.append("}")
    return "\n".join(L)


# --------------------------------------------------------------------------------------------- reference

PTR = [0x11000 * (i + 1) for i in range(8)]
ZPA, ZPB = -3, 100


def _u(v):
    return unsigned(v, 32)


def expected_streamer_fields(acc, r):
    """name -> expected value (u32) for the generic streamer fields, derived from the field names."""
    from snaxc.accelerators.streamers.extensions import TransposeExtension
    from snaxc.accelerators.streamers.streamers import (HasAddressRemap, HasBroadcast, HasByteMask, HasChannelMask, StreamerFlag,
                                                        StreamerSystemType)

    exp = {}
    cfg = acc.streamer_config.data
    xdma = cfg.system_type() == StreamerSystemType.DmaExt
    for i, (name, s) in enumerate(zip(acc.streamer_names, cfg.streamers)):
        p = r["patterns"][i]
        zero = i in r.get("zero", [])
        exp[f"{name}_ptr_low"] = _u(acc.zero_address if zero else PTR[i])
        exp[f"{name}_ptr_high"] = 0
        for d in range(s.spatial_dim):
            exp[f"{name}_sstride_{d}"] = _u(p["ss"][d])
        for d, flag in enumerate(s.temporal_dims):
            b = p["ub"][d] if d < len(p["ub"]) else 1
            t = p["ts"][d] if d < len(p["ts"]) else 0
            if flag == StreamerFlag.Reuse and b > 1 and t == 0:
                b = 1
            exp[f"{name}_bound_{d}"] = _u(b)
            exp[f"{name}_tstride_{d}"] = _u(t)
        has = lambda cls: any(isinstance(o, cls) for o in s.opts)  # noqa: E731
        if not xdma:
            if has(HasAddressRemap):
                exp[f"{name}_address_remap"] = 0
            if has(HasChannelMask):
                exp[f"{name}_channel_mask"] = 0 if zero else 0xFFFFFFFF
            if has(TransposeExtension):
                exp[f"{name}_transpose"] = 0
            if has(HasBroadcast):
                exp[f"{name}_broadcast"] = 1 if any(x == 0 for x in p["ss"][: s.spatial_dim]) else 0
        else:
            if has(HasChannelMask):
                exp[f"{name}_enabled_chan"] = 0 if zero else 0xFFFFFFFF
            if has(HasByteMask):
                exp[f"{name}_enabled_byte"] = 0 if zero else 0xFFFFFFFF
    return exp


def steps(p, streamer):
    """Number of temporal steps the streamer performs for pattern p (after padding and reuse collapse)."""
    from snaxc.accelerators.streamers.streamers import StreamerFlag

    n = 1
    for d, flag in enumerate(streamer.temporal_dims):
        b = p["ub"][d] if d < len(p["ub"]) else 1
        t = p["ts"][d] if d < len(p["ts"]) else 0
        if flag == StreamerFlag.Reuse and b > 1 and t == 0:
            b = 1
        n *= b
    return n


def prop(r):
    try:
        acc = make_acc(r)
    except Exception as e:
        raise Violation(f"constructor-raises:{type(e).__name__}", dict(error=str(e)[:200]))
    text = build_module(r, acc)
    ctx = shared_ctx().clone()
    ctx._registered_accelerators = dict(ctx._registered_accelerators)
    ctx._registered_accelerators[acc.name] = lambda: acc
    cfg0 = acc.streamer_config.data if hasattr(acc, "streamer_config") else None
    overlong = [i for i, (p, s_) in enumerate(zip(r.get("patterns", []), cfg0.streamers)) if len(p["ub"]) > s_.temporal_dim] if cfg0 else []
    try:
        mod = parse(text, ctx)
        mod.verify()
    except Exception as e:
        from vlib.runner import HarnessError

        if overlong and "exceeds streamer dimensionality" in str(e):
            raise Reject("verifier refuses a pattern with more temporal dimensions than the streamer has")
        raise HarnessError(f"builder produced invalid IR: {e}\n{text}")
    from snaxc.transforms.convert_linalg_to_accfg import ConvertLinalgToAccPass

    kind = r["acc"] + ":" + r.get("kernel", "-")
    try:
        ConvertLinalgToAccPass().apply(ctx, mod)
    except NotImplementedError as e:
        raise Reject(f"NotImplementedError {str(e)[:40]}")
    except Exception as e:
        import traceback

        tb = traceback.extract_tb(e.__traceback__)
        where = tb[-1].name if tb else "?"
        raise Violation(f"{kind}:convert-raises:{type(e).__name__}:in:{where}" + _short_hint(r, acc),
                        dict(error=str(e)[:300], module=text))
    setups = [o for o in mod.walk() if o.name == "accfg.setup" and len(o.values)]
    if len(setups) != 1:
        raise Violation(f"{kind}:expected-one-setup", dict(n=len(setups), after=to_text(mod)[:3000]))
    setup = setups[0]
    names = [p.data for p in setup.param_names]
    declared = list(acc.fields)
    if len(setup.values) != len(names):
        hint = _short_hint(r, acc)
        if r["acc"] == "xdma":
            from snaxc.accelerators.streamers.streamers import HasChannelMask

            n_missing = sum(1 for s in acc.streamer_config.data.streamers if not any(isinstance(o, HasChannelMask) for o in s.opts))
            if n_missing and len(names) - len(setup.values) == n_missing:
                hint += ":enabled_chan-declared-without-channel-mask-option"
        raise Violation(f"{kind.split(':')[0]}:number-of-values-differs-from-number-of-fields" + hint,
                        dict(values=len(setup.values), fields=len(names), module=text))
    if names != declared:
        raise Violation(f"{kind}:param-names-differ-from-declared-fields", dict(names=names[:60], declared=declared[:60]))
    try:
        mod.verify()
    except Exception as e:
        raise Violation(f"{kind}:result-does-not-verify", dict(error=str(e)[:300]))
    # evaluate
    m = CSRMachine(record_setups=True)
    if r["acc"] == "hwpe":
        return _check_hwpe(r, acc, mod, m)
    n_ops = len(r["patterns"])
    try:
        execute(mod, PTR[:n_ops] + [ZPA, ZPB], machine=m)
    except InterpError as e:
        from vlib.runner import HarnessError

        raise HarnessError(f"cannot evaluate setup values: {e}")
    ev = [e for e in m.trace if e[0] == "setup" and e[2]]
    vals = {n: (_u(v) if isinstance(v, int) else v) for n, v in ev[0][2]}
    # a pattern with more temporal dimensions than the streamer that the verifier accepted: every dimension that has no register must
    # be a single iteration, otherwise part of the address stream is lost
    for i in overlong:
        p_, s_ = r["patterns"][i], cfg0.streamers[i]
        lost = [(d, p_["ub"][d], p_["ts"][d]) for d in range(s_.temporal_dim, len(p_["ub"])) if p_["ub"][d] != 1]
        if lost:
            raise Violation(f"{kind}:pattern-longer-than-streamer:dimensions-without-register-dropped",
                            dict(streamer=i, pattern=p_, streamer_dims=s_.temporal_dim, dropped=lost, module=text))
    exp = expected_streamer_fields(acc, r)
    mism = []
    for n, want in exp.items():
        if n not in vals:
            mism.append((n, "missing", want))
        elif vals[n] != want:
            mism.append((n, vals[n], want))
    if mism:
        f = mism[0][0]
        cls = f.split("_", 1)[1].rstrip("0123456789").rstrip("_")
        raise Violation(f"{kind}:streamer-field-value-differs:{cls}", dict(mismatches=mism[:6], module=text))
    # kernel registers
    cfg = acc.streamer_config.data
    if r["acc"] == "alu":
        # compute iterations = raw product of the temporal bounds (a reused dimension is fetched once but still iterated)
        want = 1
        for b in r["patterns"][0]["ub"]:
            want *= b
        if vals["loop_bound_alu"] != _u(want):
            raise Violation("alu:loop_bound_alu-differs-from-temporal-steps" + _short_hint(r, acc),
                            dict(got=vals["loop_bound_alu"], steps_of_stream_a=want, pattern=r["patterns"][0], module=text))
    if r["acc"] == "gemmx":
        _check_gemmx(r, acc, vals, text)
    if r["acc"] == "xdma":
        _check_xdma(r, acc, vals, text)
    nontrivial = (r["config"] != "default" or bool(r.get("zero")) or any(
        len(p["ub"]) < s.temporal_dim for p, s in zip(r["patterns"], cfg.streamers)) or any(
        0 in p["ss"] for p in r["patterns"]))
    cls = [kind, "config:" + ("default" if r["config"] == "default" else "generated")]
    if r.get("zero"):
        cls.append("zero_pointer_operand")
    if any(len(p["ub"]) < s.temporal_dim for p, s in zip(r["patterns"], cfg.streamers)):
        cls.append("pattern_shorter_than_hw")
    return Info(nontrivial=bool(nontrivial), classes=tuple(cls))


def _short_hint(r, acc):
    """narrow, input-independent suffixes for signatures of anticipated gaps"""
    cfg = getattr(acc, "streamer_config", None)
    if cfg is None:
        return ""
    hints = []
    for p, s in zip(r.get("patterns", []), cfg.data.streamers):
        if len(p["ss"]) < s.spatial_dim:
            hints.append("spatial-strides-shorter-than-streamer")
            break
    if r["acc"] == "alu" and r.get("patterns") and len(r["patterns"][0]["ub"]) == 0:
        hints.append("first-pattern-has-no-temporal-dim")
    if r["acc"] == "alu" and r.get("patterns") and len(r["patterns"][0]["ub"]) > 1:
        hints.append("first-pattern-has-several-temporal-dims")
    if r["acc"] == "gemmx" and r.get("kernel") == "rescale_only":
        hints.append("rescale-only")
    return (":" + "+".join(hints)) if hints else ""


def _check_hwpe(r, acc, mod, m):
    from vlib.machine_memref import MemrefCSRMachine

    m = MemrefCSRMachine()
    descs = [m.descriptor(base=0x2000 * (i + 1), sizes=[r["vector_length"]], strides=[1], offset=r["offsets"][i], elsize=4) for i in range(3)]
    execute(mod, descs, machine=m)
    ev = [e for e in m.trace if e[0] == "setup" and e[2]]
    vals = {n: _u(v) for n, v in ev[0][2]}
    want = {"A": _u(descs[0].base + 4 * r["offsets"][0]), "B": _u(descs[1].base + 4 * r["offsets"][1]),
            "O": _u(descs[2].base + 4 * r["offsets"][2]), "vector_length": _u(r["vector_length"]), "nr_iters": 1, "mode": 1}
    mism = [(n, vals.get(n), w) for n, w in want.items() if vals.get(n) != w]
    if mism:
        names = sorted(x[0] for x in mism)
        if names == ["nr_iters", "vector_length"] and vals["vector_length"] == 1 and vals["nr_iters"] == _u(r["vector_length"]):
            raise Violation("hwpe:vector_length-and-nr_iters-values-swapped", dict(mismatches=mism))
        raise Violation("hwpe:field-value-differs", dict(mismatches=mism))
    return Info(nontrivial=any(r["offsets"]), classes=("hwpe:-",))


def _bytes(v):
    return [(v >> s) & 0xFF for s in (0, 8, 16, 24)]


def _check_gemmx(r, acc, vals, text):
    kern = r["kernel"]
    cfg = acc.streamer_config.data
    pats = r["patterns"]
    K, N, M = vals["K"], vals["N"], vals["M"]
    a_steps = steps(pats[0], cfg.streamers[0])
    i8 = kern.endswith("_rescale") or kern == "rescale_only"
    out_idx = 2 if i8 else 4
    if kern != "rescale_only":
        out_steps = steps(pats[out_idx], cfg.streamers[out_idx])
        if K * N * M != a_steps:
            raise Violation("gemmx:K*N*M-differs-from-steps-of-stream-A", dict(K=K, N=N, M=M, a_steps=a_steps, pattern=pats[0], module=text))
        if N * M != out_steps:
            raise Violation("gemmx:N*M-differs-from-steps-of-output-stream", dict(N=N, M=M, out_steps=out_steps, pattern=pats[out_idx], module=text))
    else:
        c_steps = steps(pats[3], cfg.streamers[3])
        if K * N * M != c_steps:
            raise Violation("gemmx:rescale-only:K*N*M-differs-from-steps-of-input-stream", dict(K=K, N=N, M=M, steps=c_steps, module=text))
    # temporal loop bound of the SIMD unit = number of output tiles when SIMD is used, else 0
    want_tlb = (N * M if kern != "rescale_only" else K * N * M) if i8 else 0
    if vals["temporal_loop_bound"] != _u(want_tlb):
        raise Violation("gemmx:temporal_loop_bound-differs", dict(got=vals["temporal_loop_bound"], want=want_tlb, module=text))
    if vals["bypassSIMD"] != (0 if i8 else 1):
        raise Violation("gemmx:bypassSIMD-differs", dict(got=vals["bypassSIMD"], i8_output=i8))
    # subtractions: zp_b (i8) | zp_a (i8)
    if kern.startswith("qmac"):
        want = (ZPA & 0xFF) | ((ZPB & 0xFF) << 8)
    else:
        want = 0
    if vals["subtractions"] != want:
        raise Violation("gemmx:subtractions-differs", dict(got=vals["subtractions"], want=want))
    if i8:
        rs = r["rescale"]
        got = _bytes(vals["csr0"])
        want0 = [rs["zp_in"] & 0xFF, rs["zp_out"] & 0xFF, rs["max_int"] & 0xFF, rs["min_int"] & 0xFF]
        if got != want0:
            raise Violation("gemmx:csr0-bytes-differ", dict(got=got, want=want0))
        # csr1 = double_round: compared as a boolean (xDSL 0.70 represents the i1 attribute 'true' as -1, the pinned xDSL as 1)
        if bool(vals["csr1"] & 0xFF) != bool(rs["double_round"]):
            raise Violation("gemmx:csr1-differs", dict(got=vals["csr1"]))
        n = acc.n
        sh = list(rs["shift"]) * n if len(rs["shift"]) == 1 else list(rs["shift"])
        mu = list(rs["mult"]) * n if len(rs["mult"]) == 1 else list(rs["mult"])
        for i in range(math.ceil(n / 4)):
            got = _bytes(vals[f"shift_{i}"])
            want_s = [(sh[4 * i + j] & 0xFF) if 4 * i + j < min(n, len(sh)) else 0 for j in range(4)]
            if got != want_s:
                raise Violation("gemmx:shift-bytes-differ" + _short_hint(r, acc), dict(i=i, got=got, want=want_s))
        for i in range(n):
            if i < len(mu) and vals[f"mult_{i}"] != _u(mu[i]):
                raise Violation("gemmx:mult-differs" + _short_hint(r, acc), dict(i=i, got=vals[f"mult_{i}"], want=mu[i]))
    else:
        if vals["csr0"] != 0 or vals["csr1"] != 0:
            raise Violation("gemmx:csr0/csr1-not-zero-for-bypassed-simd", dict(csr0=vals["csr0"], csr1=vals["csr1"]))


def _check_xdma(r, acc, vals, text):
    """Extension registers: bit j of <streamer>_bypass selects the j-th *extension* of the streamer (plain options do not count) and is
    set exactly for the extension that provides the region's kernel; that extension's registers hold the kernel parameters (add: the
    number of inputs 2; rescale: input zero point, multiplier, output zero point, shift), every other extension register is 0."""
    from snaxc.accelerators.streamers.extensions import StreamerExtension

    cfg = acc.streamer_config.data
    rs = r.get("rescale") or {}
    for name, s in zip(acc.streamer_names, cfg.streamers):
        exts = [o for o in s.opts if isinstance(o, StreamerExtension)]
        want_bypass = 0
        for j, e in enumerate(exts):
            matches = e.supported_kernel is not None and _ext_matches(e, r["kernel"])
            if matches:
                want_bypass += 2 ** j
                want = [2] if r["kernel"] == "add" else [rs["zp_in"], rs["mult"][0], rs["zp_out"], rs["shift"][0]]
                got = [vals.get(f"{name}_{e.name}_{i}") for i in range(e.csr_length)]
                if got != [_u(v) for v in want]:
                    raise Violation("xdma:extension-registers-differ-from-kernel-parameters",
                                    dict(streamer=name, extension=e.name, got=got, want=want, module=text))
            else:
                for i in range(e.csr_length):
                    if vals.get(f"{name}_{e.name}_{i}") != 0:
                        raise Violation("xdma:unused-extension-register-not-zero", dict(field=f"{name}_{e.name}_{i}", got=vals.get(f"{name}_{e.name}_{i}")))
        if f"{name}_bypass" in vals and vals[f"{name}_bypass"] != want_bypass:
            raise Violation("xdma:bypass-mask-differs-from-extension-positions",
                            dict(streamer=name, got=vals[f"{name}_bypass"], want=want_bypass, options=[o.name for o in s.opts], module=text))


def _ext_matches(ext, kernel):
    n = type(ext).__name__
    return {"add": n == "AddExtension", "rescale_down": n == "RescaleDownExtension", "rescale_up": n == "RescaleUpExtension"}.get(kernel, False)


# --------------------------------------------------------------------------------------------- strategies

@st.composite
def _markers(draw):
    ps = draw(st.permutations(PRIMES))
    return list(ps)


@st.composite
def _pattern(draw, streamer_spec, primes, stride_base, full=None, allow_zero_ss=True):
    ty, temporal, spatial, opts = streamer_spec
    nt = len(temporal)
    ln = nt if full else draw(st.integers(0, nt))
    ub, ts = [], []
    for d in range(ln):
        b = primes.pop() if primes else 2
        flag = temporal[d]
        if flag == "i":
            t = 0
        elif flag == "r" and draw(st.booleans()):
            t = 0
        else:
            stride_base[0] += 8
            t = stride_base[0]
        if draw(st.integers(0, 9)) == 0:
            b = 1
        ub.append(b)
        ts.append(t)
    if ln == nt and nt >= 1 and draw(st.integers(0, 11)) == 0:
        # more temporal dimensions than the streamer has, but unit dimensions in front: the canonical form would fit
        k = draw(st.integers(1, 2))
        ub = [1] * k + ub
        ts = [0] * k + ts
    ss = []
    for d in range(len(spatial)):
        if allow_zero_ss and draw(st.integers(0, 5)) == 0:
            ss.append(0)
        else:
            stride_base[0] += 8
            ss.append(stride_base[0])
    return dict(ub=ub, ts=ts, ss=ss)


@st.composite
def _rescale(draw, n):
    # per-tensor (one value) or per-channel (n values), decided separately for the shifts and the multipliers
    cnt_s = n if draw(st.booleans()) else 1
    cnt_m = n if draw(st.booleans()) else 1
    return dict(zp_in=draw(st.integers(-128, 127)), zp_out=draw(st.integers(-128, 127)), max_int=draw(st.integers(0, 127)),
                min_int=draw(st.integers(-128, 0)), double_round=draw(st.booleans()),
                shift=[draw(st.integers(0, 63)) for _ in range(cnt_s)], mult=[draw(st.integers(1, 2 ** 30)) for _ in range(cnt_m)])


def _opts_reg():
    from snaxc.accelerators.streamers.extensions import TransposeExtension
    from snaxc.accelerators.streamers.streamers import HasAddressRemap, HasBroadcast, HasChannelMask

    return [HasAddressRemap().name, HasChannelMask().name, HasBroadcast().name, TransposeExtension().name]


def _default_specs(acc):
    out = []
    for s in acc.streamer_config.data.streamers:
        out.append(["r" if s.type.value == "r" else "w", [str(f.value) for f in s.temporal_dims], list(s.spatial_dims), [o.name for o in s.opts]])
    return out


@st.composite
def recipe(draw, tier):
    kind = draw(st.sampled_from(["alu", "alu", "gemmx", "gemmx", "gemmx", "xdma", "hwpe"]))
    primes = draw(_markers())
    sb = [draw(st.integers(0, 5)) * 8]
    if kind == "hwpe":
        return dict(acc="hwpe", config="default", vector_length=draw(st.integers(1, 300)), offsets=[draw(st.sampled_from([0, 0, 3, 16])) for _ in range(3)])
    if kind == "alu":
        if draw(st.integers(0, 3)) == 0:
            r = dict(acc="alu", config="default")
            specs = _default_specs(make_acc(r))
        else:
            ns = draw(st.integers(1, 4))
            opts = _opts_reg()
            specs = []
            for i in range(ns):
                nt = draw(st.integers(1, 6))
                specs.append(["w" if i == ns - 1 else "r", [draw(st.sampled_from(["n", "n", "n", "i", "r"])) for _ in range(nt)],
                              [draw(st.sampled_from([2, 4, 8])) for _ in range(draw(st.integers(1, 2)))],
                              [o for o in opts if draw(st.integers(0, 2)) == 0]])
            r = dict(acc="alu", config=dict(streamers=specs))
        r["patterns"] = [draw(_pattern(s, primes, sb)) for s in specs]
        r["zero"] = [i for i in range(len(specs) - 1) if draw(st.integers(0, 5)) == 0]
        r["kernel"] = draw(st.sampled_from(["add", "mul"]))
        r["stream_types"] = ["i64"] * len(specs)
        r["n_out"] = 1
        return r
    if kind == "xdma":
        if draw(st.booleans()):
            r = dict(acc="xdma", config="default")
            specs = _default_specs(make_acc(r))
        else:
            from snaxc.accelerators.streamers.extensions import STREAMER_OPT_MAP
            from snaxc.accelerators.streamers.streamers import HasChannelMask

            names = [n for n in STREAMER_OPT_MAP if n not in ("a", "b")]
            specs = []
            for i in range(2):
                nt = draw(st.integers(1, 6))
                # any subset of the options / extensions in any order; the channel mask is favoured because without it the
                # known finding "enabled_chan declared without the option" ends the case early
                chosen = [o for o in names if draw(st.booleans()) or (o == HasChannelMask().name and draw(st.booleans()))]
                specs.append(["r" if i == 0 else "w", ["n"] * nt, [8], list(draw(st.permutations(chosen)))])
            r = dict(acc="xdma", config=dict(streamers=specs))
        r["patterns"] = [draw(_pattern(s, primes, sb, allow_zero_ss=False)) for s in specs]
        r["zero"] = []
        # every xDMA streaming region the real flow builds holds a dart.generic with a kernel op (get_template asserts it)
        r["kernel"] = draw(st.sampled_from(["mul_unsupported", "add", "add", "add_i8", "rescale_down", "rescale_up"]))
        r["rescale"] = draw(_rescale(1))
        r["stream_types"] = {"mul_unsupported": ["i8", "i8"], "add": ["i32", "i32"], "add_i8": ["i8", "i8"], "rescale_down": ["i32", "i8"],
                             "rescale_up": ["i8", "i32"]}[r["kernel"]]
        r["n_out"] = 1
        return r
    # gemmx
    if draw(st.integers(0, 2)) == 0:
        r = dict(acc="gemmx", config="default")
    else:
        r = dict(acc="gemmx", config=dict(m=draw(st.sampled_from([4, 8, 16])), n=draw(st.sampled_from([4, 8, 16])), k=draw(st.sampled_from([4, 8, 16])),
                                          streamers=[[draw(st.integers(3, 5)), [8]], [draw(st.integers(3, 5)), [8]],
                                                     [draw(st.integers(3, 4)), [8, 8]], [draw(st.integers(3, 4)), [8, 4]], [draw(st.integers(3, 4)), [8, 4]]]))
    acc = make_acc(r)
    specs = _default_specs(acc)
    kern = draw(st.sampled_from(["mac", "qmac", "mac_rescale", "qmac_rescale", "rescale_only"]))
    r["kernel"] = kern
    r["rescale"] = draw(_rescale(acc.n))
    # iteration space in the output-stationary shape the pipeline produces: k innermost (zero output stride), then the output tile dims
    nk = primes.pop()
    outer = [primes.pop() for _ in range(draw(st.integers(1, 2)))]

    def strides(n):
        out = []
        for _ in range(n):
            sb[0] += 8
            out.append(sb[0])
        return out

    def ss(spec):
        return strides(len(spec[2]))

    empty3 = dict(ub=[0, 0, 0], ts=[0, 0, 0], ss=[0] * len(specs[2][2]))
    empty_d32 = dict(ub=[0, 0, 0], ts=[0, 0, 0], ss=[0] * len(specs[4][2]))
    if kern == "rescale_only":
        bounds = [primes.pop() for _ in range(draw(st.integers(1, 3)))]
        zero_p = dict(ub=list(bounds), ts=[0] * len(bounds), ss=[8])
        c_p = dict(ub=list(bounds), ts=strides(len(bounds)), ss=[8, 64])
        d8_p = dict(ub=list(bounds), ts=strides(len(bounds)), ss=strides(len(specs[2][2])))
        d32_p = dict(ub=[0, 0, 0], ts=[0, 0, 0], ss=[8, 64])
        r["patterns"] = [zero_p, dict(zero_p), d8_p, c_p, d32_p]
        r["zero"] = [0, 1]
        r["stream_types"] = ["i8", "i8", "i8", "i32", "i32"]
        r["n_out"] = 0 if draw(st.booleans()) else 0
        return r
    a_p = dict(ub=[nk] + outer, ts=strides(1 + len(outer)), ss=ss(specs[0]))
    b_p = dict(ub=[nk] + outer, ts=strides(1 + len(outer)), ss=ss(specs[1]))
    out_ts = [0] + strides(len(outer))
    if kern.endswith("_rescale"):
        d8_p = dict(ub=[nk] + outer, ts=out_ts, ss=ss(specs[2]))
        c_p = dict(ub=[nk] + outer + [acc.serializer_ratio], ts=out_ts + [0], ss=[8 * specs[2][2][-1], 8])
        if len(c_p["ub"]) > len(specs[3][1]):
            c_p = dict(ub=[nk] + outer[:1] + [acc.serializer_ratio], ts=out_ts[:2] + [0], ss=[8 * specs[2][2][-1], 8])
            d8_p = dict(ub=[nk] + outer[:1], ts=out_ts[:2], ss=d8_p["ss"])
            a_p = dict(ub=[nk] + outer[:1], ts=a_p["ts"][:2], ss=a_p["ss"])
            b_p = dict(ub=[nk] + outer[:1], ts=b_p["ts"][:2], ss=b_p["ss"])
        if draw(st.integers(0, 2)) == 0:
            # bias broadcast along an output dimension: the C stream stands still where the output advances
            j = draw(st.integers(1, len(c_p["ub"]) - 2))
            c_p["ts"][j] = 0
        r["patterns"] = [a_p, b_p, d8_p, c_p, empty_d32]
        r["zero"] = [3]
        r["stream_types"] = ["i8", "i8", "i8", "i32", "i32"]
    else:
        d32_p = dict(ub=[nk] + outer, ts=out_ts, ss=ss(specs[4]))
        c_p = dict(ub=list(d32_p["ub"]), ts=list(d32_p["ts"]), ss=list(d32_p["ss"]))
        if draw(st.integers(0, 2)) == 0:
            c_p["ts"][draw(st.integers(1, len(c_p["ub"]) - 1))] = 0
        r["patterns"] = [a_p, b_p, empty3, c_p, d32_p]
        r["zero"] = [3]
        r["stream_types"] = ["i8", "i8", "i8", "i32", "i32"]
    r["n_out"] = 0
    return r


# --------------------------------------------------------------------------------------------- gemmx per-channel-group launches

def prop_launch(r):
    """gemmx matmul + rescale with more per-channel shift / multiplier values than the array has columns: the launch is lowered to
    one accelerator launch per group of n channels, each preceded by writes of that group's values to the shift_j / mult_i registers
    (same packing as the setup: channel 4j+b of the group in byte b of shift_j). The lowered CSR trace is executed and, at every write
    of launch_gemmx, the registers must hold the values of that group."""
    import contextlib
    import io

    from props.C04 import AddrMachine
    from snaxc.transforms.convert_linalg_to_accfg import ConvertLinalgToAccPass

    acc = make_acc(r)
    text = build_module(r, acc)
    ctx = shared_ctx().clone()
    ctx._registered_accelerators = dict(ctx._registered_accelerators)
    ctx._registered_accelerators[acc.name] = lambda: acc
    mod = parse(text, ctx)
    mod.verify()
    try:
        ConvertLinalgToAccPass().apply(ctx, mod)
        mod.verify()
    except Exception as e:
        raise Reject(f"convert-linalg-to-accfg: {type(e).__name__}: {str(e)[:60]}")
    launches = [o for o in mod.walk() if o.name == "accfg.launch"]
    if len(launches) != 1 or "mult_vals" not in launches[0].attributes:
        raise Reject("no per-channel-group launch produced")
    try:
        with contextlib.redirect_stderr(io.StringIO()):
            run_pass(mod, "convert-accfg-to-csr", ctx=ctx)
        mod.verify()
    except Exception as e:
        raise Violation(f"gemmx:channel-groups:lowering-raises:{type(e).__name__}", dict(error=str(e)[:300], module=text))
    m = AddrMachine()
    n_ops = len(r["patterns"])
    try:
        execute(mod, PTR[:n_ops] + [ZPA, ZPB], machine=m)
    except InterpError as e:
        from vlib.runner import HarnessError

        raise HarnessError(f"cannot execute lowered module: {e}")
    aop = acc.generate_acc_op()
    addr = {n_: a.value.data for n_, a in aop.field_items()}
    laddr = {n_: a.value.data for n_, a in aop.launch_field_items()}
    n = acc.n
    rs = r["rescale"]
    groups = len(rs["mult"]) // n
    regs: dict = {}
    seen = 0
    streamer_launches = 0
    for e in m.trace:
        if e[0] != "w":
            continue
        a_, v_ = e[1], _u(e[2]) if isinstance(e[2], int) else e[2]
        if a_ == laddr["launch_streamer"]:
            streamer_launches += 1
        if a_ == laddr["launch_gemmx"]:
            g = seen
            seen += 1
            if g >= groups:
                break
            for i in range(n):
                want = _u(rs["mult"][g * n + i])
                if regs.get(addr[f"mult_{i}"]) != want:
                    raise Violation("gemmx:channel-groups:mult-register-differs-at-launch",
                                    dict(group=g, i=i, got=regs.get(addr[f"mult_{i}"]), want=want, module=text))
            for j in range(math.ceil(n / 4)):
                got = _bytes(regs.get(addr[f"shift_{j}"], 0))
                want_s = [(rs["shift"][g * n + 4 * j + b] & 0xFF) if 4 * j + b < n else 0 for b in range(4)]
                if got != want_s:
                    raise Violation("gemmx:channel-groups:shift-bytes-differ-at-launch", dict(group=g, j=j, got=got, want=want_s, module=text))
            continue
        regs[a_] = v_
    if seen != groups:
        raise Violation("gemmx:channel-groups:number-of-accelerator-launches-differs", dict(got=seen, want=groups, module=text))
    if streamer_launches != 1:
        raise Violation("gemmx:channel-groups:streamers-not-launched-exactly-once", dict(got=streamer_launches, module=text))
    return Info(nontrivial=groups >= 2 and len(set(rs["shift"])) > 1, classes=(f"groups:{groups}", f"n:{n}", "kernel:" + r["kernel"]), evals=groups)


@st.composite
def launch_recipe(draw, tier):
    r = draw(recipe(tier).filter(lambda x: x.get("acc") == "gemmx" and str(x.get("kernel", "")).endswith("_rescale")))
    acc = make_acc(r)
    n = acc.n
    c = draw(st.integers(2, 3))
    r["rescale"] = dict(r["rescale"], shift=[draw(st.integers(0, 63)) for _ in range(c * n)], mult=[draw(st.integers(1, 2 ** 30)) for _ in range(c * n)])
    # the number of output tiles must be divisible by the number of channel groups
    for p_ in r["patterns"]:
        if len(p_["ub"]) > 1 and any(p_["ub"]):
            p_["ub"][1] *= c
    return r


SUBS = [
    Sub("gemmx_channel_group_launches", lambda tier: launch_recipe(tier), prop_launch, budget=dict(quick=300, thorough=4000),
        floor=dict(quick=40, thorough=600), nontrivial_rule=">= 2 channel groups with differing shift values"),
    Sub("setup_values", lambda tier: recipe(tier), prop, budget=dict(quick=6000, thorough=80000), floor=dict(quick=600, thorough=8000),
        nontrivial_rule="non-default configuration, or a pattern shorter than the hardware dimensionality, or a reuse/broadcast/zero-pointer rule fired"),
]
