"""C16 Returned schedules fit the accelerator template."""
from __future__ import annotations

import numpy as np

from vlib import gen_c16 as H
from vlib import gen_sched as G
from vlib.runner import Info, Outside, Reject, Sub, Violation

from snaxc.ir.dart import scheduler as S
from snaxc.ir.dart.access_pattern import Schedule, SchedulePattern, Template, TemplatePattern
from snaxc.ir.dart.affine_transform import AffineTransform

ID = "C16"
RULE = (
    "Scheduler cases: the C03 template generator (templates with bounded/unbounded dims, broadcast rows, extra outer dims, "
    "operands of different rank, constructed-to-fit and random) mixed 3:1 with cases shaped like the real accelerators "
    "(gemmx matmul/gemm/bias/conv1d/rescale, alu and xdma-add elementwise, the templates of tests/ir/dart/test_scheduler.py), "
    "each with and without the caller's canonicalize(), with check subsets of {pure output stationary, memory flexibility}. "
    "Every schedule yielded by scheduler_backtrack (cap 200) and the return value of scheduler() are checked against "
    "post-conditions computed on python ints / Fractions only: (1) per operand the innermost min(n, t) columns span the same "
    "row space as the template's (leading template rows trimmed for broadcast), (2) innermost bounds <= template bounds where "
    "bounded, (3) each requested constraint, re-derived from its docstring, holds on the returned schedule. "
    "Matcher cases: (template rows, schedule rows) pairs with entries in -16..16 and dims <= 5, one family constructed to match "
    "(template times a unimodular / rational-invertible / random row mix, broadcast rows, outer dims), one family perturbed; "
    "TemplatePattern.matches and Template.matches are compared with the exact row-space decision. "
    "Pass cases (autoflow_pass): a module with one dart.operation on memref operands for snax_alu (2 inputs + output, 1..3 iteration "
    "dims) or snax_gemmx (matmul, gemm with bias, rescale-only; optionally one extra outer dim), iteration bounds from multiples and "
    "non-multiples of the template bound, access patterns = the family's plain patterns with the OUTPUT (and sometimes an input) "
    "transposed / sheared (O[x+y, y]) / collapsed (O[x+y], O[2x+y]) / strided / a dropped row, or free coefficients 0..4, any loop "
    "order, element types i8/i16/i32/i64 uniform, as the accelerator uses them, wide inputs with a narrower output, or free; plus the "
    "enumerated block: snax_alu over (x, y) with 13 output patterns x 7 element type assignments x plain/transposed second input x "
    "both loop orders x 3 bounds. Pipeline: insert-accfg-op, dart-scheduler (which requests pure output stationarity and memory "
    "access granularity itself). The dart.schedule the pass emits is checked against the same post-conditions (1)-(3), with the "
    "template the accelerator hands out for this operation and the element sizes of ALL operands, inputs and output, computed by "
    "the harness from the operand types of the recipe. 'No schedule' (StopIteration) is a documented outcome, not a violation. "
    "Non-trivial (autoflow_pass): a schedule was emitted, it has temporal dims and an operand narrower than the 8-byte bank. "
    "Non-trivial (scheduler): at least one yield and (a yield differs from the input, i.e. a tiling or non-identity rotation was "
    "needed, or the template has an unbounded dim or a broadcast row). Non-trivial (matcher_match): exact answer is 'match' for "
    "every operand and the schedule rows are not literally the template rows; (matcher_perturbed): exact answer is 'no match' "
    "for some operand with at least as many dims as the template. The two matcher floors enforce the true/false balance."
)
ASSUMPTIONS = [
    "xDSL 0.70 compatibility shim (vlib/compat.py) only converts list-valued irdl_options to tuples",
    "'fits' for a schedule with n dims on a template with t dims means: the innermost min(n, t) dims are compared "
    "(scheduler_backtrack takes inner_dims of the template as well; a returned schedule may have fewer dims than the template)",
    "a template bound of None means unbounded (scheduler_backtrack treats any falsy bound so)",
    "requested constraints are judged on the returned schedule against the full template; for n <= t there are no temporal "
    "dims and both constraints hold vacuously (is_memory_flexible_enough documents this; pure output stationarity quantifies over "
    "the dims outside the template)",
    "matcher domain: integer entries in -16..16, at most 5 dims, at least one result row (range of real indexing maps; "
    "float SVD with tolerance 1e-10 is far from its limits there)",
    "autoflow_pass: the template returned by the accelerator's get_template for the operation is the hardware description the "
    "emitted schedule has to fit (as in C02); the constraints the pass requests are the two it passes to scheduler() "
    "(is_pure_output_stationary, is_memory_flexible_enough), the latter over every operand of the operation with the byte size "
    "of its memref element type (i8 = 1 ... i64 = 8), bank width 8 bytes; every iteration dim occurs as a plain result of some "
    "operand (the pass reads the iteration bounds back from the operand shapes), coefficients 0..8, bounds 1..64, at most 4 dims",
    "autoflow_pass: scheduler exceptions NotImplementedError / RuntimeError / AssertionError are documented refusals, an exhausted "
    "candidate iterator (StopIteration) means 'no schedule satisfies the constraints'; the class label output-granularity:decisive is "
    "computed with the repository's scheduler and is a label only, never part of the verdict",
]

CAP = 200


def _rows(p):
    return [[int(x) for x in row] for row in p.pattern.A.tolist()]


def _checks(r):
    cs = []
    if "pos" in r["checks"]:
        cs.append(S.is_pure_output_stationary)
    if "mem" in r["checks"]:
        es = list(r["elsizes"])
        cs.append(lambda t, s: S.is_memory_flexible_enough(t, s, es))
    return cs


def _post(res, r, T_rows, tb, nops, where):
    """All post-conditions on one returned schedule. Returns (n, schedule rows per operand) or raises Violation."""
    if not isinstance(res, Schedule) or len(res) != nops:
        raise Violation(f"{where}:result-not-a-schedule-of-all-operands", dict(got=repr(res)[:200]))
    bounds = tuple(res[0].bounds)
    n = len(bounds)
    S_rows = []
    for p in res:
        if tuple(p.bounds) != bounds or p.pattern.A.shape != (p.pattern.A.shape[0], n):
            raise Violation(f"{where}:operands-disagree-on-bounds", dict(result=G.schedule_to_recipe(res)))
        S_rows.append(_rows(p))
    return _post_rows(bounds, S_rows, r, T_rows, tb, nops, where)


def _post_rows(bounds, S_rows, r, T_rows, tb, nops, where, extra=None):
    """The post-conditions on plain ints: bounds, per operand the rows of its pattern. r['checks'] / r['elsizes'] name the requested
    constraints (element sizes: one per operand, ALL operands)."""
    t = len(tb)
    n = len(bounds)
    detail = lambda **kw: dict(result=dict(bounds=list(bounds), A=S_rows), template_bounds=tb, **(extra or {}), **kw)  # noqa: E731
    # (1) template fit, exact
    for i in range(nops):
        if not H.operand_fits(T_rows[i], S_rows[i], t, n):
            raise Violation(f"{where}:fit:inner-dims-do-not-span-template-subspace", detail(operand=i))
    # (2) bounds
    for k in range(1, min(n, t) + 1):
        if tb[-k] and bounds[-k] > tb[-k]:
            raise Violation(f"{where}:bounds:inner-bound-exceeds-template-bound", detail(dim_from_inner=k))
    # (3) requested constraints on the returned schedule
    if "pos" in r["checks"] and not H.pure_output_stationary(S_rows[-1], t, n):
        raise Violation(f"{where}:constraint:pure-output-stationary-violated", detail())
    if "mem" in r["checks"] and not H.memory_flexible(S_rows, r["elsizes"], t, n):
        raise Violation(f"{where}:constraint:memory-flexibility-violated", detail(elsizes=r["elsizes"]))
    return n, S_rows


def prop_sched(r):
    try:
        s = G.mk_schedule(r["bounds"], r["ops"])
        tmpl = G.mk_template(r["tbounds"], r["tops"])
    except Exception as e:
        raise Outside(f"recipe does not build: {type(e).__name__}")
    nops = len(r["ops"])
    tb = list(r["tbounds"])
    t = len(tb)
    T_rows = [_rows(p) for p in tmpl]
    if len(T_rows) != nops or any(len(row) != t for rows in T_rows for row in rows):
        raise Outside("template/schedule operand count or template width inconsistent")
    if r.get("canon"):
        try:
            s = s.canonicalize()
        except Exception as e:
            raise Violation(f"canonicalize:raises:{type(e).__name__}", dict(error=repr(e)))
    n0 = len(s[0].bounds)
    try:
        results = []
        for res in S.scheduler_backtrack(tmpl, s, extra_checks=_checks(r)):
            results.append(res)
            if len(results) >= CAP:
                break
    except Exception as e:
        raise Violation(f"backtrack:raises:{type(e).__name__}", dict(error=repr(e)))
    changed = tiled = rotated = 0
    rel = set()
    pos_nv = mem_app = 0
    shown = None
    for res in results:
        n, S_rows = _post(res, r, T_rows, tb, nops, "backtrack")
        if shown is None:
            shown = dict(input_bounds=list(s[0].bounds), template_bounds=tb, yields=len(results),
                         first_yield=dict(bounds=list(res[0].bounds), A=S_rows))
        if not (res == s):
            changed += 1
            if n > n0:
                tiled += 1
            else:
                rotated += 1
        rel.add("n<t" if n < t else "n==t" if n == t else "n>t")
        if "pos" in r["checks"] and H.pos_nonvacuous(S_rows[-1], t, n):
            pos_nv += 1
        if "mem" in r["checks"] and n > t:
            mem_app += 1
    # scheduler(): the value the real caller gets. Default extra_checks = [is_pure_output_stationary].
    evals = max(1, len(results))
    if results:
        try:
            if r["checks"] == ["pos"]:
                pick = S.scheduler(tmpl, s)
            else:
                pick = S.scheduler(tmpl, s, extra_checks=_checks(r))
        except Exception as e:
            raise Violation(f"scheduler:raises:{type(e).__name__}", dict(error=repr(e)))
        _post(pick, r, T_rows, tb, nops, "scheduler")
        evals += 1
        # scheduler(..., schedule_idx=i): selecting one of the schedules by index must hand out a schedule that satisfies the same
        # requested constraints (every index that exists; capped)
        if len(results) < CAP:
            for i in sorted({0, len(results) - 1, (len(results) * 7 + nops) % len(results)}):
                try:
                    if r["checks"] == ["pos"]:
                        pick_i = S.scheduler(tmpl, s, schedule_idx=i)
                    else:
                        pick_i = S.scheduler(tmpl, s, extra_checks=_checks(r), schedule_idx=i)
                except Exception as e:
                    raise Violation(f"scheduler-by-index:raises:{type(e).__name__}", dict(error=repr(e), index=i))
                _post(pick_i, r, T_rows, tb, nops, "scheduler-by-index")
                evals += 1
    ny = len(results)
    unb = any(b is None for b in tb)
    bcast = any(len(T_rows[i]) > len(r["ops"][i]["b"]) for i in range(nops))
    mode = r["mode"]
    cls = [f"yields:{'0' if ny == 0 else '1' if ny == 1 else '2+' if ny < CAP else 'cap'}",
           f"mode:{'real' if mode.startswith('real:') else mode}", f"checks:{'+'.join(r['checks']) or 'none'}",
           "canon" if r.get("canon") else "as-given"]
    if mode.startswith("real:"):
        cls.append("fam:" + mode[5:] + (":yield" if ny else ":none"))
    if n0 == 0:
        cls.append("zero-dim-after-canonicalize")
    if ny:
        cls += sorted("final:" + x for x in rel)
        if tiled:
            cls.append("tiled")
        if rotated:
            cls.append("rotated-only")
        if unb:
            cls.append("template-unbounded-dim")
        if bcast:
            cls.append("template-broadcast-row")
        if pos_nv:
            cls.append("pos-nonvacuous")
        if mem_app:
            cls.append("mem-applicable")
    return Info(nontrivial=bool(ny and (changed or unb or bcast)), classes=tuple(cls), evals=evals, sample=shown)


# ---------------------------------------------------------------------------------------- matcher


def _mk_pair(op, t, n):
    TA, SA = op["TA"], op["SA"]
    ok = (isinstance(TA, list) and isinstance(SA, list) and 1 <= len(TA) <= 8 and 1 <= len(SA) <= 8
          and all(len(row) == t for row in TA) and all(len(row) == n for row in SA)
          and all(isinstance(x, int) and -H.LIM <= x <= H.LIM for rows in (TA, SA) for row in rows for x in row))
    if not ok:
        raise Outside("pair outside the stated matcher domain")
    tp = TemplatePattern([None] * t, AffineTransform(np.array(TA, dtype=np.int_).reshape(len(TA), t), np.zeros(len(TA), dtype=np.int_)))
    sp = SchedulePattern([2] * n, AffineTransform(np.array(SA, dtype=np.int_).reshape(len(SA), n), np.zeros(len(SA), dtype=np.int_)))
    return tp, sp


def prop_matcher(r):
    t, n = r["t"], r["n"]
    if not (1 <= t <= H.MAXD and 1 <= n <= H.MAXD) or not r["ops"]:
        raise Outside("dims outside 1..5")
    tps, sps, exps = [], [], []
    identical = True
    for op in r["ops"]:
        tp, sp = _mk_pair(op, t, n)
        tps.append(tp)
        sps.append(sp)
        exp = H.pattern_matches_exact(op["TA"], op["SA"], t, n)
        exps.append(exp)
        if n < t or H.inner_cols(op["SA"], t) != H.trim_broadcast(op["TA"], len(op["SA"])):
            identical = False
        try:
            got = tp.matches(sp)
        except Exception as e:
            raise Violation(f"matcher:raises:{type(e).__name__}", dict(error=repr(e), pair=op))
        if bool(got) != exp:
            raise Violation("matcher:accepts-pattern-spanning-another-subspace" if got else "matcher:rejects-pattern-spanning-template-subspace",
                            dict(pair=op, t=t, n=n, exact=exp, matches=bool(got)))
    # the collection-level predicate
    dropped = bool(r.get("drop"))
    sched = Schedule(sps[:-1] if dropped else sps)
    exp_all = (not dropped) and all(exps)
    try:
        got_all = Template(tps).matches(sched)
    except Exception as e:
        raise Violation(f"template-matches:raises:{type(e).__name__}", dict(error=repr(e)))
    if bool(got_all) != exp_all:
        raise Violation("template-matches:differs-from-conjunction-of-operands", dict(exact=exps, dropped=dropped, got=bool(got_all)))
    cls = [f"kind:{r.get('kind')}", f"t:{t}", "n<t" if n < t else "n==t" if n == t else "n>t", f"operands:{len(exps)}",
           f"template:{'true' if exp_all else 'false'}"]
    cls += [f"pair:{'true' if e else 'false'}" for e in exps]
    cls += list(r.get("tags", ()))
    if dropped:
        cls.append("operand-dropped")
    if r.get("kind") == "match":
        nt = all(exps) and not identical
    elif r.get("kind") == "exhaustive":
        nt = True
    else:
        nt = n >= t and not all(exps)
    return Info(nontrivial=bool(nt), classes=tuple(cls), evals=len(exps) + 1)


def exhaustive_matcher(tier):
    """Thorough tier only: every pair of 1..2-row matrices over {-1,0,1,2} in 2 dims and over {-1,0,1} in 3 dims."""
    import itertools
    if tier != "thorough":
        return
    for t, vals in ((2, (-1, 0, 1, 2)), (3, (-1, 0, 1))):
        vecs = [list(v) for v in itertools.product(vals, repeat=t)]
        mats = [[v] for v in vecs] + [[a, b] for a in vecs for b in vecs]
        for TA in mats:
            for SA in mats:
                yield dict(t=t, n=t, ops=[dict(TA=TA, SA=SA)], drop=False, kind="exhaustive")


# ---------------------------------------------------------------------------------------- pass level


def _affine_rows(amap):
    """Integer coefficient rows of an affine map, by evaluation at 0 and at the unit vectors (checked for linearity at 3)."""
    nd = amap.num_dims
    zero = [0] * nd
    b = [int(x) for x in amap.eval(zero, [])]
    rows = [[0] * nd for _ in b]
    for i in range(nd):
        for scale in (1, 3):
            e = list(zero)
            e[i] = scale
            v = [int(x) for x in amap.eval(e, [])]
            for k in range(len(b)):
                if scale == 1:
                    rows[k][i] = v[k] - b[k]
                elif v[k] - b[k] != 3 * rows[k][i]:
                    raise Outside("pattern is not linear")
    return rows


def prop_autoflow(r):
    """dart.operation -> dart-scheduler (the pass, with the constraints IT requests: pure output stationarity and memory access
    granularity) -> the post-conditions on the emitted dart.schedule, with the element sizes of ALL operands."""
    from vlib.ctx import PassTimeout, parse, run_pass, shared_ctx, time_limit, to_text

    fam = r.get("fam")
    if fam not in H.FAM_ACC or len(r["ops"]) != H.FAM_NOPS[fam]:
        raise Outside("family / operand count")
    nd = len(r["bounds"])
    if not (1 <= nd <= H.AUTOFLOW_MAXDIM) or any(not isinstance(b, int) or not (1 <= b <= 64) for b in r["bounds"]):
        raise Outside("iteration bounds outside 1..64 or more than 4 dims")
    for o in r["ops"]:
        if o["ety"] not in H.ELSIZE or not (1 <= len(o["rows"]) <= 4) or any(
                len(row) != nd or not any(row) or any(not isinstance(c, int) or not (0 <= c <= 8) for c in row) for row in o["rows"]):
            raise Outside("operand pattern outside the stated domain")
    if not H._plain_dims_ok(r["ops"], nd):
        raise Outside("an iteration dim never occurs as a plain result: the operation's bounds cannot be read from the operand shapes")
    nops = len(r["ops"])
    elsizes = [H.ELSIZE[o["ety"]] for o in r["ops"]]  # computed from the operand types in the recipe, one per operand
    text = H.autoflow_text(r)
    ctx = shared_ctx()
    mod = parse(text, ctx)
    mod.verify()  # a failure here is a harness error (invalid generated IR)
    op = next(o for o in mod.walk() if o.name == "dart.operation")
    acc_name = H.FAM_ACC[fam]
    cls = ["fam:" + fam, f"dims:{nd}", "etys:" + ("uniform" if len(set(elsizes)) == 1 else "mixed"),
           "narrowest:" + ("output-only" if elsizes[-1] < min(elsizes[:-1]) else "an-input" if min(elsizes) < 8 else "none-below-bank"),
           ] + ["how:" + t for t in r.get("tags", ())]
    # the accelerator's template is the hardware description the schedule has to fit
    try:
        run_pass(mod, "insert-accfg-op", accelerator=acc_name)
        tmpl = ctx.get_acc(acc_name).get_template(op)
        tb = [b for b in tmpl[0].bounds]
        T_rows = [_rows(p) for p in tmpl]
    except Exception as e:
        raise Outside(f"accelerator template not available: {type(e).__name__}")
    if len(T_rows) != nops:
        raise Outside("template and operation disagree on the operand count")
    # label only (never part of the verdict): the first loop nest the scheduler finds when the OUTPUT is left out of the
    # granularity constraint; where it differs from the emitted schedule, the output's granularity decided the choice
    first_without_output = None
    if elsizes[-1] < H.BANK:
        try:
            with time_limit(20):
                s0 = Schedule(SchedulePattern(tuple(r["bounds"]), p.data) for p in op.patterns.data).canonicalize()
                f0 = S.scheduler(tmpl, s0, extra_checks=[S.is_pure_output_stationary,
                                                         lambda t_, s_: S.is_memory_flexible_enough(t_, s_, elsizes[:-1])])
                first_without_output = ([int(b) for b in f0[0].bounds], [_rows(p) for p in f0])
        except (Exception, PassTimeout):
            first_without_output = None
    try:
        with time_limit(20):
            run_pass(mod, "dart-scheduler")
    except PassTimeout:
        raise Reject("scheduler did not terminate within 20 s")
    except StopIteration:
        cls.append("outcome:no-schedule" + (":output-granularity-decisive" if first_without_output is not None else ""))
        return Info(nontrivial=False, classes=tuple(cls))
    except (NotImplementedError, RuntimeError, AssertionError) as e:
        raise Reject(f"scheduler refused: {type(e).__name__}")
    except Exception as e:
        raise Violation(f"autoflow:raises:{type(e).__name__}", dict(error=repr(e)[:400], module=text))
    scheds = [o for o in mod.walk() if o.name == "dart.schedule"]
    if len(scheds) != 1 or any(o.name == "dart.operation" for o in mod.walk()):
        raise Reject("operation left unscheduled")
    s = scheds[0]
    try:
        mod.verify()
    except Exception as e:
        raise Violation("autoflow:invalid-ir-after-pass", dict(error=repr(e)[:400], module=text))
    bounds = [int(b.value.data) for b in s.bounds.data]
    S_rows = [_affine_rows(p.data) for p in s.patterns.data]
    extra = dict(module=text, element_sizes=elsizes, schedule_op=to_text(s)[:1500])
    if len(S_rows) != nops or len(s.operands) != nops or [H.ELSIZE.get(str(o.type.element_type)) for o in s.operands] != elsizes:
        raise Violation("autoflow:schedule-operands-differ-from-operation-operands", extra)
    if any(len(row) != len(bounds) for rows in S_rows for row in rows):
        raise Violation("autoflow:pattern-dims-differ-from-bounds", extra)
    n, _ = _post_rows(bounds, S_rows, dict(checks=["pos", "mem"], elsizes=elsizes), T_rows, tb, nops, "autoflow", extra)
    t = len(tb)
    cls.append("outcome:scheduled")
    cls.append("final:" + ("n<t" if n < t else "n==t" if n == t else "n>t"))
    if n > len(r["bounds"]):
        cls.append("tiled")
    applicable = n > t and min(elsizes) < H.BANK
    if applicable:
        cls.append("granularity-applicable")
    if first_without_output is not None:
        # label only: did the output's granularity decide which loop nest was taken?
        cls.append("output-granularity:" + ("decisive" if first_without_output != (bounds, S_rows) else "not-decisive"))
    return Info(nontrivial=bool(applicable), classes=tuple(cls), evals=1,
                sample=dict(bounds=bounds, A=S_rows, template_bounds=tb, element_sizes=elsizes))


SUBS = [
    Sub("scheduler", lambda tier: H.sched_case(tier), prop_sched,
        budget=dict(quick=4000, thorough=60000), floor=dict(quick=400, thorough=6000),
        nontrivial_rule="at least one yielded schedule, and a yield differs from the input (tiling / non-identity rotation) "
                        "or the template has an unbounded dim or a broadcast row"),
    Sub("matcher_match", lambda tier: H.matcher_case(tier, "match"), prop_matcher,
        budget=dict(quick=10000, thorough=300000), floor=dict(quick=1200, thorough=35000),
        nontrivial_rule="exact decision is 'match' for every operand and the schedule rows are not literally the template rows"),
    Sub("matcher_perturbed", lambda tier: H.matcher_case(tier, "perturb"), prop_matcher,
        budget=dict(quick=10000, thorough=300000), floor=dict(quick=1400, thorough=43000),
        nontrivial_rule="exact decision is 'no match' for some operand that has at least as many dims as the template"),
    Sub("autoflow_pass", lambda tier: H.autoflow_case(tier), prop_autoflow,
        budget=dict(quick=400, thorough=12000), exhaustive=H.autoflow_exhaustive, floor=dict(quick=100, thorough=1500),
        nontrivial_rule="the pass emitted a dart.schedule with temporal dims (more dims than the template) and an operand whose elements are "
                        "narrower than the 8-byte bank, i.e. the granularity constraint is applicable and can bind"),
    Sub("matcher_exhaustive", None, prop_matcher, budget=dict(quick=0, thorough=0),
        exhaustive=exhaustive_matcher, exhaustive_only=True,
        nontrivial_rule="every enumerated pair (complete enumeration of the small space, thorough tier only)"),
]
