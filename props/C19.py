"""C19 Canonical forms and alternative representations denote the same object."""
from __future__ import annotations

import io
import sys

import numpy as np

from vlib import gen_c19 as G
from vlib import gen_sched as GS
from vlib.runner import HarnessError, Info, Outside, Reject, Sub, Violation

from xdsl.dialects import arith
from xdsl.dialects.builtin import IntegerAttr, IntegerType
from xdsl.ir import Block, SSAValue
from xdsl.ir.affine import AffineBinaryOpExpr, AffineBinaryOpKind, AffineConstantExpr, AffineMap
from xdsl.parser import Parser
from xdsl.printer import Printer
from xdsl.utils.exceptions import VerifyException

from snaxc.accelerators.streamers.extensions import STREAMER_OPT_MAP
from snaxc.accelerators.streamers.streamers import Streamer, StreamerConfiguration, StreamerSystemType, StreamerType
from snaxc.dialects.snax import StreamerConfigurationAttr
from snaxc.dialects.snax_stream import StridePattern
from snaxc.ir.dart.access_pattern import Schedule, SchedulePattern, Template, TemplatePattern
from snaxc.ir.dart.affine_transform import AffineTransform
from snaxc.util import canonicalize_affine as CA
from snaxc.util.pack_bitlist import pack_bitlist

ID = "C19"
RULE = (
    "Six sub-properties over pure functions, each with its own counters. "
    "canon_expr: recursive expression trees over d0..d3, constants -8..8, +, * (one side constant), floordiv/mod by constants 1..8, "
    "depth <= 4 (thorough <= 6), a quarter of them full ('dense') trees, constants mostly from a per-recipe pool holding k and -k, built both "
    "with the raw node constructor and with the operator API (what the parser uses), 1..3 results per map; oracle: own "
    "evaluator gives equal values before/after canonicalize_expr / canonicalize_map on the box 0..4 per dim, 40 fixed and 10 drawn points "
    "in -1000..1000, idempotence, an object is returned (RecursionError / assert = violation); non-trivial = canonical form differs "
    "syntactically. affine_transform: integer matrices up to 5x5 entries -16..16: from_affine_map(to_affine_map(T)) == T, map eval == "
    "T.eval == exact integer reference, compose(f,g)(x) == f(g(x)), batch == row-wise, from_affine_map of a generated linear map "
    "evaluates like the map; non-trivial = >= 2 dims and >= 2 results. access_pattern: canonicalize keeps the image multiset over the "
    "box (None bounds filled with 2/3), is idempotent, inner_dims(k) equals the original with outer dims fixed to 0 point by point; "
    "non-trivial = canonicalize removed a dim or inner_dims dropped one. stride_pattern: temporal address sequence (dim 0 innermost) "
    "unchanged by canonicalize, spatial strides unchanged, idempotent, print->parse equal for input and canonical form; non-trivial = "
    "canonical form differs. pack_bitlist: emitted arith ops verify and, interpreted at width 32/64, the last result equals "
    "OR(v_i << off_i) mod 2^w for int / SSA / Operation inputs, 1..9 fields; non-overlapping layouts recover every field; non-trivial = "
    ">= 2 fields. streamer_config: print -> parse gives the same streamer types, temporal flags, spatial dims, option names in order and "
    "system type; non-trivial = >= 2 streamers or >= 1 option; all 2^11 option subsets x system type x streamer type enumerated."
)
ASSUMPTIONS = [
    "xDSL 0.70 compatibility shim (vlib/compat.py) only converts list-valued irdl_options to tuples",
    "affine floordiv/mod have floor semantics for a positive divisor (MLIR affine semantics; same as xDSL AffineExpr.eval)",
    "a stride pattern (ub, ts) denotes the loop nest with temporal dimension 0 innermost; a zero bound means no iteration (StridePattern docstring)",
    "arith.shli / arith.ori at iN wrap modulo 2^N; shift amounts >= N are never generated (poison in MLIR)",
    "AffineExpr operator API of the installed xDSL (0.70) simplifies on construction; the pinned xDSL may simplify less",
]

# =====================================================================================
# 1. canonicalize_expr / canonicalize_map


def _innermost(tb):
    while tb.tb_next is not None:
        tb = tb.tb_next
    return tb


def _assert_signature(e: BaseException) -> str:
    """Narrow classification of an AssertionError inside the canonicaliser (by the function and the shape of its local `expr`)."""
    tb = _innermost(e.__traceback__)
    fn = tb.tb_frame.f_code.co_name
    loc = tb.tb_frame.f_locals
    ex = loc.get("expr")
    if fn == "canonicalize_addition" and isinstance(ex, AffineBinaryOpExpr) and ex.kind is AffineBinaryOpKind.Add:
        lhs, rhs = ex.lhs, ex.rhs
        if (isinstance(lhs, AffineBinaryOpExpr) and lhs.kind is AffineBinaryOpKind.Add
                and isinstance(lhs.rhs, AffineConstantExpr) and isinstance(rhs, AffineConstantExpr)
                and lhs.rhs.value + rhs.value == 0 and not isinstance(lhs.lhs, AffineBinaryOpExpr)):
            return "canon_expr:raises:AssertionError:reassociate-(x+k)+(-k)-with-x-a-leaf"
    return f"canon_expr:raises:AssertionError:in-{fn}"


def _canon(e):
    try:
        return CA.canonicalize_expr(e)
    except RecursionError as ex:
        raise Violation("canon_expr:raises:RecursionError", dict(expr=str(e)))
    except AssertionError as ex:
        raise Violation(_assert_signature(ex), dict(expr=str(e)))
    except Exception as ex:  # pure function on a valid affine expression
        raise Violation(f"canon_expr:raises:{type(ex).__name__}", dict(expr=str(e), error=repr(ex)))


def prop_canon(r):
    n = r["n"]
    mode = r["mode"]
    exprs = [G.build_expr(t, mode) for t in r["exprs"]]
    pts = G.eval_points(n, r["pts"])
    changed = False
    classes = [f"mode:{mode}", f"results:{len(exprs)}"]
    opsall = set()
    cans = []
    for t, e in zip(r["exprs"], exprs):
        before = G.eval_expr(e, pts)
        c = _canon(e)
        try:
            after = G.eval_expr(c, pts)
        except G.EvalError as ex:
            raise Violation("canon_expr:result-not-evaluable", dict(expr=str(e), canon=str(c), error=str(ex)))
        if not np.array_equal(before, after):
            i = int(np.nonzero(before != after)[0][0])
            kind = "negative-point-only" if bool((before[: 5 ** n] == after[: 5 ** n]).all()) else "box"
            raise Violation(f"canon_expr:evaluation-differs:{kind}",
                            dict(expr=str(e), canon=str(c), point=pts[i].tolist(), before=int(before[i]), after=int(after[i])))
        cc = _canon(c)
        if cc != c:
            raise Violation("canon_expr:not-idempotent", dict(expr=str(e), once=str(c), twice=str(cc)))
        if c != e:
            changed = True
        cans.append(c)
        opsall |= G.tree_ops(t)
    # the map-level entry point must do the same per result and keep the dim / symbol counts
    m = AffineMap(n, 0, tuple(exprs))
    try:
        cm = CA.canonicalize_map(m)
    except RecursionError:
        raise Violation("canon_map:raises:RecursionError", dict(map=str(m)))
    except Exception as ex:
        raise Violation(f"canon_map:raises:{type(ex).__name__}", dict(map=str(m), error=repr(ex)))
    if cm.num_dims != n or cm.num_symbols != 0 or tuple(cm.results) != tuple(cans):
        raise Violation("canon_map:differs-from-per-expression-canonicalisation", dict(map=str(m), canon=str(cm)))
    # cross-check against xDSL's own evaluator on a few points (map level)
    for p in r["pts"][:3]:
        p = [int(x) for x in p[:n]]
        if tuple(m.eval(p, [])) != tuple(cm.eval(p, [])):
            raise Violation("canon_map:evaluation-differs:xdsl-eval", dict(map=str(m), canon=str(cm), point=p))
    size = max(G.tree_size(t) for t in r["exprs"])
    depth = max(G.tree_depth(t) for t in r["exprs"])
    classes += [f"depth:{depth}", "size:" + ("1-3" if size <= 3 else "4-9" if size <= 9 else "10-19" if size <= 19 else "20+"),
                "changed" if changed else "unchanged"]
    if opsall & {"//", "%"}:
        classes.append("has-div-or-mod")
    if {"+", "*"} <= opsall:
        classes.append("has-add-and-mul")
    return Info(nontrivial=changed, classes=tuple(classes), evals=len(exprs),
                sample=dict(input=[str(e) for e in exprs], canonical=[str(c) for c in cans]))


# =====================================================================================
# 2. AffineTransform


def _arr(rows, r, n):
    return np.array(rows, dtype=np.int_).reshape(r, n)


def _ref_eval(A, b, x):
    """exact Python-integer reference of A x + b."""
    return [sum(int(a) * int(v) for a, v in zip(row, x)) + int(bi) for row, bi in zip(A, b)]


def _same_transform(T, A, b):
    return (T.A.shape == A.shape and T.b.shape == b.shape and np.array_equal(T.A, A) and np.array_equal(T.b, b)
            and np.issubdtype(T.A.dtype, np.integer) and np.issubdtype(T.b.dtype, np.integer))


def _guard(sig):
    class _G:
        def __enter__(self):
            return self

        def __exit__(self, et, ev, tb):
            if et is None or issubclass(et, (Violation, Reject, Outside)):
                return False
            if issubclass(et, Exception):
                raise Violation(f"{sig}:raises:{et.__name__}", dict(error=repr(ev)))
            return False
    return _G()


def prop_transform(r):
    n, m = r["n"], r["m"]
    rr = len(r["b"])
    A, b = _arr(r["A"], rr, n), np.array(r["b"], dtype=np.int_)
    B, bb = _arr(r["B"], n, m), np.array(r["bb"], dtype=np.int_).reshape(n)
    with _guard("affine_transform:construct"):
        T = AffineTransform(A, b)
        U = AffineTransform(B, bb)
    evals = 0
    # (a) matrix -> map -> matrix
    with _guard("affine_transform:to_affine_map"):
        amap = T.to_affine_map()
    if amap.num_dims != n or len(amap.results) != rr:
        raise Violation("affine_transform:to_affine_map:wrong-arity", dict(map=str(amap)))
    with _guard("affine_transform:from_affine_map"):
        T2 = AffineTransform.from_affine_map(amap)
    if not _same_transform(T2, A, b):
        raise Violation("affine_transform:roundtrip-matrix-map-matrix-differs", dict(map=str(amap), A=T2.A.tolist(), b=T2.b.tolist()))
    with _guard("affine_transform:__eq__"):
        if not (T2 == T):
            raise Violation("affine_transform:roundtrip-not-equal-by-__eq__", dict(map=str(amap)))
    # (b) evaluation: map, transform and exact reference agree
    for x in r["xs"]:
        ref = _ref_eval(r["A"], r["b"], x)
        with _guard("affine_transform:eval"):
            tv = T.eval(np.array(x, dtype=np.int_).reshape(n))
        if [int(v) for v in tv] != ref:
            raise Violation("affine_transform:eval-differs-from-Ax+b", dict(x=x, got=[int(v) for v in tv], ref=ref))
        mv = [int(v) for v in amap.eval([int(v) for v in x], [])]
        if mv != ref:
            raise Violation("affine_transform:to_affine_map-evaluates-differently", dict(x=x, map=str(amap), got=mv, ref=ref))
        evals += 1
    # (c) composition
    with _guard("affine_transform:compose"):
        C = T.compose(U)
    if C.A.shape != (rr, m) or C.b.shape != (rr,):
        raise Violation("affine_transform:compose:wrong-shape", dict(A=list(C.A.shape), b=list(C.b.shape)))
    for y in r["ys"]:
        inner = _ref_eval(r["B"], r["bb"], y)
        ref = _ref_eval(r["A"], r["b"], inner)
        with _guard("affine_transform:eval"):
            cv = C.eval(np.array(y, dtype=np.int_).reshape(m))
            nested = T.eval(U.eval(np.array(y, dtype=np.int_).reshape(m)))
        if [int(v) for v in cv] != ref or [int(v) for v in nested] != ref:
            raise Violation("affine_transform:compose-differs-from-f(g(x))", dict(y=y, compose=[int(v) for v in cv], ref=ref))
        evals += 1
    # (d) batch evaluation equals row-wise evaluation
    X = np.array(r["xs"], dtype=np.int_).reshape(len(r["xs"]), n)
    with _guard("affine_transform:eval-batch"):
        batch = T.eval(X)
    if batch.shape != (len(r["xs"]), rr):
        raise Violation("affine_transform:batch-eval:wrong-shape", dict(shape=list(batch.shape)))
    for i, x in enumerate(r["xs"]):
        if [int(v) for v in batch[i]] != _ref_eval(r["A"], r["b"], x):
            raise Violation("affine_transform:batch-eval-differs-from-row-wise", dict(row=i, x=x))
    # (e) a map written as expressions -> matrix form evaluates like the map
    mp = r["map"]
    exprs = [G.build_expr(t, mp["mode"]) for t in mp["exprs"]]
    nonlinear = any(G.tree_ops(t) & {"//", "%"} for t in mp["exprs"])
    gmap = AffineMap(mp["n"], 0, tuple(exprs))
    refused = False
    try:
        TM = AffineTransform.from_affine_map(gmap)
    except ValueError as ex:
        if "not a pure linear" not in str(ex):
            raise Violation("affine_transform:from_affine_map:raises:ValueError", dict(map=str(gmap), error=repr(ex)))
        if not any(isinstance(x, AffineBinaryOpExpr) and x.kind in (AffineBinaryOpKind.FloorDiv, AffineBinaryOpKind.Mod)
                   for e in exprs for x in e.dfs()):
            raise Violation("affine_transform:from_affine_map:refuses-linear-map", dict(map=str(gmap)))
        refused = True
    except Exception as ex:
        raise Violation(f"affine_transform:from_affine_map:raises:{type(ex).__name__}", dict(map=str(gmap), error=repr(ex)))
    if not refused:
        pts = G.eval_points(mp["n"], mp["pts"])
        want = np.stack([G.eval_expr(e, pts) for e in exprs], axis=1)
        with _guard("affine_transform:eval-batch"):
            got = TM.eval(pts.astype(np.int_))
        if got.shape != want.shape or not np.array_equal(got, want):
            raise Violation("affine_transform:from_affine_map-evaluates-differently", dict(map=str(gmap), A=TM.A.tolist(), b=TM.b.tolist()))
        evals += 1
    classes = [f"dims:{n}", f"results:{rr}", f"inner-dims:{m}", "map:" + ("refused-nonlinear" if refused else "nonlinear-accepted" if nonlinear else "linear")]
    return Info(nontrivial=bool(n >= 2 and rr >= 2), classes=tuple(classes), evals=max(1, evals))


# =====================================================================================
# 3. AccessPattern.canonicalize / inner_dims


def _fill(bounds, k):
    return [k if bnd is None else bnd for bnd in bounds]


def prop_access(r):
    kind = r["kind"]
    n = len(r["bounds"])
    bounds = list(r["bounds"])
    cls = SchedulePattern if kind.startswith("sched") else TemplatePattern
    coll = Schedule if kind.startswith("sched") else Template
    if cls is SchedulePattern and any(bnd is None for bnd in bounds):
        raise Outside("schedule patterns have static bounds")
    pats = [cls(tuple(bounds), GS.mk_transform(dict(o, n=n))) for o in r["ops"]]
    fill = r["fill"]
    evals = 0
    removed = False
    with _guard("access_pattern:canonicalize"):
        if kind.endswith("coll"):
            cans = list(coll(pats).canonicalize())
        else:
            cans = [p.canonicalize() for p in pats]
    if len(cans) != len(pats):
        raise Violation("access_pattern:canonicalize:operand-count-changed", None)
    for p, c, o in zip(pats, cans, r["ops"]):
        if type(c) is not type(p):
            raise Violation("access_pattern:canonicalize:type-changed", dict(got=type(c).__name__))
        if len(c.bounds) != c.pattern.A.shape[1] or c.pattern.A.shape[0] != len(o["b"]):
            raise Violation("access_pattern:canonicalize:malformed-result", dict(bounds=list(c.bounds), A=list(c.pattern.A.shape)))
        before = GS.iteration_multiset(_fill(bounds, fill), [(p.pattern.A, p.pattern.b)])
        after = GS.iteration_multiset(_fill(c.bounds, fill), [(c.pattern.A, c.pattern.b)])
        if not GS.same_multiset(before, after):
            raise Violation("access_pattern:canonicalize:image-multiset-differs",
                            dict(bounds=bounds, canon_bounds=list(c.bounds), canon_A=c.pattern.A.tolist(), canon_b=c.pattern.b.tolist()))
        # unbounded (None) dims are kept, in order
        if [bnd for bnd in c.bounds if bnd is None] != [bnd for bnd in bounds if bnd is None]:
            raise Violation("access_pattern:canonicalize:unbounded-dims-changed", dict(bounds=bounds, canon_bounds=list(c.bounds)))
        with _guard("access_pattern:canonicalize"):
            c2 = c.canonicalize()
        if tuple(c2.bounds) != tuple(c.bounds) or not _same_transform(c2.pattern, c.pattern.A, c.pattern.b):
            raise Violation("access_pattern:canonicalize:not-idempotent", dict(once=list(c.bounds), twice=list(c2.bounds)))
        if len(c.bounds) != n:
            removed = True
        evals += 1
    # inner_dims(k): the original with the outer n-k dims fixed to 0, point by point
    k = r["k"]
    with _guard("access_pattern:inner_dims"):
        if kind.endswith("coll"):
            inners = list(coll(pats).inner_dims(k))
        else:
            inners = [p.inner_dims(k) for p in pats]
    for p, q, o in zip(pats, inners, r["ops"]):
        if tuple(q.bounds) != tuple(bounds[n - k:]) or q.pattern.A.shape != (len(o["b"]), k):
            raise Violation("access_pattern:inner_dims:wrong-bounds-or-shape", dict(bounds=list(q.bounds), A=list(q.pattern.A.shape)))
        ipts = GS.box_points(_fill(bounds[n - k:], fill))
        full = np.concatenate([np.zeros((len(ipts), n - k), dtype=np.int64), ipts], axis=1)
        want = full @ np.asarray(p.pattern.A, dtype=np.int64).T + np.asarray(p.pattern.b, dtype=np.int64)
        got = ipts @ np.asarray(q.pattern.A, dtype=np.int64).reshape(len(o["b"]), k).T + np.asarray(q.pattern.b, dtype=np.int64)
        if not np.array_equal(want, got):
            raise Violation("access_pattern:inner_dims:differs-from-outer-dims-fixed-to-0", dict(k=k, bounds=bounds))
        evals += 1
    classes = [f"kind:{kind}", f"dims:{n}", "canon-removed-dims" if removed else "canon-kept-all", "inner:all" if k == n else "inner:dropped",
               "has-unbounded" if any(bnd is None for bnd in bounds) else "all-static"]
    return Info(nontrivial=bool(removed or k < n), classes=tuple(classes), evals=evals)


# =====================================================================================
# 4. StridePattern.canonicalize, print / parse

_CTX = []


def _ctx():
    if not _CTX:
        from vlib.ctx import fresh_ctx
        _CTX.append(fresh_ctx())
    return _CTX[0]


def _print_attr(a) -> str:
    s = io.StringIO()
    Printer(s).print_attribute(a)
    return s.getvalue()


def _roundtrip(a, sig):
    try:
        text = _print_attr(a)
    except Exception as ex:
        raise Violation(f"{sig}:print:raises:{type(ex).__name__}", dict(error=repr(ex)))
    try:
        back = Parser(_ctx(), text).parse_attribute()
    except Exception as ex:
        raise Violation(f"{sig}:printed-text-does-not-parse:{type(ex).__name__}", dict(text=text, error=str(ex)[:300]))
    return text, back


def _sp_lists(p):
    return ([x.data for x in p.upper_bounds.data], [x.data for x in p.temporal_strides.data], [x.data for x in p.spatial_strides.data])


def prop_stride(r):
    ub, ts, ss = list(r["ub"]), list(r["ts"]), list(r["ss"])
    if len(ub) != len(ts) or any(u < 0 for u in ub):
        raise Outside("bounds are non-negative, one stride per bound")
    p = StridePattern(ub, ts, ss)
    with _guard("stride_pattern:canonicalize"):
        c = p.canonicalize()
    if not isinstance(c, StridePattern):
        raise Violation("stride_pattern:canonicalize:not-a-stride-pattern", None)
    cub, cts, css = _sp_lists(c)
    if len(cub) != len(cts):
        raise Violation("stride_pattern:canonicalize:bounds-strides-length-mismatch", dict(ub=cub, ts=cts))
    if css != ss:
        raise Violation("stride_pattern:canonicalize:spatial-strides-changed", dict(ss=css))
    before = G.temporal_sequence(ub, ts)
    after = G.temporal_sequence(cub, cts)
    if before.shape != after.shape or not np.array_equal(before, after):
        if before.shape == after.shape and np.array_equal(np.sort(before), np.sort(after)):
            kind = "same-set-different-order"
        elif before.shape != after.shape:
            kind = "different-length"
        else:
            kind = "different-addresses"
        raise Violation(f"stride_pattern:canonicalize:address-sequence-differs:{kind}", dict(canon_ub=cub, canon_ts=cts,
                        before=before[:16].tolist(), after=after[:16].tolist()))
    with _guard("stride_pattern:canonicalize"):
        c2 = c.canonicalize()
    if c2 != c:
        raise Violation("stride_pattern:canonicalize:not-idempotent", dict(once=[cub, cts], twice=list(_sp_lists(c2)[:2])))
    for a, tag in ((p, "input"), (c, "canonical")):
        text, back = _roundtrip(a, "stride_pattern")
        if back != a:
            raise Violation("stride_pattern:print-parse-differs", dict(text=text, back=_print_attr(back) if isinstance(back, StridePattern) else repr(back)))
    changed = (cub, cts) != (ub, ts)
    classes = [f"tdims:{len(ub)}", "changed" if changed else "unchanged"]
    if 0 in ub:
        classes.append("zero-bound")
    if 1 in ub:
        classes.append("unit-bound")
    if 0 in ts:
        classes.append("zero-stride")
    if 0 in ss:
        classes.append("zero-spatial(passthrough)")
    nz = [u for u in ub if u > 1]
    if changed and 0 not in ub and len(cub) < len(nz):
        classes.append("merged")
    if any(t < 0 for t in ts):
        classes.append("negative-stride")
    return Info(nontrivial=changed, classes=tuple(classes), evals=1, sample=dict(canonical=[cub, cts, css]))


# =====================================================================================
# 5. pack_bitlist


def _interp(ops, env, w):
    """Tiny evaluator for the arith ops pack_bitlist emits, at width w (wrap modulo 2^w)."""
    mask = (1 << w) - 1
    ty = IntegerType(w)
    for op in ops:
        try:
            op.verify()
        except VerifyException as ex:
            raise Violation("pack_bitlist:emitted-op-does-not-verify", dict(op=op.name, error=str(ex)[:200]))
        if isinstance(op, arith.ConstantOp):
            if op.result.type != ty or not isinstance(op.value, IntegerAttr):
                raise HarnessError("pack_bitlist evaluator: constant of another width (not a violation: extend the evaluator)")
            env[op.result] = op.value.value.data & mask
            continue
        if len(op.operands) != 2 or len(op.results) != 1:
            raise HarnessError(f"pack_bitlist evaluator: no semantics for op {op.name} (not a violation: extend the evaluator)")
        for v in op.operands:
            if v not in env:
                raise Violation("pack_bitlist:operand-not-defined-before-use", dict(op=op.name))
        a, b = env[op.operands[0]], env[op.operands[1]]
        if op.results[0].type != ty:
            if op is ops[-1]:
                raise Violation("pack_bitlist:result-of-wrong-type", dict(op=op.name, type=str(op.results[0].type)))
            raise HarnessError("pack_bitlist evaluator: intermediate value of another width (not a violation: extend the evaluator)")
        if isinstance(op, arith.ShLIOp):
            if b >= w:
                raise Violation("pack_bitlist:shift-amount-not-below-width", dict(shift=b))
            v = (a << b) & mask
        elif isinstance(op, arith.ShRUIOp):
            if b >= w:
                raise Violation("pack_bitlist:shift-amount-not-below-width", dict(shift=b))
            v = a >> b
        elif isinstance(op, arith.OrIOp):
            v = a | b
        elif isinstance(op, arith.AndIOp):
            v = a & b
        elif isinstance(op, arith.XOrIOp):
            v = a ^ b
        elif isinstance(op, arith.AddiOp):
            v = (a + b) & mask
        else:
            raise HarnessError(f"pack_bitlist evaluator: no semantics for op {op.name} (not a violation: extend the evaluator)")
        env[op.results[0]] = v
    return env


def prop_pack(r):
    w = r["w"]
    mask = (1 << w) - 1
    ty = IntegerType(w)
    block = Block(arg_types=[ty] * len(r["args"]))
    env = {}
    given = []  # what is handed to pack_bitlist for each arg index (SSAValue or Operation)
    kinds = {}
    for f in r["fields"]:
        for key in ("v", "o"):
            if f[key][0] in ("arg", "op"):
                kinds.setdefault(f[key][1], f[key][0])
    for i, val in enumerate(r["args"]):
        if kinds.get(i) == "op":
            op = arith.ConstantOp.from_int_and_width(int(val), w)
            env[op.result] = int(val) & mask
            given.append(op)
        else:
            env[block.args[i]] = int(val) & mask
            given.append(block.args[i])
    values, offsets, want = [], [], 0
    concrete = []
    for f in r["fields"]:
        if f["v"][0] == "int":
            values.append(int(f["v"][1]))
            v = int(f["v"][1]) & mask
        else:
            values.append(given[f["v"][1]])
            v = int(r["args"][f["v"][1]]) & mask
        if f["o"][0] == "int":
            offsets.append(int(f["o"][1]))
            o = int(f["o"][1])
        else:
            offsets.append(given[f["o"][1]])
            o = int(r["args"][f["o"][1]])
        if not (0 <= o < w):
            raise Outside("offsets are below the word width")
        if f["v"][0] == "int" and not (-(1 << (w - 1)) <= int(f["v"][1]) <= mask):
            raise Outside("integer values fit the word")
        concrete.append((v, o, f.get("width")))
        want |= (v << o) & mask
    if not values:
        raise Outside("at least one field")
    with _guard("pack_bitlist"):
        # width 32 is also the default `dtype`: use the default for even field counts (gemmx calls it that way)
        ops = list(pack_bitlist(values, offsets) if (w == 32 and len(values) % 2 == 0) else pack_bitlist(values, offsets, w))
    if not ops or len(ops[-1].results) != 1:
        raise Violation("pack_bitlist:no-result-op", dict(n=len(ops)))
    env = _interp(ops, env, w)
    got = env[ops[-1].results[0]]
    if got != want:
        raise Violation("pack_bitlist:word-differs-from-or-of-shifted-values",
                        dict(fields=[(v, o) for v, o, _ in concrete], want=hex(want), got=hex(got), w=w))
    # every yielded op feeds the result (nothing else is emitted) and ops are detached (callers insert them)
    recover = r["layout"] == "packed" and all(wd is not None for _, _, wd in concrete)
    if recover:
        for v, o, wd in concrete:
            if (got >> o) & ((1 << wd) - 1) != v:
                raise Violation("pack_bitlist:field-not-recoverable", dict(field=(v, o, wd), got=hex(got)))
    nf = len(values)
    classes = [f"w:{w}", f"fields:{nf if nf < 5 else '5+'}", f"layout:{'packed' if recover else 'free'}",
               "ssa-values" if any(f["v"][0] != "int" for f in r["fields"]) else "int-values-only"]
    if any(f["o"][0] != "int" for f in r["fields"]):
        classes.append("ssa-offsets")
    if any(f["v"][0] == "op" for f in r["fields"]):
        classes.append("operation-inputs")
    if any(f["v"][0] == "int" and f["v"][1] < 0 for f in r["fields"]):
        classes.append("negative-int")
    if any(o >= 32 for _, o, _ in concrete):
        classes.append("offset>=32")
    return Info(nontrivial=nf >= 2, classes=tuple(classes), evals=1)


# =====================================================================================
# 6. StreamerConfigurationAttr print / parse


def _describe(cfg: StreamerConfiguration):
    return dict(system=str(cfg.streamers_system_type.value),
                streamers=[dict(type=str(s.type.value), temp=[str(f.value) for f in s.temporal_dims], spat=[int(d) for d in s.spatial_dims],
                                opts=[o.name for o in s.opts], opt_classes=[type(o).__name__ for o in s.opts]) for s in cfg.streamers])


SYS_LOST = "streamer_config:print-parse:system-type-xdma-parses-back-as-reg"


def _own_opt_table():
    """Option classes by their textual name, written down here (not taken from STREAMER_OPT_MAP, which the parser under test uses)."""
    from snaxc.accelerators.streamers import extensions as E
    from snaxc.accelerators.streamers import streamers as SS

    table = {"b": SS.HasBroadcast, "bm": SS.HasByteMask, "c": SS.HasChannelMask, "a": SS.HasAddressRemap, "maxpool_ext": E.MaxPoolExtension,
             "memset_ext": E.MemSetExtension, "t": E.TransposeExtension, "add_ext": E.AddExtension, "add_ext_long": E.AddLongExtension,
             "rescale_down_ext": E.RescaleDownExtension, "rescale_up_ext": E.RescaleUpExtension}
    for k, cls in table.items():
        if cls().name != k:
            raise HarnessError(f"option table of the harness is stale: {cls.__name__}.name is {cls().name!r}, not {k!r}")
    return table


_OWN_OPTS: dict = {}


def prop_streamer(r):
    if not _OWN_OPTS:
        _OWN_OPTS.update(_own_opt_table())
    streamers = []
    for s in r["streamers"]:
        for o in s["opts"]:
            if o not in _OWN_OPTS:
                raise Outside(f"unknown option {o}")
        streamers.append(Streamer(StreamerType(s["type"]), list(s["temp"]), list(s["spat"]), [_OWN_OPTS[o]() for o in s["opts"]]))
    cfg = StreamerConfiguration(streamers, StreamerSystemType(r["system"]))
    attr = StreamerConfigurationAttr(cfg)
    text, back = _roundtrip(attr, "streamer_config")
    if not isinstance(back, StreamerConfigurationAttr) or not isinstance(back.data, StreamerConfiguration):
        raise Violation("streamer_config:print-parse:not-a-streamer-config", dict(text=text, back=repr(back)[:200]))
    a, b = _describe(cfg), _describe(back.data)
    known = []
    if len(a["streamers"]) != len(b["streamers"]):
        raise Violation("streamer_config:print-parse:streamer-count-differs", dict(text=text, back=b))
    for i, (sa, sb) in enumerate(zip(a["streamers"], b["streamers"])):
        for key in ("type", "temp", "spat", "opts", "opt_classes"):
            if sa[key] != sb[key]:
                raise Violation(f"streamer_config:print-parse:{key}-differs", dict(text=text, streamer=i, want=sa[key], got=sb[key]))
    if a["system"] != b["system"]:
        if a["system"] == "xdma" and b["system"] == "reg":
            known.append((SYS_LOST, dict(text=text, want="xdma", got="reg")))
        else:
            raise Violation("streamer_config:print-parse:system-type-differs", dict(text=text, want=a["system"], got=b["system"]))
    # printing the re-parsed attribute gives the same text (the text is a fixed point)
    text2 = _print_attr(back)
    if text2 != text:
        raise Violation("streamer_config:print-parse-print-differs", dict(first=text, second=text2))
    nopts = sum(len(s["opts"]) for s in r["streamers"])
    classes = [f"system:{r['system']}", f"streamers:{len(streamers)}", "opts:" + ("0" if nopts == 0 else "1" if nopts == 1 else "2+")]
    if any(not s["temp"] for s in r["streamers"]):
        classes.append("empty-temporal")
    if any(not s["spat"] for s in r["streamers"]):
        classes.append("empty-spatial")
    return Info(nontrivial=bool(len(streamers) >= 2 or nopts >= 1), classes=tuple(classes), evals=1, known=known,
                sample=dict(text=text))


# =====================================================================================

SUBS = [
    Sub("canon_expr", lambda tier: G.canon_recipe(tier), prop_canon,
        budget=dict(quick=16000, thorough=600000), floor=dict(quick=1800, thorough=80000),
        exhaustive=G.exhaustive_canon,
        nontrivial_rule="the canonical form of at least one result differs syntactically from the input expression"),
    Sub("affine_transform", lambda tier: G.transform_recipe(tier), prop_transform,
        budget=dict(quick=5000, thorough=180000), floor=dict(quick=550, thorough=20000),
        nontrivial_rule=">= 2 dims and >= 2 results"),
    Sub("access_pattern", lambda tier: G.access_recipe(tier), prop_access,
        budget=dict(quick=5000, thorough=180000), floor=dict(quick=900, thorough=33000),
        nontrivial_rule="canonicalize removed at least one dim, or inner_dims dropped at least one dim"),
    Sub("stride_pattern", lambda tier: G.stride_recipe(tier), prop_stride,
        budget=dict(quick=6000, thorough=250000), floor=dict(quick=750, thorough=36000),
        exhaustive=G.exhaustive_stride,
        nontrivial_rule="the canonical pattern differs from the input pattern"),
    Sub("pack_bitlist", lambda tier: G.pack_recipe(tier), prop_pack,
        budget=dict(quick=5000, thorough=180000), floor=dict(quick=780, thorough=28000),
        nontrivial_rule=">= 2 fields"),
    Sub("streamer_config", lambda tier: G.streamer_recipe(tier), prop_streamer,
        budget=dict(quick=3000, thorough=100000), floor=dict(quick=2500, thorough=20000),
        exhaustive=G.exhaustive_streamer,
        nontrivial_rule=">= 2 streamers or >= 1 option"),
]
