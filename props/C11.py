"""C11 Allocations are big enough and never overlap while live.

(a) size_formula: memref.alloc -> `memref-to-snax` -> the emitted size computation is executed (vlib/interp.py + a tiny machine)
    with the run-time sizes and compared with the highest byte the layout can touch, (max_idx addr(idx) + 1) * element size,
    addr being C10's reference (vlib.gen_tsl.addr, offset included, in elements).
(b) placement: generated allocation programs -> `snax-allocate{mode=static|minimalloc|auto}` (minimalloc = greedy stand-in
    solver, DESIGN 1.2) -> every buffer's address is read back from the llvm.inttoptr constant in the emitted descriptor and
    checked for alignment, memory window, disjointness while live (liveness computed on the recipe, through views, casts,
    nested regions and region results) and dealloc placement.
"""
from __future__ import annotations

import re

from hypothesis import strategies as st  # noqa: F401

from vlib import gen_c11 as GC
from vlib import gen_tsl as G
from vlib.ctx import fresh_ctx, parse, run_pass, to_text
from vlib.interp import Interp, InterpError, dominance_errors
from vlib.machines import Machine
from vlib.runner import HarnessError, Info, Outside, Reject, Sub, Violation  # noqa: F401

from xdsl.dialects import arith, llvm
from xdsl.dialects.builtin import IntegerAttr, StringAttr

from snaxc.util.snax_memory import SnaxMemory

ID = "C11"
RULE = (
    "(a) size_formula: 1-2 memref.alloc ops with element type i8/i16/i32/i64/f32 (rarely i1/f16/f64), alignment absent/1/2/8/64/256/4096, memory space L1 "
    "(rarely L3/none), and either no layout (rank 0-4, static and dynamic dims) or a tiled-strided layout from C10's generators "
    "(one-to-one with gaps, arbitrary with repeated steps and unit bounds, offsets, depth <= 3, rank <= 4, <= 4096 elements; dynamic "
    "family with run-time outer bounds 1..6); dynamic sizes reach the alloc as test.op results, constants, memref.dim of an argument or "
    "(rarely) block arguments. memref-to-snax is applied and the function is executed; the value of the snax.alloc size operand must be "
    ">= (max over all indices of the reference address + 1) * element size; all static layouts of rank <= 2, depth <= 2, bounds <= 2, "
    "steps <= 3 (thorough: bounds <= 3, steps <= 4) are enumerated in addition. Non-trivial: the layout has a gap, an offset or is dynamic. "
    "(b) placement: one function with 3-15 top-level statements: snax.alloc (constant size incl. exact-fill/over-fill of the memory, "
    "alignment from {1,8,64,256} mostly, also 3/10/14/0/absent, memory L1 or Test) followed by the unrealized cast memref-to-snax emits, "
    "views (memref.subview, snax.layout_cast, memref.memory_space_cast, memref->memref unrealized casts, chains), opaque test.op uses at "
    "top level and nested in scf.for/scf.if (depth <= 3), memref-valued scf.if results, values merged from two buffers of equal type "
    "(arith.select / scf.if yielding buffer A or a view of it on one path and buffer B on the other; a ping-pong pattern a, b like a, "
    "merge, c like a, late/nested uses of the merged value is spliced into 1 of 4 cases), late uses through views, optionally returning a "
    "buffer; memory descriptions (real L1/Test or generated start/capacity, also starts that are not multiples of the alignments) are "
    "registered on a private AccContext; modes static, minimalloc, auto; the allocated memref has no layout or a gapped tiled-strided "
    "layout with offset (size = bytes the layout needs); in 1 of 6 cases the allocs are written as memref.alloc and go through "
    "memref-to-snax + canonicalize first. Addresses are read back from the emitted descriptors. "
    "Non-trivial: at least two buffers of one memory with intersecting true lifetimes and at least one buffer whose last use is through a "
    "view or nested in control flow; distinct by recipe hash."
)
ASSUMPTIONS = [
    "xDSL 0.70 compatibility shim (vlib/compat.py)",
    "the `minimalloc` solver is replaced by the greedy first-fit stand-in vlib/stubs/minimalloc (half-open lifetimes, offsets are "
    "multiples of the alignment, relative to the memory start); what is checked is what snax-mlir tells the solver and does with the "
    "answer, not the solver (its answers are self-checked against the lifetimes it was handed; a wrong answer is a harness error)",
    "layout reference: vlib.gen_tsl.addr / instantiate (README semantics; the layout offset counts elements, as memref-to-snax and "
    "snax-copy-to-dma both multiply it by the element size)",
    "liveness reference: a buffer is live from its snax.alloc to the last top-level statement in which an opaque op (or the return) "
    "uses the buffer or any value derived from it by view ops / casts / memref-valued region results / arith.select, at any nesting "
    "depth (a value merged from two buffers keeps BOTH alive); creating a view is not by itself an access",
    "arith ops emitted by memref-to-snax are executed by vlib/interp.py (index = 64 bit two's complement)",
]

_CTX = []


def _ctx():
    """A private AccContext (never the shared one: generated memory descriptions are registered on it)."""
    if not _CTX:
        _CTX.append(fresh_ctx())
    return _CTX[0]


# ================================================================================================
# (a) size formula


class _SizeMachine(Machine):
    def __init__(self):
        self.allocs = []  # dict(size, shapes, op)
        self.seen = {}  # alloc index -> run-time value reaching the tagged test.op

    def exec(self, op, operands, env):
        n = op.name
        if n == "test.op":
            if "c11.rt" in op.attributes:
                return [op.attributes["c11.rt"].value.data]
            if "c11.alloc" in op.attributes:
                self.seen[op.attributes["c11.alloc"].value.data] = operands[0]
            return [0 for _ in op.results]
        if n == "memref.dim":
            src, idx = operands
            return [src["shape"][idx]]
        if n == "snax.alloc":
            self.allocs.append(dict(size=operands[0], shapes=list(operands[1:]), op=op))
            return [("snax", len(self.allocs) - 1)]
        if n == "builtin.unrealized_conversion_cast":
            return [operands[0]]
        if n == "memref.alloc":
            return [("memref", op)]
        return NotImplemented


def _needed_elems(a, rt_shape):
    """Candidate values of (max address + 1) in elements, one per documented reading of the layout (ties on the largest
    static step are not decided by the documentation), plus class tags."""
    tags = []
    if a["kind"] == "none":
        p = 1
        for s in rt_shape:
            p *= s
        return [p], ["layout:none"] + (["dyn-shape"] if any(a["dyn"]) else [])
    r = a["layout"]
    if not G.is_dynamic(r):
        tags.append("layout:tsl-static")
        return [int(G.all_addrs(r).max()) + 1], tags
    tags.append("layout:tsl-dynamic")
    cands, best = G.static_max_candidates(r)
    rt_b = [dim[0][1] if dim[0][1] is not None else a["rt"][d] for d, dim in enumerate(r["dims"])]
    if not cands:
        tags.append("all-dynamic")
        starts = [1]
    else:
        starts = sorted({best * (r["dims"][d][k][1] if r["dims"][d][k][1] is not None else rt_b[d]) for d, k in cands})
        if len(starts) > 1:
            tags.append("max-step-tie-ambiguous")
    out = []
    for s in starts:
        inst = G.instantiate(r, rt_b, start=s)
        out.append(int(G.all_addrs(inst).max()) + 1)
    return out, tags


def prop_size(r):
    built = GC.build_size(r)
    ctx = _ctx()
    mod = parse(built.text, ctx)
    mod.verify()
    has_arg_src = any(t is None and a["src"][d % len(a["src"])] == "arg"
                      for a, b in zip(r["allocs"], built.allocs) for d, t in enumerate(b["ty_shape"]))
    try:
        run_pass(mod, "memref-to-snax", ctx=ctx)
    except NotImplementedError as e:
        raise Reject(f"memref-to-snax: NotImplementedError {str(e)[:60]}")
    except AssertionError as e:
        if has_arg_src:
            raise Reject("memref-to-snax asserts that a dynamic size is an op result (block argument given)")
        raise Violation("size:pass-raises:AssertionError", dict(error=repr(e)[:300], before=built.text))
    except Exception as e:  # noqa: BLE001
        raise Violation(f"size:pass-raises:{type(e).__name__}", dict(error=repr(e)[:300], before=built.text))
    try:
        mod.verify()
    except Exception as e:  # noqa: BLE001
        raise Violation("size:invalid-ir-after-pass", dict(error=repr(e)[:300], before=built.text))
    dom = dominance_errors(mod)
    if dom:
        raise Violation("size:use-before-def-after-pass", dict(errors=dom[:3], before=built.text, after=to_text(mod)))
    m = _SizeMachine()
    try:
        Interp(mod, m).call("f", built.args)
    except InterpError as e:
        raise Violation("size:emitted-computation-not-executable", dict(error=str(e), before=built.text, after=to_text(mod)))
    cls = []
    nontrivial = False
    known = []
    for ai, (a, b) in enumerate(zip(r["allocs"], built.allocs)):
        got = m.seen.get(ai)
        el = GC.ELSIZE[a["elt"]]
        if not (isinstance(got, tuple) and got[0] == "snax"):
            if a["space"] == "L1":
                raise Reject("L1 alloc left unconverted by memref-to-snax")
            cls.append("space:not-L1-untouched")
            continue
        rec = m.allocs[got[1]]
        op = rec["op"]
        cands, tags = _needed_elems(a, b["rt_shape"])
        size = rec["size"]
        detail = dict(alloc=ai, type=b["type"], rt_shape=b["rt_shape"], elsize=el, size=size,
                      needed_bytes=[c * el for c in cands], before=built.text, after=to_text(mod))
        lay_cls = tags[0].split(":")[1] + (":all-dynamic" if "all-dynamic" in tags else "")
        if not any(size >= c * el for c in cands):
            off = a["layout"].get("offset", 0) if a["kind"] == "tsl" else 0
            if "all-dynamic" in tags and size == el * (1 + off):
                known.append(("size:too-small:tsl-all-dynamic:every-step-zero", detail))
            else:
                raise Violation(f"size:too-small:{lay_cls}", detail)
        # the shape operands become the sizes of the descriptor (create_memref_struct)
        if rec["shapes"] != list(b["rt_shape"]):
            raise Violation("size:shape-operands-differ-from-run-time-shape", dict(detail, shapes=rec["shapes"]))
        al = op.alignment.value.data if op.alignment is not None else None
        if a["align"]:
            if al != a["align"]:
                raise Violation("size:alignment-not-propagated", dict(detail, got=al, expected=a["align"]))
        if op.memory_space != StringAttr("L1"):
            raise Violation("size:memory-space-not-propagated", dict(detail, got=str(op.memory_space)))
        need = min(c * el for c in cands)
        cls += tags + [f"el:{el}", "tight" if size == need else ("slack" if size > need else "short")]
        cls.append(f"align:{a['align']}")
        if a["kind"] == "tsl":
            lr = a["layout"]
            cls += [f"rank:{len(lr['dims'])}", f"depth:{G.max_depth(lr)}", f"fam:{a.get('fam')}"]
            if lr.get("offset"):
                cls.append("offset")
            if any(bd == 1 for d in lr["dims"] for _, bd in d):
                cls.append("unit-bound")
            gap = G.is_dynamic(lr) or not G.ref_dense(lr)
            if gap and not G.is_dynamic(lr):
                cls.append("gap")
            if gap or lr.get("offset"):
                nontrivial = True
            if size > 4 * need + 64:
                cls.append("size-over-4x-needed")
        else:
            if any(a["dyn"]):
                nontrivial = True
        for d, t in enumerate(b["ty_shape"]):
            if t is None:
                cls.append("dynsrc:" + a["src"][d % len(a["src"])])
    return Info(nontrivial=nontrivial, classes=tuple(sorted(set(cls))), known=known, evals=len(r["allocs"]),
                sample=dict(before=built.text))


# ================================================================================================
# (b) placement

_REC: list = []


def _install_recorder():
    """Record what the pass hands to the (stand-in) solver and what it gets back; used to self-check the stand-in and to
    explain violations. Only when the stand-in is the solver in use."""
    import snaxc.transforms.snax_allocate as SA

    base = SA.Problem
    if getattr(base, "_c11_rec", False) or getattr(base, "__module__", "") != "minimalloc" or not hasattr(base, "solve"):
        return

    class _RecProblem(base):
        _c11_rec = True

        def solve(self):
            sol = super().solve()
            _REC.append(dict(buffers=[(b.start_time, b.end_time, b.size, b.alignment) for b in self.buffers],
                             capacity=self.capacity, solution=list(sol)))
            return sol

    SA.Problem = _RecProblem


def _selfcheck_solver(rec):
    bs, sol, cap = rec["buffers"], rec["solution"], rec["capacity"]
    for i, (s, e, sz, al) in enumerate(bs):
        if sol[i] % max(1, al or 1) != 0 or sol[i] < 0 or sol[i] + sz > cap:
            raise HarnessError(f"stand-in solver answer invalid for buffer {i}: {rec}")
        for j in range(i):
            s2, e2, sz2, _ = bs[j]
            if s < e2 and s2 < e and sol[i] < sol[j] + sz2 and sol[j] < sol[i] + sz:
                raise HarnessError(f"stand-in solver overlapped buffers {j},{i} that it was told are live together: {rec}")


def _fields(cast_op):
    """position -> inserted SSA value of the llvm struct feeding the memref cast; None if it is not an insertvalue chain on undef."""
    v = cast_op.operands[0]
    op = v.owner
    out = {}
    n = 0
    while isinstance(op, llvm.InsertValueOp):
        pos = tuple(op.position.iter_values())
        out.setdefault(pos, op.value)
        op = op.container.owner
        n += 1
        if n > 64:
            return None
    if not isinstance(op, llvm.UndefOp):
        return None
    return out


def _const_of(v):
    op = v.owner
    if isinstance(op, arith.ConstantOp):
        return op.value.value.data
    return None


def _address(ptr):
    """Unsigned value of the constant behind an llvm.inttoptr, or None."""
    op = ptr.owner
    if not isinstance(op, llvm.IntToPtrOp):
        return None
    c = _const_of(op.input)
    if c is None:
        return None
    w = op.input.type.width.data
    return c & ((1 << w) - 1)


def _top_level(op, func):
    while op.parent_op() is not func:
        op = op.parent_op()
        if op is None:
            return None
    return op


_VIEW_OPS = ("memref.subview", "snax.layout_cast", "memref.memory_space_cast", "builtin.unrealized_conversion_cast")

_FULL = re.compile(r"Memory space (\S+) is full, cannot allocate (\d+) bytes")


_KNOWN: list = []


def _known_signatures():
    """Signatures listed as known findings (read once per process). A case may show several mismatches; the first one that is
    not listed is raised, the listed ones are reported through Info.known so the search continues past them."""
    if not _KNOWN:
        from vlib.runner import load_known

        _KNOWN.append(set(load_known(ID)))
    return _KNOWN[0]


def _static_sim(bufs, sizes, mems):
    """Bump allocation in program order (the documented static scheme): ("ok", {k: addr}) or ("full", first k that does not fit)."""
    bump = {n: m["start"] for n, m in mems.items()}
    addrs = {}
    for b in bufs:
        if b["dyn"]:
            continue
        m = mems[b["mem"]]
        a0 = GC.align_up(bump[b["mem"]], b["align"])
        if a0 + sizes[b["k"]] > m["start"] + m["cap"]:
            return "full", b["k"]
        addrs[b["k"]] = a0
        bump[b["mem"]] = a0 + sizes[b["k"]]
    return "ok", addrs


def prop_place(r):
    _install_recorder()
    built = GC.build_place(r)
    mode = r["mode"]
    mech = "static" if mode == "static" else "minimalloc"
    ctx = _ctx()
    for mdesc in r["mems"]:
        ctx.register_memory(SnaxMemory(StringAttr(mdesc["name"]), capacity=mdesc["cap"], start=mdesc["start"]))
    mems = {mdesc["name"]: mdesc for mdesc in r["mems"]}
    mod = parse(built.text, ctx)
    mod.verify()
    func = next(o for o in mod.body.block.ops if o.name == "func.func")
    bufs = built.bufs
    nb = len(bufs)
    any_dyn = any(b["dyn"] for b in bufs)
    text_before = built.text
    front = bool(r.get("front"))
    if front:
        # the order snaxc uses: memref-to-snax, canonicalize (folds the size computation to a constant), snax-allocate
        try:
            run_pass(mod, "memref-to-snax", ctx=ctx)
            mod.verify()
        except Exception as e:  # noqa: BLE001
            raise Violation(f"pipeline:memref-to-snax-raises:{type(e).__name__}", dict(error=repr(e)[:300], before=text_before))
        allocs = [o for o in func.body.block.ops if o.name == "snax.alloc"]
        if len(allocs) != nb:
            raise Reject("pipeline: memref-to-snax did not convert every alloc")
        for k, a in enumerate(allocs):
            next(iter(a.results[0].uses)).operation.attributes["c11.buf"] = IntegerAttr(k, 64)
        try:
            run_pass(mod, "canonicalize", ctx=ctx)
            mod.verify()
        except Exception as e:  # noqa: BLE001  (xDSL's pass, not under test)
            raise Reject(f"pipeline: canonicalize raised {type(e).__name__}")
    casts = {}
    size_vals = {}
    for op in func.body.block.ops:
        if op.name == "builtin.unrealized_conversion_cast" and "c11.buf" in op.attributes:
            k = op.attributes["c11.buf"].value.data
            casts[k] = op
            size_vals[k] = op.operands[0].owner.operands[0]
    exp_kind, exp_val = built.static_expect
    asked = {b["k"]: b["size"] for b in bufs}  # bytes asked from the allocator (front mode: what memref-to-snax computed)
    if front:
        if len(casts) != nb:
            raise Reject("pipeline: canonicalize removed the cast of an unused buffer")
        for b in bufs:
            c = _const_of(size_vals[b["k"]])
            if c is None:
                raise Reject("pipeline: size computation not folded to a constant")
            if c < b["size"]:
                raise Violation("pipeline:folded-size-smaller-than-the-layout-needs",
                                dict(buffer=b["k"], folded=c, needed=b["size"], before=text_before, after=to_text(mod)))
            asked[b["k"]] = c
        exp_kind, exp_val = _static_sim(bufs, asked, {mdesc["name"]: mdesc for mdesc in r["mems"]})

    # ---- reference liveness (recipe level)
    n_t = built.n_stmts  # index of the terminator
    last_true = [GC.last_index(built.access, b["k"], None) for b in bufs]
    # What the pass can see on the IR it is handed (only used to give violations a narrow signature, never to decide them):
    # position of the last top-level op using the buffer's own cast (`direct`), or the cast or a value derived from it through
    # view ops (`views`). In front mode canonicalize may have erased dead views, so this is read from the IR, not the recipe.
    ops0 = list(func.body.block.ops)
    pos0 = {id(o): i for i, o in enumerate(ops0)}
    stmt_pos0 = {o.attributes["c11.stmt"].value.data: pos0[id(o)] for o in ops0 if "c11.stmt" in o.attributes}
    stmt_pos0[n_t] = len(ops0) - 1

    def _reach(k, follow):
        end = pos0[id(casts[k])]
        work = [casts[k].results[0]]
        seen = set()
        while work:
            v = work.pop()
            for u in v.uses:
                end = max(end, pos0[id(_top_level(u.operation, func))])
                if follow and u.operation.name in _VIEW_OPS:
                    for res in u.operation.results:
                        if id(res) not in seen:
                            seen.add(id(res))
                            work.append(res)
        return end

    alloc_p = [pos0[id(casts[b["k"]])] for b in bufs]
    direct_p = [_reach(b["k"], False) for b in bufs]
    views_p = [_reach(b["k"], True) for b in bufs]
    if front and any(last_true[b["k"]] is not None and last_true[b["k"]] not in stmt_pos0 for b in bufs):
        raise Reject("pipeline: canonicalize rewrote a tagged statement")
    true_p = [None if last_true[b["k"]] is None else stmt_pos0[last_true[b["k"]]] for b in bufs]

    def live_pairs():
        out = []
        for i in range(nb):
            for j in range(i):
                if bufs[i]["mem"] != bufs[j]["mem"] or last_true[i] is None or last_true[j] is None:
                    continue
                if bufs[i]["stmt"] <= last_true[j] and bufs[j]["stmt"] <= last_true[i]:
                    out.append((j, i))
        return out

    pairs = live_pairs()

    # ---- what static mode must do with alignment 0 / absent, and when it must refuse
    zero_al = [b["k"] for b in bufs if not b["align"]]

    _REC.clear()
    raised_full = None
    try:
        run_pass(mod, "snax-allocate", ctx=ctx, mode=mode)
    except RuntimeError as e:
        msg = str(e)
        mfull = _FULL.search(msg)
        if mfull:
            raised_full = (mfull.group(1), int(mfull.group(2)))
        elif "minimalloc stub: no solution" in msg:
            raise Reject("stand-in solver: no solution within capacity")
        elif "statically known size" in msg:
            raise Reject("documented refusal: static allocations need a constant size")
        else:
            raise Violation(f"placement:{mech}:pass-raises:RuntimeError", dict(error=msg[:300], before=text_before))
    except ZeroDivisionError as e:
        if mode == "static" and zero_al:
            raise Violation("placement:static:alignment-0-or-absent:raises:ZeroDivisionError",
                            dict(error=repr(e), buffers=zero_al, before=text_before))
        raise Violation(f"placement:{mech}:pass-raises:ZeroDivisionError", dict(error=repr(e), before=text_before))
    except AssertionError as e:
        if any_dyn and zero_al:
            raise Reject("dynamic allocation asserts that the alignment attribute is present")
        raise Violation(f"placement:{mech}:pass-raises:AssertionError", dict(error=repr(e)[:300], before=text_before))
    except Exception as e:  # noqa: BLE001
        raise Violation(f"placement:{mech}:pass-raises:{type(e).__name__}", dict(error=repr(e)[:300], before=text_before))
    for rec in _REC:
        _selfcheck_solver(rec)

    base_cls = [f"mode:{mode}", f"bufs:{min(nb, 6)}"] + sorted(built.features)
    for mdesc, dflt in zip(r["mems"], GC.DEFAULT_MEMS):
        if mdesc != dflt:
            base_cls.append("mem:generated")
            if any(mdesc["start"] % a for a in GC.ALIGNS):
                base_cls.append("mem:start-unaligned")

    if front:
        base_cls.append("front:memref-to-snax+canonicalize")
    # ---- static mode: the documented refusal must happen exactly when the bump allocation does not fit
    if mode == "static" and not any_dyn:
        if raised_full is not None:
            if exp_kind != "full":
                raise Violation("placement:static:memory-full-reported-but-bump-allocation-fits",
                                dict(raised=raised_full, expected_addresses=exp_val, mems=r["mems"], before=text_before))
            b = bufs[exp_val]
            if raised_full != (b["mem"], asked[exp_val]):
                raise Violation("placement:static:memory-full-reported-for-another-buffer",
                                dict(raised=raised_full, expected=(b["mem"], asked[exp_val]), before=text_before))
            return Info(nontrivial=False, classes=tuple(base_cls + ["static:memory-full-refusal"]))
        if exp_kind == "full":
            b = bufs[exp_val]
            raise Violation("placement:static:memory-full-not-reported",
                            dict(buffer=exp_val, mem=mems[b["mem"]], size=b["size"], before=text_before, after=to_text(mod)))
    elif raised_full is not None:
        raise Violation(f"placement:{mech}:unexpected-memory-full-error", dict(raised=raised_full, before=text_before))

    try:
        mod.verify()
    except Exception as e:  # noqa: BLE001
        raise Violation(f"placement:{mech}:invalid-ir-after-pass", dict(error=repr(e)[:300], before=text_before))
    dom = dominance_errors(mod)
    if dom:
        raise Violation(f"placement:{mech}:use-before-def-after-pass", dict(errors=dom[:3], before=text_before, after=to_text(mod)))
    text_after = None

    def after():
        nonlocal text_after
        if text_after is None:
            text_after = to_text(mod)
        return text_after

    # ---- auto mode with a non-constant size: everything goes to the run-time allocator
    if mode == "auto" and any_dyn:
        for b in bufs:
            k = b["k"]
            f = _fields(casts[k])
            if b["mem"] != "L1":
                continue  # DynamicAllocs documents L1 only
            ok = False
            if f is not None and (0,) in f and (1,) in f:
                ev = f[(0,)].owner
                if isinstance(ev, llvm.ExtractValueOp) and isinstance(ev.container.owner, llvm.LoadOp):
                    call = ev.container.owner.ptr.owner
                    if call.name == "func.call" and call.callee.root_reference.data == "snax_alloc_l1":
                        ok = call.operands[0] is size_vals[k] and _const_of(call.operands[1]) == b["align"]
            if not ok:
                raise Violation("placement:auto-dynamic:runtime-allocator-call-does-not-get-size-and-alignment",
                                dict(buffer=k, before=text_before, after=after()))
        return Info(nontrivial=False, classes=tuple(base_cls + ["auto:dynamic-branch"]))

    # ---- read back the placement
    addr = {}
    for b in bufs:
        k = b["k"]
        f = _fields(casts[k])
        if f is None or (0,) not in f:
            raise Violation(f"placement:{mech}:alloc-left-without-descriptor", dict(buffer=k, before=text_before, after=after()))
        a0 = _address(f[(0,)])
        if a0 is None:
            raise Violation(f"placement:{mech}:pointer-is-not-a-constant-address", dict(buffer=k, before=text_before, after=after()))
        addr[k] = a0
        # create_memref_struct: aligned pointer = pointer, offset 0, sizes = shape operands
        if (1,) not in f or f[(1,)] is not f[(0,)]:
            raise Violation("placement:descriptor:aligned-pointer-differs-from-pointer", dict(buffer=k, after=after()))
        if (2,) not in f or _const_of(f[(2,)]) != 0:
            raise Violation("placement:descriptor:offset-field-not-zero", dict(buffer=k, after=after()))
        for d, e in enumerate(b["shape"]):
            sv = f.get((3, d))
            src = sv.owner.operands[0] if sv is not None and sv.owner.name == "builtin.unrealized_conversion_cast" else sv
            if sv is None or _const_of(src) != e:
                raise Violation("placement:descriptor:size-field-differs-from-shape-operand", dict(buffer=k, dim=d, after=after()))

    placement = [dict(buffer=b["k"], mem=b["mem"], addr=addr[b["k"]], size=b["size"], align=b["align"], alloc_stmt=b["stmt"],
                      last_use_stmt=last_true[b["k"]], alloc_op_index=alloc_p[b["k"]], last_use_op_index=true_p[b["k"]],
                      last_direct_use_op_index=direct_p[b["k"]]) for b in bufs]
    detail0 = dict(mode=mode, mems=r["mems"], placement=placement, handed_to_solver=list(_REC), before=text_before)
    problems: list[tuple[str, dict]] = []

    for b in bufs:
        k, a0, m = b["k"], addr[b["k"]], mems[b["mem"]]
        # (i) alignment
        if b["align"] and a0 % b["align"] != 0:
            if mech == "minimalloc" and m["start"] % b["align"] != 0 and (a0 - m["start"]) % b["align"] == 0:
                problems.append(("placement:minimalloc:misaligned:memory-start-not-multiple-of-alignment", dict(detail0, buffer=k)))
            else:
                problems.append((f"placement:{mech}:misaligned", dict(detail0, buffer=k)))
        # (ii) window
        if a0 < m["start"] or a0 + b["size"] > m["start"] + m["cap"]:
            problems.append((f"placement:{mech}:outside-memory-window", dict(detail0, buffer=k)))

    # (iii) disjointness
    def overlap(i, j):
        return addr[i] < addr[j] + bufs[j]["size"] and addr[j] < addr[i] + bufs[i]["size"]

    def meet(i, j, last):
        return alloc_p[i] <= last[j] and alloc_p[j] <= last[i]

    if mode == "static":
        for i in range(nb):
            for j in range(i):
                if bufs[i]["mem"] == bufs[j]["mem"] and overlap(i, j):
                    problems.append(("placement:static:buffers-overlap", dict(detail0, buffers=[j, i])))
    else:
        for j, i in pairs:
            if overlap(i, j):
                if meet(i, j, direct_p):
                    sig = "placement:minimalloc:live-buffers-overlap"
                elif meet(i, j, views_p):
                    sig = "placement:minimalloc:live-buffers-overlap:last-use-through-view-after-last-direct-use"
                elif any(k in built.access_merged[last_true[k]] for k in (i, j)):
                    sig = "placement:minimalloc:live-buffers-overlap:last-use-through-value-merged-from-several-buffers"
                else:
                    sig = "placement:minimalloc:live-buffers-overlap:last-use-through-region-result-after-last-direct-use"
                problems.append((sig, dict(detail0, buffers=[j, i])))

    # (iv) deallocs
    ops = list(func.body.block.ops)
    pos = {id(o): i for i, o in enumerate(ops)}
    stmt_pos = {}
    for o in ops:
        if "c11.stmt" in o.attributes:
            stmt_pos[o.attributes["c11.stmt"].value.data] = pos[id(o)]
    stmt_pos[n_t] = len(ops) - 1
    cast_to_buf = {id(c): k for k, c in casts.items()}
    n_dealloc = {}
    for o in func.walk():
        if o.name != "memref.dealloc":
            continue
        k = cast_to_buf.get(id(o.operands[0].owner))
        if k is None:
            problems.append((f"placement:{mech}:dealloc-of-a-value-that-is-not-an-allocated-buffer", dict(detail0, after=after())))
            continue
        n_dealloc[k] = n_dealloc.get(k, 0) + 1
        if n_dealloc[k] == 2:
            problems.append((f"placement:{mech}:buffer-deallocated-twice", dict(detail0, buffer=k, after=after())))
        top = _top_level(o, func)
        if last_true[k] is None:
            continue
        if top is None or pos[id(top)] <= stmt_pos[last_true[k]]:
            sig = "placement:minimalloc:dealloc-before-last-use"
            if true_p[k] > direct_p[k]:
                if views_p[k] >= true_p[k]:
                    sig += ":last-use-through-view-after-last-direct-use"
                elif k in built.access_merged[last_true[k]]:
                    sig += ":last-use-through-value-merged-from-several-buffers"
                else:
                    sig += ":last-use-through-region-result-after-last-direct-use"
            problems.append((sig, dict(detail0, buffer=k, after=after())))
    if mode == "static" and n_dealloc:
        base_cls.append("static:deallocs-present")

    known = []
    if problems:
        kn = _known_signatures()
        for sig, det in problems:
            if sig not in kn:
                raise Violation(sig, det)
        seen = set()
        for sig, det in problems:
            if sig not in seen:
                seen.add(sig)
                known.append((sig, det))

    # ---- classes / non-trivial
    through_view = any(true_p[k] is not None and true_p[k] > direct_p[k] for k in range(nb))
    nested_last = False
    for k in range(nb):
        lt = last_true[k]
        if lt is not None and lt < n_t and built.stmts[lt]["op"] in ("for", "if"):
            nested_last = True
    cls = list(base_cls)
    if pairs:
        cls.append("live-pairs")
    if through_view:
        cls.append("last-use:through-view-after-direct")
    if nested_last:
        cls.append("last-use:nested")
    reuse = any(bufs[i]["mem"] == bufs[j]["mem"] and overlap(i, j) for i in range(nb) for j in range(i))
    if reuse:
        cls.append("address-reused")
    if n_dealloc:
        cls.append("deallocs")
    aligns = {b["align"] for b in bufs}
    if aligns & {None, 0}:
        cls.append("align:0-or-absent")
    if aligns & {3, 10, 14}:
        cls.append("align:non-power-of-two")
    for mname in mems:
        prev_end = None
        for a0, sz in sorted((addr[b["k"]], b["size"]) for b in bufs if b["mem"] == mname):
            if prev_end is not None and a0 > prev_end:
                cls.append("align:gap-between-neighbours")
            prev_end = max(prev_end or 0, a0 + sz)
    # a buffer that is not the first-allocated source of a merged value, whose last use is through that value, after its last
    # direct use, with another allocation of the same memory in between (the address is attractive for reuse)
    for k in range(nb):
        lt = last_true[k]
        if (lt is not None and k in built.access_merged2[lt] and true_p[k] > direct_p[k]
                and any(bufs[j]["mem"] == bufs[k]["mem"] and direct_p[k] < alloc_p[j] < true_p[k] for j in range(nb))):
            cls.append("merge:second-source-live-across-later-alloc")
            break
    last_via_view = any(last_true[k] is not None and k in built.access_view[last_true[k]] for k in range(nb))
    if last_via_view:
        cls.append("last-use:through-view")
    nontrivial = bool(pairs) and (last_via_view or nested_last)
    return Info(nontrivial=nontrivial, classes=tuple(dict.fromkeys(cls)), known=known,
                sample=dict(before=text_before, placement=placement))


# ================================================================================================


def exh_size(tier):
    """Every static layout of rank <= 2, tile depth <= 2 with bounds <= 2 and steps <= 3 (quick: 1 806 layouts) / bounds <= 3 and
    steps <= 4 (thorough: 26 220 layouts); element type and offset cycle with the index."""
    small = G.enumerate_small(2, 2, 3, 4) if tier == "thorough" else G.enumerate_small(2, 2, 2, 3)
    elts = ["i8", "i32", "i16", "i64", "f32"]
    for i, dims in enumerate(small):
        lay = dict(dims=dims, offset=(0, 3, 0, 1)[i % 4])
        yield dict(allocs=[dict(elt=elts[i % 5], align=(None, 64)[i % 2], space="L1", src=["testop"] * 4, kind="tsl", fam="enumerated",
                                layout=lay, rt=[dim[0][1] for dim in dims])])


SUBS = [
    Sub("size_formula", GC.size_case, prop_size, budget=dict(quick=5000, thorough=100000), exhaustive=exh_size,
        floor=dict(quick=1000, thorough=20000),
        nontrivial_rule="the layout has a gap, an offset, or is dynamic (dynamic shape for the no-layout case)"),
    Sub("placement", GC.place_case, prop_place, budget=dict(quick=3000, thorough=60000), floor=dict(quick=200, thorough=5000),
        nontrivial_rule="two buffers of one memory have intersecting true lifetimes and some buffer's last use is through a view or "
                        "nested in scf.for/scf.if"),
]
