"""C07 Assumed accelerator state is always a subset of the real state."""
from __future__ import annotations

from hypothesis import strategies as st

from vlib import gen_accfg as G
from vlib.accfg_common import execute
from vlib.ctx import PassTimeout, parse, run_pass, shared_ctx, time_limit, to_text
from vlib.interp import StepBudget, UseBeforeDef, dominance_errors
from vlib.machines import CSRMachine, Havoc
from vlib.runner import Info, Outside, Reject, Sub, Violation

from xdsl.ir import Block

from snaxc.inference.trace_acc_state import infer_state_of

ID = "C07"
RULE = (
    "Recipes are untraced accfg programs (same grammar as C01: full-field units, nested scf.for/scf.if, calls with and without the "
    "no-effects annotation at any depth incl. as the only content of a loop or branch, 1-2 accelerators; optionally partially pre-threaded: some setups already "
    "carry the state of the directly preceding setup of the same block) plus 3 input vectors. The real "
    "pass accfg-trace-states is applied and the traced program is executed on the CSR machine. Whenever execution defines a value of "
    "type !accfg.state (setup result, loop block argument on every iteration, scf.for result, scf.if result) the real infer_state_of(value) (on the traced program, and in 2/3 of the cases on the program after accfg-dedup, whose partial and hoisted setups are what the analysis is used on) "
    "is called and every entry field -> SSA value v with a run-time binding must satisfy registers[acc][field] == env[v]. Structural part: "
    "the in_state of every executed setup must be the state produced by the setup that really precedes it (no opaque effect in between). "
    "Non-trivial: a non-empty inferred state was checked at a loop head on iteration >= 2, after a loop, or after an if; distinct by recipe hash."
)
ASSUMPTIONS = [
    "xDSL 0.70 compatibility shim (vlib/compat.py)",
    "interpreter vlib/interp.py and CSRMachine: an un-annotated call leaves every register unknown (has_accfg_effects' default)",
    "an inferred entry whose SSA value was never bound at run time (defined in a region that did not execute) is skipped: no client can use it",
]


def _prethread(mod, bits):
    """Pre-existing, partially threaded state: link some setups to the setup of the same accelerator that directly precedes them in the
    same block with only side-effect-free ops in between (a correct threading by construction). `bits` selects which ones."""
    from xdsl.rewriter import Rewriter
    from xdsl.traits import is_side_effect_free

    from snaxc.dialects import accfg

    if not bits:
        return 0
    n = 0
    k = 0
    rw = Rewriter()
    for op in list(mod.walk()):
        if not isinstance(op, accfg.SetupOp) or op.in_state is not None or op.parent_op() is None:
            continue
        prev = op.prev_op
        ok = None
        while prev is not None:
            if isinstance(prev, accfg.SetupOp) and prev.accelerator == op.accelerator:
                ok = prev
                break
            if prev.regions or not (is_side_effect_free(prev) or prev.name in ("accfg.launch", "accfg.await", "accfg.setup")):
                break
            prev = prev.prev_op
        if ok is None:
            continue
        take = bits[k % len(bits)]
        k += 1
        if not take:
            continue
        new = accfg.SetupOp(op.values, op.param_names, op.accelerator, ok.out_state)
        rw.replace_op(op, new)
        n += 1
    return n


def prop(r):
    built = G.build(r)
    mod = parse(built.text, shared_ctx())
    mod.verify()
    n_pre = _prethread(mod, r.get("prethread", []))
    mod.verify()
    try:
        with time_limit(10):
            run_pass(mod, "accfg-trace-states")
            mod.verify()
            if r.get("retrace"):
                # fully threaded input (loops carrying the state, conditionals yielding it): tracing it again must stay sound
                run_pass(mod, "accfg-trace-states")
                mod.verify()
            if r.get("post") == "dedup":
                # same analysis, exercised on the partial setups / hoisted setups that accfg-dedup leaves behind
                run_pass(mod, "accfg-dedup", hoist=r.get("hoist", True))
                mod.verify()
    except PassTimeout:
        raise Reject("pass did not terminate within 10 s")
    except Exception as e:
        raise Reject(f"trace-states raised {type(e).__name__}: {str(e)[:60]}")
    dom = dominance_errors(mod)
    if dom:
        raise Violation("trace:use-before-def-after-pass", dict(errors=dom[:3], after=to_text(mod)))

    memo: dict = {}
    problems: list = []
    seen = dict(loop_head_iter2=0, after_for=0, after_if=0, setup=0)
    head_count: dict = {}

    def hook(ssa, env, machine):
        if ssa not in memo:
            try:
                memo[ssa] = infer_state_of(ssa)
            except Exception as e:
                memo[ssa] = e
        inf = memo[ssa]
        if isinstance(inf, Exception):
            problems.append(("infer-raises", type(inf).__name__, str(inf)[:80]))
            return
        acc = ssa.type.accelerator.data
        owner = ssa.owner
        if isinstance(owner, Block):
            head_count[ssa] = head_count.get(ssa, 0) + 1
            where = "loop_head_iter2" if head_count[ssa] >= 2 else "loop_head_iter1"
        elif owner.name == "scf.for":
            where = "after_for"
        elif owner.name == "scf.if":
            where = "after_if"
        else:
            where = "setup"
        checked = 0
        for field, v in inf.items():
            if v not in env:
                continue
            checked += 1
            actual = machine.read(acc, field)
            if actual != env[v]:
                problems.append(("assumed-register-value-is-wrong", where, acc, field, repr(env[v]), repr(actual)))
        if checked and where in seen:
            seen[where] += 1

    n_exec = 0
    trips_seen = set()
    for k in range(3):
        args, trips = G.input_vector(r, built, k)
        m = CSRMachine()
        m.state_hook = hook
        head_count.clear()
        try:
            execute(mod, args, machine=m)
        except StepBudget:
            continue
        except UseBeforeDef as e:
            raise Violation("trace:use-before-def-at-run-time", dict(error=str(e), args=args, after=to_text(mod)))
        n_exec += 1
        if problems:
            p = problems[0]
            sig = "infer:" + p[0] + (":" + p[1] if p[0] != "infer-raises" else "")
            raise Violation(sig, dict(problem=p, args=args, arg_names=built.arg_names, before=built.text, after=to_text(mod)))
        if m.link_errors:
            raise Violation("trace:setup-linked-to-a-state-that-does-not-precede-it",
                            dict(link=m.link_errors[0], args=args, arg_names=built.arg_names, before=built.text, after=to_text(mod)))
        trips_seen.update("t0" if t == 0 else "t1" if t == 1 else "t2+" for t in trips)
    if n_exec == 0:
        raise Outside("all executions exceeded the step budget")
    cls = sorted(built.features) + sorted(trips_seen) + [k for k, v in seen.items() if v] + ["post:" + r.get("post", "trace")]
    if n_pre:
        cls.append("prethreaded")
    if r.get("retrace"):
        cls.append("traced-twice")
    nontrivial = bool(seen["loop_head_iter2"] or seen["after_for"] or seen["after_if"])
    return Info(nontrivial=nontrivial, classes=tuple(cls), evals=n_exec, sample=dict(after=to_text(mod)))


@st.composite
def strat(draw, tier):
    r = draw(G.program(tier, partial=draw(st.booleans())))
    r["post"] = draw(st.sampled_from(["trace", "dedup", "dedup"]))
    r["hoist"] = draw(st.booleans())
    r["prethread"] = draw(st.lists(st.booleans(), min_size=0, max_size=4))
    r["retrace"] = draw(st.integers(0, 3)) == 0
    return r


SUBS = [
    Sub("trace_infer", lambda tier: strat(tier), prop, budget=dict(quick=4000, thorough=80000),
        floor=dict(quick=300, thorough=6000),
        nontrivial_rule="a non-empty inferred state was compared with the registers at a loop head on iteration >= 2, after a loop, or after an if"),
]
