"""C13 Cross-core dependencies are separated by a cluster barrier."""
from __future__ import annotations

from vlib import gen_multicore as G
from vlib.ctx import PassTimeout, parse, run_pass, time_limit, to_text
from vlib.ctx_multicore import xdma_ctx
from vlib.interp import InterpError, StepBudget, UseBeforeDef, dominance_errors
from vlib.machine_multicore import (BARRIER_CALL, conflicts_in, core_guard_ancestors, depends_on_core_idx, preorder_index, run_core, seq_cmp,
                                    tag_of)
from vlib.runner import Info, Outside, Reject, Sub, Violation

ID = "C13"
RULE = (
    "Recipes are single-block functions over 1-2 shared 16-element memref arguments plus allocs and 4-element subviews of them (static "
    "and induction-variable offsets, views of views; created before or after their producers), with statements memref.copy (data mover), "
    "linalg.generic with/without library_call / dart.operation / dart.schedule on snax_alu, snax_gemmx (empty body or kernel.add/mul/rescale; compute core), dart regions on snax_xdma (extension kernel = data mover; kernel.mul, kernel.add i8, kernel.rescale i32->i32 = compute core; snax_xdma registered in a private context), neutral users (\"test.op\"(memref)), "
    "pre-existing snax.cluster_sync_op, memref.dealloc, straight-line, inside scf.for nests up to depth 3 whose trip counts (0..3) are "
    "run-time inputs, and inside scf.if with and without else (conditions: i1 arguments taking both outcomes across the two input vectors, "
    "or comparisons on an induction variable; core-independent), nested with the loops, producers before the if and consumers in "
    "either/both branches and after it, pre-existing barriers in one branch only; producers and consumers at different depths; 2 cores (compute 0, data mover 1) and 3 cores (idle core 1); 2 input "
    "vectors. The real insert-sync-barrier is applied (stage A), then dispatch-regions{nb_cores} and snax-to-func (stage B). The result is "
    "executed once per core on the multi-core barrier machine; in stage A the core of an op is the one fixed by the generator, in stage B "
    "the core-id guards in the IR decide. Oracle: (i) every core passes the same sequence of barrier sites (same iteration vectors) and no "
    "barrier sits under a core-id guard; (ii) within one epoch no access of one core conflicts with an access of another core (same root "
    "buffer, overlapping interval, at least one write; a dealloc counts as a write of the whole buffer by every core). Read/read pairs are "
    "not required to be separated. insert-sync-barrier must not change anything but add barriers. "
    "Non-trivial: the program has a cross-core conflicting pair (ignoring barriers) and one such pair is loop-carried, goes through two "
    "different SSA views, or has an access inside an scf.if branch; distinct by recipe hash."
)
ASSUMPTIONS = [
    "xDSL 0.70 compatibility shim (vlib/compat.py)",
    "interpreter vlib/interp.py and vlib/machine_multicore.py are the reference semantics: a barrier is a full fence, an op's accesses "
    "complete before the next barrier of its core (DESIGN 5.1); memref.copy reads its source and writes its target; a compute op reads "
    "its inputs and writes its outputs; buffers are 1-D unit-stride so regions are intervals",
    "core assignment by construction: memref.copy -> core nb_cores-1, linalg.generic / dart streaming regions -> core 0, the rest on all cores",
    "loop bounds are function arguments, so every core takes the same control flow",
]

_SAMPLES = [0]
LOWERED_AWAY = ("snax.cluster_sync_op", "memref.dealloc")  # snax-to-func replaces / erases these (tags are lost)

# Narrow signatures of the three defects this check found. VIEW_SIG is a known finding (DESIGN 6.11). The other two were repaired in
# /repo (a5fc790, 344e509); their signatures stay as regression classes (not listed as known, so a reappearance is a VIOLATION).
VIEW_SIG = "insert-sync-barrier: conflict through distinct views of one root buffer"
CROSS_DEPTH_SIG = "insert-sync-barrier: loop-carried conflict between ops that are not in the same loop body"
ZERO_TRIP_SIG = "insert-sync-barrier: conflict left open by a barrier inside a loop that runs zero times"
BRANCH_SIG = "insert-sync-barrier: conflict left open by a barrier inside an scf.if branch that is not taken"


def is_barrier(op):
    return op.name == "snax.cluster_sync_op" or (op.name == "func.call" and op.callee.root_reference.data == BARRIER_CALL)


def in_user_branch(op):
    """Is op nested in an scf.if of the program (not a core-id guard)?"""
    guards = core_guard_ancestors(op)
    p = op.parent_op()
    while p is not None:
        if p.name == "scf.if" and p not in guards:
            return True
        p = p.parent_op()
    return False


def eff_parent(op):
    """Parent op, looking through core-id guards inserted by dispatch-regions."""
    p = op.parent_op()
    while p is not None and p.name == "scf.if" and p in core_guard_ancestors(op):
        p = p.parent_op()
    return p


class Ctx:
    """Static info about one module used for classifying conflicts."""

    def __init__(self, mod):
        self.pre = preorder_index(mod)
        self.barrier_idx = [i for o, i in self.pre.items() if is_barrier(o)]
        self._has_barrier = {}
        self._guard = {}

    def barrier_since_last_toucher(self, dealloc_op):
        """Is there a barrier (in walk order) between the last op that has the deallocated SSA value as operand/result and the dealloc?"""
        x = dealloc_op.operands[0]
        pd = self.pre[dealloc_op]
        touch = [self.pre[u.operation] for u in x.uses if u.operation is not dealloc_op and self.pre[u.operation] < pd]
        if hasattr(x.owner, "results") and x.owner in self.pre:
            touch.append(self.pre[x.owner])
        last = max(touch) if touch else -1
        return any(last < i < pd for i in self.barrier_idx)

    def has_barrier(self, for_op):
        r = self._has_barrier.get(for_op)
        if r is None:
            r = any(is_barrier(o) for o in for_op.walk())
            self._has_barrier[for_op] = r
        return r


def classify(a, b, cx: Ctx, skipped, skipped_branches=()):
    """Signature for one conflicting pair of accesses on different cores in the same epoch."""
    ia, ib = (a.op, a.iters), (b.op, b.iters)
    order, loop = seq_cmp(ia, ib, cx.pre)
    first, second = (a, b) if order <= 0 else (b, a)
    if "dealloc" in (a.what, b.what):
        hazard = "dealloc"
    elif first.write and second.write:
        hazard = "WAW"
    elif first.write:
        hazard = "RAW"
    else:
        hazard = "WAR"
    if a.ssa is not b.ssa:
        if hazard == "dealloc" and not cx.barrier_since_last_toucher((a if a.what == "dealloc" else b).op):
            # even the SSA-value based pass keeps the dealloc pending from the last op touching the buffer value up to the next
            # barrier; a missing barrier here is not the views defect
            return "race:dealloc-of-viewed-buffer-without-barrier-since-last-op-on-the-buffer-value", hazard, loop
        return VIEW_SIG, hazard, loop
    if loop is not None and eff_parent(a.op) is not eff_parent(b.op):
        return CROSS_DEPTH_SIG, hazard, loop
    fi, si = (first.op, first.iters), (second.op, second.iters)
    for f, its in skipped:
        if not cx.has_barrier(f):
            continue
        inst = (f, its)
        if seq_cmp(fi, inst, cx.pre)[0] < 0 and seq_cmp(inst, si, cx.pre)[0] < 0:
            return ZERO_TRIP_SIG, hazard, loop
    for if_op, region, its in skipped_branches:
        if not cx.has_barrier(region):
            continue
        inst = (if_op, its)
        if seq_cmp(fi, inst, cx.pre)[0] < 0 and seq_cmp(inst, si, cx.pre)[0] < 0:
            return BRANCH_SIG, hazard, loop
    return f"race:{'loop-carried' if loop is not None else 'forward'}:{hazard}", hazard, loop


def core_guard(if_op, cx):
    r = cx._guard.get(if_op)
    if r is None:
        r = depends_on_core_idx(if_op.cond)
        cx._guard[if_op] = r
    return r


def barrier_seq(m):
    return [(id(op), tuple(iv for _, iv in its)) for op, its in m.barriers]


def check_stage(mod, fname, args, n, kinds, stage, detail):
    """Run all cores; return (machines, list of (signature, example detail))."""
    ms = []
    for c in range(n):
        try:
            ms.append(run_core(mod, fname, args, c, n, kinds=kinds))
        except UseBeforeDef as e:
            raise Violation(f"{stage}:use-before-def-at-run-time", detail(error=str(e), core=c))
    # (i) deadlock freedom
    ref = barrier_seq(ms[0])
    for c in range(1, n):
        if barrier_seq(ms[c]) != ref:
            raise Violation(f"{stage}:deadlock:cores-pass-different-barrier-sequences",
                            detail(core_a=0, core_b=c, barriers_a=len(ref), barriers_b=len(ms[c].barriers)))
    return ms


def races(ms, cx, stage):
    out = {}
    for a, b in conflicts_in([m.accesses for m in ms]):
        sig, hazard, loop = classify(a, b, cx, ms[0].skipped, [x for x in ms[0].skipped_branches if not core_guard(x[0], cx)])
        if sig not in out:
            out[sig] = dict(stage=stage, hazard=hazard, loop_carried=loop is not None, access_a=a.describe(), access_b=b.describe())
    return out


def prop(r):
    built = G.build(r)
    n = r["nb_cores"]
    orig = parse(built.text, xdma_ctx())
    orig.verify()
    sb = orig.clone()
    before = built.text
    try:
        with time_limit(30):
            run_pass(sb, "insert-sync-barrier", ctx=xdma_ctx())
    except PassTimeout:
        raise Reject("insert-sync-barrier did not terminate within 30 s")
    except Exception as e:
        raise Violation(f"insert-sync-barrier:raises:{type(e).__name__}", dict(error=str(e)[:300], before=before))
    try:
        sb.verify()
    except Exception as e:
        raise Violation("insert-sync-barrier:invalid-ir-after-pass", dict(error=str(e)[:300], before=before))
    fin = sb.clone()
    try:
        with time_limit(30):
            run_pass(fin, "dispatch-regions", ctx=xdma_ctx(), nb_cores=n)
            fin.verify()
            run_pass(fin, "snax-to-func", ctx=xdma_ctx())
            fin.verify()
    except PassTimeout:
        raise Reject("dispatch-regions/snax-to-func did not terminate within 30 s")
    except Exception as e:
        raise Violation(f"dispatch+snax-to-func:raises:{type(e).__name__}", dict(error=str(e)[:300], before=before, synced=to_text(sb)))

    synced_cache = []

    def base_detail(**kw):
        if not synced_cache:
            synced_cache.append(to_text(sb))
        return dict(dict(nb_cores=n, before=before, synced=synced_cache[0]), **kw)

    # no barrier under a core-id guard (structural part of (i))
    nbar_pre = sum(1 for o in orig.walk() if is_barrier(o))
    nbar_sb = sum(1 for o in sb.walk() if is_barrier(o))
    nbar_fin = 0
    for o in fin.walk():
        if is_barrier(o):
            nbar_fin += 1
            if core_guard_ancestors(o):
                raise Violation("dispatch:barrier-under-core-id-guard", base_detail(final=to_text(fin)))
    if nbar_fin != nbar_sb:
        raise Violation("snax-to-func:barrier-count-changed", base_detail(final=to_text(fin), synced_barriers=nbar_sb, final_barriers=nbar_fin))
    if any(o.name == "snax.cluster_sync_op" for o in fin.walk()):
        raise Violation("snax-to-func:cluster-sync-op-left", base_detail(final=to_text(fin)))

    cx_sb, cx_fin = Ctx(sb), Ctx(fin)
    found: dict = {}
    pot = set()
    n_exec = 0
    trips_cls = set()
    for k in range(len(r["inputs"])):
        args, trips = G.input_vector(r, built, k)

        def det(**kw):
            return base_detail(args=[a if not isinstance(a, tuple) else list(a) for a in args], arg_names=built.arg_names, **kw)

        try:
            m_orig = run_core(orig, "main", args, 0, n, kinds=None, log_accesses=False)
            ms_a = check_stage(sb, "main", args, n, built.kinds, "stage-A", det)
            ms_b = check_stage(fin, "main", args, n, None, "stage-B", lambda **kw: det(final=to_text(fin), **kw))
        except StepBudget:
            continue
        n_exec += 1
        trips_cls.update("trip0" if t == 0 else "trip1" if t == 1 else "trip2+" for t in trips)
        # insert-sync-barrier only adds barriers: the tagged trace of an all-cores run is unchanged
        m_all = run_core(sb, "main", args, 0, n, kinds=None, log_accesses=False)
        if m_all.trace != m_orig.trace:
            raise Violation("insert-sync-barrier:changed-the-program", det())
        # each core's tagged trace after dispatch equals its by-construction trace (guards agree with the generator's assignment)
        # (reported after the races of the same case, so that a missing barrier is named as such)
        stage_b_mismatch = [c for c in range(n) if [e for e in ms_a[c].trace if e[1] not in LOWERED_AWAY] != ms_b[c].trace]
        # potential conflicts (barriers ignored) for the non-trivial rule
        for a, b in conflicts_in([m.accesses for m in ms_a], same_epoch_only=False):
            _, loop = seq_cmp((a.op, a.iters), (b.op, b.iters), cx_sb.pre)
            pot.add("view" if a.ssa is not b.ssa else ("loop-carried" if loop is not None else "forward"))
            if in_user_branch(a.op) or in_user_branch(b.op):
                pot.add("in-branch")
            if "dealloc" in (a.what, b.what):
                pot.add("dealloc")
        ra = races(ms_a, cx_sb, "A: after insert-sync-barrier, cores assigned by construction")
        for sig, d in ra.items():
            found.setdefault(sig, (det, d))
        rb = races(ms_b, cx_fin, "B: after dispatch-regions + snax-to-func, cores decided by the guards")
        for sig, d in rb.items():
            if sig not in ra:
                found.setdefault("after-dispatch " + sig, (det, dict(d, final=None)))
        if stage_b_mismatch:
            found.setdefault("stage-B:core-runs-different-ops-than-assigned", (det, dict(core=stage_b_mismatch[0], final=None)))
    if n_exec == 0:
        raise Outside("all executions exceeded the step budget")

    known_order = [VIEW_SIG, CROSS_DEPTH_SIG, ZERO_TRIP_SIG, BRANCH_SIG]
    if found:
        fin_text = None
        for sig in list(found):
            mk, d = found[sig]
            if "final" in d:
                fin_text = fin_text or to_text(fin)
                d["final"] = fin_text
            found[sig] = mk(**d)
    plain = [(s, d) for s, d in found.items() if s not in known_order]
    plain.sort(key=lambda x: x[0].startswith("stage-B"))  # stable: a race is named before the stage-B trace mismatch
    listed = [(s, d) for s, d in found.items() if s in known_order]
    f = built.features
    cls = [f"N:{n}", f"depth:{built.max_depth}"] + sorted(trips_cls) + [f"pot:{p}" for p in sorted(pot)]
    cls += ["straight-line" if "loop" not in f else ("nested-loop" if "nested" in f else "loop")]
    cls += sorted(x for x in f if x.startswith("xdma_") or x.startswith("dart_kernel:"))
    for name in ("view", "view_dynamic", "dealloc", "pre_barrier", "if", "if_else", "if_in_loop", "pre_barrier_in_branch", "dispatchable_in_branch"):
        if name in f:
            cls.append(name)
    cls.append("barriers-inserted" if nbar_sb > nbar_pre else "no-barrier-inserted")
    nontrivial = bool(pot) and ("view" in pot or "loop-carried" in pot or "in-branch" in pot)
    sample = None
    if nontrivial and _SAMPLES[0] < 6:
        _SAMPLES[0] += 1
        sample = dict(before=before, synced=to_text(sb))
    return Info(nontrivial=nontrivial, classes=tuple(cls), evals=n_exec, known=plain + listed, sample=sample)


SUBS = [
    Sub("barriers", lambda tier: G.program_c13(tier), prop, budget=dict(quick=5000, thorough=120000),
        floor=dict(quick=700, thorough=12000),
        nontrivial_rule="a cross-core conflicting pair exists (barriers ignored) and one such pair is loop-carried, goes through two different SSA views, or has an access inside an scf.if branch"),
]
