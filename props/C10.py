"""C10 A tiled-strided layout means the same thing everywhere.

One reference, `vlib.gen_tsl.addr(recipe, idx)` (mixed radix over the tile bounds, outermost first, offset + sum digit*step),
written from snaxc/ir/tsl/README.md and the class docstrings. Every view of a layout offered by the code under test is compared
with it: affine map, all_values/self_overlaps/is_dense, bound/step ops (interpreted with run-time sizes), text form,
from_stride(s)/canonicalize, largest_common_contiguous_block, convert-memref-to-arith pointer arithmetic.
"""
from __future__ import annotations

import io
import itertools

import numpy as np
from hypothesis import strategies as st

from vlib import gen_tsl as G
from vlib.runner import Info, Outside, Reject, Sub, Violation  # noqa: F401

from xdsl.dialects.arith import ConstantOp
from xdsl.dialects.builtin import (
    DYNAMIC_INDEX,
    Float32Type,
    IndexType,
    IntegerType,
    MemRefType,
    StridedLayoutAttr,
    StringAttr,
)
from xdsl.ir import Block
from xdsl.ir.affine import AffineBinaryOpExpr, AffineBinaryOpKind, AffineConstantExpr, AffineDimExpr
from xdsl.parser import Parser
from xdsl.printer import Printer

from snaxc.dialects.tsl import TiledStridedLayoutAttr
from snaxc.ir.tsl import Stride, TiledStride, TiledStridedLayout

ID = "C10"
RULE = (
    "Recipes are layouts {dims: per dimension [[step, bound] outermost..innermost], offset}, rank 1..4, tile depth 1..3, bounds 1..8, "
    "at most 4096 (quick) / 65536 (thorough) elements, in two static families (one-to-one by construction: strides nested in a drawn order "
    "with optional gaps; arbitrary positive steps with repeated steps and unit bounds) plus a dynamic family (README domain: only outermost "
    "tiles dynamic, at most one dynamic-bound stride with a static step, all-dynamic included) and a strided-memref family "
    "(from_strides as snax-copy-to-dma uses it, dynamic strides/sizes/offset). All static layouts of rank<=2, depth<=2, bounds<=3, steps<=4 (thorough: bounds<=4, "
    "steps<=6) and all rank-1 depth-3 layouts with bounds<=3 are enumerated for the affine/values/canonicalize views (every 8th "
    "for the text view). Each sub-property compares "
    "one view of the code under test with the single reference addr(idx) = offset + sum digit*step. Non-trivial: some dimension has "
    "tile depth >= 2, or the layout is dynamic, or offset != 0 (per sub: see nontrivial_rule); distinct by recipe hash."
)
ASSUMPTIONS = [
    "xDSL 0.70 compatibility shim (vlib/compat.py) only converts list-valued irdl_options to tuples",
    "layout semantics per snaxc/ir/tsl/README.md: strides listed outermost to innermost; address = offset + sum over strides of digit*step "
    "with digits the mixed-radix decomposition of the index over the tile bounds",
    "dynamic steps: README 'Dynamic Sizes' + comments in get_step_ops: first dynamic step = largest static step x its bound (on ties the "
    "largest such product, so that the dynamic steps start above every tied stride's extent; the unchanged code takes the first tied stride: known finding), then densely right-to-left, innermost-to-outermost; all-dynamic defaults to row-major-like "
    "(innermost rightmost step = one element)",
    "arith/memref ops emitted by get_bound_ops/get_step_ops/convert-memref-to-arith are interpreted by a 40-line evaluator in this file "
    "(constant, addi, subi, muli, divui, memref.dim, memref.extract_strided_metadata, memref.extract_aligned_pointer_as_index)",
    "the layout offset is not part of get_affine_map / all_values / extract_aligned_pointer: consumers add it separately (snax-copy-to-dma, memref-to-snax)",
]

_ELT = {"i8": lambda: IntegerType(8), "i16": lambda: IntegerType(16), "i32": lambda: IntegerType(32), "i64": lambda: IntegerType(64),
        "f32": lambda: Float32Type()}
_ELSIZE = {"i8": 1, "i16": 2, "i32": 4, "i64": 8, "f32": 4}

_CTX = []


def _ctx():
    if not _CTX:
        from vlib.ctx import fresh_ctx

        _CTX.append(fresh_ctx())
    return _CTX[0]


def _classes(r, extra=()):
    depths = [len(d) for d in r["dims"]]
    cls = [f"rank:{len(depths)}", f"depth:{max(depths)}"]
    if len(set(depths)) > 1:
        cls.append("mixed-depth")
    if any(b == 1 for d in r["dims"] for _, b in d):
        cls.append("unit-bound")
    steps = [s for d in r["dims"] for s, _ in d if s is not None]
    if len(set(steps)) < len(steps):
        cls.append("repeated-step")
    off = r.get("offset", 0)
    cls.append("offset:dyn" if off is None else "offset:0" if off == 0 else "offset:pos")
    if G.is_dynamic(r):
        cls.append("dynamic")
    return tuple(cls) + tuple(extra)


def _nontrivial(r):
    return max(len(d) for d in r["dims"]) >= 2 or G.is_dynamic(r) or r.get("offset", 0) != 0


def _call(sig, f, *a, **kw):
    """Call into the code under test; a pure function on an input inside its domain must return an object."""
    try:
        return f(*a, **kw)
    except Exception as e:  # noqa: BLE001
        raise Violation(f"{sig}:raises:{type(e).__name__}", dict(error=repr(e)[:300]))


# ================================================================================================
# 1. affine map


def _eval_np(e, dimvals):
    if isinstance(e, AffineDimExpr):
        return dimvals[e.position]
    if isinstance(e, AffineConstantExpr):
        return np.int64(e.value)
    if isinstance(e, AffineBinaryOpExpr):
        a, b = _eval_np(e.lhs, dimvals), _eval_np(e.rhs, dimvals)
        k = e.kind
        if k == AffineBinaryOpKind.Add:
            return a + b
        if k == AffineBinaryOpKind.Mul:
            return a * b
        if k == AffineBinaryOpKind.Mod:
            return np.mod(a, b)
        if k == AffineBinaryOpKind.FloorDiv:
            return np.floor_divide(a, b)
        if k == AffineBinaryOpKind.CeilDiv:
            return -np.floor_divide(-a, b)
    raise TypeError(f"unexpected affine expression {e!r}")


def _sample_points(shape, n_all, cap=48):
    if n_all <= cap:
        return list(np.ndindex(*shape))
    flat = {0, n_all - 1}
    k = 0
    while len(flat) < cap:
        flat.add((k * 7919 + 13) % n_all)
        k += 1
    return [tuple(int(x) for x in np.unravel_index(f, shape)) for f in sorted(flat)]


def prop_affine(c):
    r = c["layout"]
    attr = G.mk_attr(r)
    amap = _call("affine", attr.get_affine_map)
    n = G.rank(r)
    if amap.num_dims != n or amap.num_symbols != 0 or len(amap.results) != 1:
        raise Violation("affine:map-signature", dict(map=str(amap)))
    shape = G.shape_of(r)
    ref = G.rel_addrs(r)
    # every index, by walking the expression tree over numpy index grids
    dimvals = [np.arange(shape[d], dtype=np.int64).reshape([shape[d] if j == d else 1 for j in range(n)]) for d in range(n)]
    got = np.broadcast_to(_eval_np(amap.results[0], dimvals), ref.shape)
    if not (got == ref).all():
        bad = tuple(int(x) for x in np.argwhere(got != ref)[0])
        raise Violation("affine:map-differs-from-addr", dict(idx=bad, map_value=int(got[bad]), addr_minus_offset=int(ref[bad]), map=str(amap)))
    # the consumer's way (AffineMap.eval, as dart-layout-resolution does), on all or a sample of the indices
    pts = _sample_points(shape, ref.size)
    for idx in pts:
        v = _call("affine:eval", amap.eval, list(idx), [])
        if v[0] != G.addr(r, idx) - (r["offset"] or 0):
            raise Violation("affine:eval-differs-from-addr", dict(idx=list(idx), eval=v[0], addr_minus_offset=G.addr(r, idx) - r["offset"]))
    # in bytes, through the memref type (what dart-layout-resolution really calls)
    elt = ("i8", "i16", "i32", "i64")[ref.size % 4]
    mt = MemRefType(_ELT[elt](), shape, attr)
    bmap = _call("affine:in-bytes", mt.get_affine_map_in_bytes)
    idx = pts[len(pts) // 2]
    if bmap.eval(list(idx), [])[0] != _ELSIZE[elt] * int(ref[idx]):
        raise Violation("affine:bytes-map-differs", dict(idx=list(idx)))
    return Info(nontrivial=_nontrivial(r), classes=_classes(r, (f"fam:{c['fam']}",)), evals=len(pts) + 1)


# ================================================================================================
# 2. all_values / self_overlaps / is_dense


def prop_values(c):
    r = c["layout"]
    t = G.mk_tsl(r)
    ref = np.sort(G.rel_addrs(r).reshape(-1))
    vals = _call("values:all_values", t.all_values)
    vals = np.sort(np.asarray(vals).reshape(-1))
    if vals.shape != ref.shape or not (vals == ref).all():
        raise Violation("values:all_values-multiset-differs", dict(n_ref=int(ref.size), n_got=int(vals.size)))
    ov = bool(len(np.unique(ref)) != len(ref))
    dense = bool((ref == np.arange(len(ref))).all())
    got_ov = _call("values:self_overlaps", t.self_overlaps)
    if bool(got_ov) != ov:
        raise Violation("values:self_overlaps-wrong", dict(expected=ov, got=bool(got_ov)))
    got_dense = _call("values:is_dense", t.is_dense)
    if bool(got_dense) != dense:
        raise Violation("values:is_dense-wrong", dict(expected=dense, got=bool(got_dense)))
    if c["fam"] == "nonoverlap" and ov:
        raise AssertionError("generator: constructed layout overlaps")  # harness bug
    kind = "overlapping" if ov else "dense" if dense else "gaps"
    return Info(nontrivial=_nontrivial(r), classes=_classes(r, (f"fam:{c['fam']}", f"kind:{kind}")), evals=3)


# ================================================================================================
SIG_TIE_FIRST = "stepops:tie-for-largest-static-step:first-stride-wins:dynamic-steps-start-inside-a-larger-extent"

# 3. get_bound_ops / get_step_ops, interpreted


class _UseBeforeDef(Exception):
    pass


def _eval_ops(ops, env, rt):
    """Interpret the straight-line op list. env: id(SSAValue) -> int. rt: dict(memref=SSAValue, shape, strides, offset, base)."""

    def val(v):
        if id(v) not in env:
            raise _UseBeforeDef(f"operand of {v.owner.name if hasattr(v.owner, 'name') else v.owner} not produced by an earlier op of the list")
        return env[id(v)]

    M = 1 << 64
    for op in ops:
        nm = op.name
        if nm == "arith.constant":
            env[id(op.results[0])] = op.value.value.data
        elif nm in ("arith.muli", "arith.addi", "arith.subi", "arith.divui"):
            a, b = val(op.operands[0]), val(op.operands[1])
            if nm == "arith.muli":
                x = a * b
            elif nm == "arith.addi":
                x = a + b
            elif nm == "arith.subi":
                x = a - b
            else:
                if b == 0:
                    raise ZeroDivisionError("arith.divui by zero")
                x = (a % M) // (b % M)
            env[id(op.results[0])] = x % M
        elif nm == "memref.dim":
            if op.operands[0] is not rt["memref"]:
                raise _UseBeforeDef("memref.dim on an unexpected memref")
            env[id(op.results[0])] = rt["shape"][val(op.operands[1])]
        elif nm == "memref.extract_strided_metadata":
            if op.operands[0] is not rt["memref"]:
                raise _UseBeforeDef("extract_strided_metadata on an unexpected memref")
            env[id(op.offset)] = rt["offset"]
            for res, v in zip(op.sizes, rt["shape"]):
                env[id(res)] = v
            for res, v in zip(op.strides, rt["strides"]):
                env[id(res)] = v
        elif nm == "memref.extract_aligned_pointer_as_index":
            if op.operands[0] is not rt["memref"]:
                raise _UseBeforeDef("extract_aligned_pointer_as_index on an unexpected memref")
            env[id(op.results[0])] = rt["base"]
        else:
            raise RuntimeError(f"evaluator: op {nm} not supported")  # harness limitation, not a violation
    return env


def _inner_prod(dim):
    p = 1
    for _, b in dim[1:]:
        p *= b
    return p


def prop_ops(c):
    mode = c["mode"]
    el = _ELSIZE[c["elt"]]
    in_bytes = bool(c["in_bytes"])
    if mode == "tsl":
        r = c["layout"]
        rt_b = [dim[0][1] if dim[0][1] is not None else c["rt"][d] for d, dim in enumerate(r["dims"])]
        shape_rt = [rt_b[d] * _inner_prod(dim) for d, dim in enumerate(r["dims"])]
        shape_ty = [DYNAMIC_INDEX if dim[0][1] is None else shape_rt[d] for d, dim in enumerate(r["dims"])]
        attr = G.mk_attr(r)
        mt = MemRefType(_ELT[c["elt"]](), shape_ty, attr)
        meta = None
    else:
        strides, tbs = c["strides"], c["tile_bounds"]
        rt_b = list(c["rt"])
        shape_rt = [rt_b[d] * int(np.prod(tb[1:], dtype=np.int64)) for d, tb in enumerate(tbs)]
        shape_ty = [DYNAMIC_INDEX if tb[0] is None else shape_rt[d] for d, tb in enumerate(tbs)]
        mt = MemRefType(_ELT[c["elt"]](), shape_ty, StridedLayoutAttr(strides, c["offset"]))
        tsl = _call("ops:from_strides", TiledStridedLayout.from_strides, list(strides), [list(t) for t in tbs], c["offset"])
        attr = TiledStridedLayoutAttr(tsl)
        # the layout this denotes, from the reference: innermost step = memref stride, outer steps = stride * inner tile sizes
        r = dict(dims=[[[None if strides[d] is None else strides[d] * int(np.prod(tb[k + 1:], dtype=np.int64)), tb[k]]
                        for k in range(len(tb))] for d, tb in enumerate(tbs)], offset=c["offset"])
        meta = list(c["rt_strides"])
    memref = Block(arg_types=[mt]).args[0]
    rt = dict(memref=memref, shape=shape_rt, strides=meta or [0] * len(shape_rt), offset=0, base=0)
    pos = G.positions(r)
    env: dict = {}

    # ---- bounds
    if c["via"] == "shapes":
        shape_ops = [ConstantOp.from_int_and_width(s, IndexType()) for s in shape_rt]
        _eval_ops(shape_ops, env, rt)
        arg = list(shape_ops)
    else:
        arg = memref
    try:
        b_ops, b_map = attr.get_bound_ops(arg)
    except NotImplementedError as e:
        raise Reject(f"get_bound_ops: {e}")
    except Exception as e:  # noqa: BLE001
        raise Violation(f"boundops:raises:{type(e).__name__}", dict(error=repr(e)[:300]))
    try:
        _eval_ops(b_ops, env, rt)
    except _UseBeforeDef as e:
        raise Violation("boundops:use-before-def-in-op-list", dict(error=str(e)))
    if sorted(b_map.keys()) != sorted(pos):
        raise Violation("boundops:mapping-keys", dict(keys=sorted(b_map.keys())))
    inst0 = G.instantiate(r, rt_b, meta_strides=meta)
    for d, k in pos:
        res = b_map[(d, k)].results[0]
        if id(res) not in env:
            raise Violation("boundops:mapped-op-not-in-op-list", dict(pos=[d, k]))
        if env[id(res)] != inst0["dims"][d][k][1]:
            raise Violation("boundops:bound-differs", dict(pos=[d, k], got=env[id(res)], expected=inst0["dims"][d][k][1]))

    # ---- steps
    pass_memref = in_bytes or mode == "strided" or c["pass_memref"]
    try:
        s_ops, s_map = attr.get_step_ops(b_map, memref if pass_memref else None, in_bytes=in_bytes)
    except NotImplementedError as e:
        raise Reject(f"get_step_ops: {e}")
    except Exception as e:  # noqa: BLE001
        raise Violation(f"stepops:raises:{type(e).__name__}", dict(error=repr(e)[:300]))
    try:
        _eval_ops(s_ops, env, rt)
    except _UseBeforeDef as e:
        raise Violation("stepops:use-before-def-in-op-list", dict(error=str(e)))
    if sorted(s_map.keys()) != sorted(pos):
        raise Violation("stepops:mapping-keys", dict(keys=sorted(s_map.keys())))
    got = {}
    for d, k in pos:
        res = s_map[(d, k)].results[0]
        if id(res) not in env:
            raise Violation("stepops:mapped-op-not-in-op-list", dict(pos=[d, k]))
        got[(d, k)] = env[id(res)]
    scale = el if in_bytes else 1
    # acceptable instantiations: one per stride holding the largest static step (ties are not decided by the documentation)
    cands, best = G.static_max_candidates(r)
    all_dyn = not cands
    # on a tie the dynamic steps have to start above the extent of every stride holding that step (else two elements share an address):
    # the largest product is tried first; the product of the first such stride in iteration order is what the unchanged code takes
    # (known finding when it is smaller); any other product is a violation
    prods = [best * inst0["dims"][d][k][1] for d, k in cands] if cands else [1]
    starts = [max(prods)] + [x for x in dict.fromkeys(prods) if x != max(prods)]
    dyn_pos = [(d, k) for d, k in pos if r["dims"][d][k][0] is None]
    ok = False
    exp = None
    matched = None
    # the value of a dynamic step of a stride whose run-time bound is 1 never reaches an address: not compared
    free = {p for p in dyn_pos if inst0["dims"][p[0]][p[1]][1] == 1}
    for stt in starts:
        inst = G.instantiate(r, rt_b, start=stt, meta_strides=meta)
        e = {(d, k): inst["dims"][d][k][0] * scale for d, k in pos}
        exp = exp or e
        if all(e[p] == got[p] for p in pos if p not in free):
            ok = True
            matched = stt
            break
    known = []
    if ok and matched != starts[0]:
        detail = dict(layout=str(attr.data), rt_bounds=rt_b, elt=c["elt"], in_bytes=in_bytes, first_dynamic_step_starts_at=matched,
                      largest_extent_of_a_stride_with_the_largest_static_step=starts[0],
                      got={f"{d},{k}": v for (d, k), v in got.items()}, expected={f"{d},{k}": v for (d, k), v in exp.items()})
        if matched == prods[0]:
            known.append((SIG_TIE_FIRST, detail))
        else:
            raise Violation("stepops:tie-for-largest-static-step:stride-with-smaller-extent-chosen", detail)
    if not ok:
        bad = [p for p in pos if got[p] != exp[p] and p not in free]
        detail = dict(layout=str(attr.data), rt_bounds=rt_b, elt=c["elt"], in_bytes=in_bytes,
                      got={f"{d},{k}": v for (d, k), v in got.items()}, expected={f"{d},{k}": v for (d, k), v in exp.items()})
        if any(p not in dyn_pos for p in bad):
            raise Violation("stepops:static-step-differs", detail)
        if mode == "strided" and not in_bytes and el > 1 and all(got[p] == exp[p] * el for p in dyn_pos):
            # docstring: in_bytes=False returns numbers of elements; metadata strides are multiplied by the element size regardless
            known.append(("stepops:strided-dynamic:in_bytes-false-returns-bytes", detail))
        elif mode == "tsl" and all_dyn and all(got[p] == 0 for p in pos) and len(free) < len(pos):
            known.append(("stepops:all-dynamic:every-step-zero", detail))
        else:
            raise Violation("stepops:dynamic-step-differs", detail)
    cls = [f"mode:{mode}", f"via:{c['via']}", f"in_bytes:{int(in_bytes)}", f"el:{el}"]
    if dyn_pos:
        cls.append("dyn-step")
    if any(dim[0][1] is None for dim in r["dims"]):
        cls.append("dyn-bound")
    if all_dyn:
        cls.append("all-dynamic")
    if len(cands) > 1:
        cls.append("max-step-tie")
    if len(starts) > 1:
        cls.append("max-step-tie-ambiguous")
    if not G.is_dynamic(r):
        cls.append("static")
    return Info(nontrivial=_nontrivial(r), classes=_classes(r, cls), evals=2, known=known)


# ================================================================================================
# 4. text round trip


def _print_attr(a) -> str:
    s = io.StringIO()
    Printer(s).print_attribute(a)
    return s.getvalue()


def _fmt(x):
    return "?" if x is None else str(x)


def prop_text(c):
    r = c["layout"]
    attr = G.mk_attr(r)
    dyn_off = r["offset"] is None
    if c["ctx"] == "memref":
        shape = [DYNAMIC_INDEX if any(b is None for _, b in dim) else int(np.prod([b for _, b in dim])) for dim in r["dims"]]
        obj = MemRefType(IntegerType(32), shape, attr, StringAttr("L1"))
    else:
        obj = attr
    text = _call("text:print", _print_attr, obj)
    known = []
    try:
        back = Parser(_ctx(), text).parse_attribute()
    except Exception as e:  # noqa: BLE001
        if dyn_off:
            # narrow: only "dynamic offset cannot be parsed back"
            ok_without = True
            try:
                r0 = dict(r, offset=0)
                o0 = G.mk_attr(r0)
                if Parser(_ctx(), _print_attr(o0)).parse_attribute() != o0:
                    ok_without = False
            except Exception:  # noqa: BLE001
                ok_without = False
            if ok_without and "?" in text.split("offset:")[-1]:
                known.append(("text:dynamic-offset:printed-form-not-parsable", dict(text=text, error=repr(e)[:200])))
                back = None
            else:
                raise Violation(f"text:parse-raises:{type(e).__name__}", dict(text=text, error=repr(e)[:300]))
        else:
            raise Violation(f"text:parse-raises:{type(e).__name__}", dict(text=text, error=repr(e)[:300]))
    if back is not None:
        if back != obj:
            raise Violation("text:roundtrip-differs", dict(text=text, back=_print_attr(back)))
        if c["ctx"] == "attr" and G.tsl_to_recipe(back.data) != dict(dims=r["dims"], offset=r["offset"]):
            raise Violation("text:roundtrip-differs", dict(text=text, back=G.tsl_to_recipe(back.data)))
    # the compact hand-written form (no blanks) denotes the same layout
    if not dyn_off:
        compact = "#tsl.tsl<" + ",".join(
            "[" + ",".join(_fmt(b) for _, b in dim) + "]->(" + ",".join(_fmt(s) for s, _ in dim) + ")" for dim in r["dims"])
        if r["offset"] != 0 or c.get("explicit_zero"):
            compact += f",offset:{r['offset']}"
        compact += ">"
        try:
            back2 = Parser(_ctx(), compact).parse_attribute()
        except Exception as e:  # noqa: BLE001
            raise Violation(f"text:compact-parse-raises:{type(e).__name__}", dict(text=compact, error=repr(e)[:300]))
        if back2 != attr:
            raise Violation("text:compact-form-differs", dict(text=compact, back=_print_attr(back2)))
    return Info(nontrivial=_nontrivial(r), classes=_classes(r, (f"ctx:{c['ctx']}",)), evals=2, known=known)


# ================================================================================================
# 5. from_stride / from_strides / canonicalize


def _sentinel_dims(dims_l, dims_c):
    """Give the dynamic entries of a layout and of its canonical form the same concrete values.
    Dynamic strides are never merged or reordered by canonicalize (only static unit bounds are dropped), so the i-th
    dynamic stride with bound != 1 of a dimension corresponds to the i-th one of the canonical form."""
    out_l, out_c = [], []
    for d, (dl, dc) in enumerate(zip(dims_l, dims_c)):
        def fill(dim):
            j = 0
            res = []
            for s, b in dim:
                if s is None or b is None:
                    if b == 1:
                        res.append([1, 1])
                        continue
                    res.append([1000003 + 1009 * j + 17 * d if s is None else s, 3 + (j % 2) if b is None else b])
                    j += 1
                else:
                    res.append([s, b])
            return res, j
        a, ja = fill(dl)
        b, jb = fill(dc)
        if ja != jb:
            raise Violation("canon:dynamic-stride-lost-or-added", dict(dim=d))
        out_l.append(a)
        out_c.append(b)
    return out_l, out_c


def prop_build(c):
    kind = c["kind"]
    if kind == "from_strides":
        strides, tbs, off = c["strides"], c["tile_bounds"], c["offset"]
        t = _call("from_strides", TiledStridedLayout.from_strides, list(strides), [list(x) for x in tbs], off)
        got = G.tsl_to_recipe(t)
        # reference: dimension d with plain stride s_d: addr contribution idx_d * s_d, whatever the tiling
        exp = dict(dims=[[[None if strides[d] is None else strides[d] * int(np.prod(tb[k + 1:], dtype=np.int64)), tb[k]]
                          for k in range(len(tb))] for d, tb in enumerate(tbs)], offset=off)
        if [[b for _, b in dim] for dim in got["dims"]] != [list(x) for x in tbs]:
            raise Violation("from_strides:tile-bounds-differ", dict(got=got))
        if got["offset"] != off:
            raise Violation("from_strides:offset-differs", dict(got=got["offset"]))
        for d, dim in enumerate(got["dims"]):
            if any((s is None) != (strides[d] is None) for s, _ in dim):
                raise Violation("from_strides:dynamic-ness-differs", dict(dim=d, got=dim))
        # semantic comparison at run-time sizes
        rtb = [3 if tb[0] is None else tb[0] for tb in tbs]
        rts = [c["rt_strides"][d] for d in range(len(tbs))]
        inst = [[[(rts[d] * int(np.prod(tbs[d][k + 1:], dtype=np.int64))) if s is None else s, rtb[d] if b is None else b]
                 for k, (s, b) in enumerate(dim)] for d, dim in enumerate(got["dims"])]
        for d, dim in enumerate(inst):
            v = G.dim_vector(dim)
            s_d = strides[d] if strides[d] is not None else rts[d]
            if not (v == np.arange(len(v), dtype=np.int64) * s_d).all():
                raise Violation("from_strides:addr-differs-from-plain-stride", dict(dim=d, got=got["dims"][d], stride=strides[d]))
        if got != exp:
            raise Violation("from_strides:layout-differs", dict(got=got, expected=exp))
        # single-dimension API agrees
        for d, tb in enumerate(tbs):
            ts = _call("from_stride", TiledStride.from_stride, strides[d], list(tb))
            if [[s.step, s.bound] for s in ts.strides] != got["dims"][d]:
                raise Violation("from_stride:differs-from-from_strides", dict(dim=d))
        rr = got
        cls = ["kind:from_strides"] + (["dyn-stride"] if any(s is None for s in strides) else []) + \
              (["dyn-bound"] if any(tb[0] is None for tb in tbs) else [])
        return Info(nontrivial=_nontrivial(rr), classes=_classes(rr, cls), evals=1 + len(tbs))

    # ---- canonicalize
    r = c["layout"]
    t = G.mk_tsl(r)
    tc = _call("canon", t.canonicalize)
    rc = G.tsl_to_recipe(tc)
    if not isinstance(tc, TiledStridedLayout) or len(rc["dims"]) != len(r["dims"]):
        raise Violation("canon:rank-changed", dict(got=rc))
    if rc["offset"] != r["offset"]:
        raise Violation("canon:offset-changed", dict(got=rc["offset"]))
    if any(len(dim) == 0 for dim in rc["dims"]):
        raise Violation("canon:empty-dimension", dict(got=rc))
    if G.is_dynamic(r):
        dl, dc = _sentinel_dims(r["dims"], rc["dims"])
    else:
        dl, dc = r["dims"], rc["dims"]
    for d, (a, b) in enumerate(zip(dl, dc)):
        va, vb = G.dim_vector(a), G.dim_vector(b)
        if va.shape != vb.shape:
            raise Violation("canon:dimension-size-changed", dict(dim=d, before=r["dims"][d], after=rc["dims"][d]))
        if not (va == vb).all():
            raise Violation("canon:addr-changed", dict(dim=d, before=r["dims"][d], after=rc["dims"][d],
                                                        index=int(np.argwhere(va != vb)[0][0])))
    tcc = _call("canon:twice", tc.canonicalize)
    if G.tsl_to_recipe(tcc) != rc or not (tcc == tc):
        raise Violation("canon:not-idempotent", dict(once=rc, twice=G.tsl_to_recipe(tcc)))
    for d, ts in enumerate(t.tstrides):
        one = _call("canon:tiled-stride", ts.canonicalize)
        if [[s.step, s.bound] for s in one.strides] != rc["dims"][d]:
            raise Violation("canon:tiled-stride-vs-layout-differ", dict(dim=d))
    changed = rc["dims"] != r["dims"]
    squashed = any(len(dc_) < max(1, len([1 for _, b in dim if b != 1])) for dim, dc_ in zip(r["dims"], rc["dims"]))
    cls = ["kind:canon", f"fam:{c['fam']}", "changed" if changed else "unchanged"] + (["squashed"] if squashed else [])
    return Info(nontrivial=bool(_nontrivial(r) and changed), classes=_classes(r, cls), evals=2 + len(r["dims"]))


# ================================================================================================
# 6. largest_common_contiguous_block


def _ref_max_block(a, b, start):
    """Size (number of elements) of the largest block found by the greedy search when every tie is explored."""
    pos = [p for p in G.positions(a) if a["dims"][p[0]][p[1]] == b["dims"][p[0]][p[1]] and None not in a["dims"][p[0]][p[1]]]
    best = 1

    budget = [2000]

    def rec(cur, used, size):
        nonlocal best
        best = max(best, size)
        budget[0] -= 1
        if budget[0] <= 0:
            return
        for p in pos:
            if p not in used and a["dims"][p[0]][p[1]][0] == cur:
                s, bd = a["dims"][p[0]][p[1]]
                rec(s * bd, used | {p}, size * bd)
    rec(start, frozenset(), 1)
    return best


def prop_lccb(c):
    a, b, start = c["a"], c["b"], c["start"]
    ta, tb = G.mk_tsl(a), G.mk_tsl(b)
    if c["fam"] != "bounds-differ" and not ta.equal_tile_bounds(tb):
        raise AssertionError("generator: tile bounds differ")
    res = _call("lccb", ta.largest_common_contiguous_block, tb, start)
    if not isinstance(res, list) or not res or not all(isinstance(s, Stride) for s in res):
        raise Violation("lccb:result-not-a-stride-list", dict(got=repr(res)[:200]))
    rs = [[s.step, s.bound] for s in res]
    detail = dict(result=rs)
    default = rs == [[start, 1]]
    # (a) every returned stride sits at one and the same (dim, depth) of both layouts, distinct positions
    used: list = []
    matched = []
    for sb in rs:
        p = next((p for p in G.positions(a) if p not in used and a["dims"][p[0]][p[1]] == sb and b["dims"][p[0]][p[1]] == sb), None)
        if p is None:
            if default:
                break
            raise Violation("lccb:stride-not-shared-at-same-position", detail)
        used.append(p)
        matched.append((p, sb))
    # (b) the static part is a contiguous run starting at `start`
    static = []
    for p, sb in matched:
        if None in sb:
            break
        static.append((p, sb))
    cur = start
    for _, (s, bd) in static:
        if s != cur:
            raise Violation("lccb:not-a-contiguous-run", detail)
        cur = s * bd
    # (c) semantically, with the reference: walking the block's digits (first stride fastest) visits start*0, start*1, ... in both layouts
    n = 1
    for _, (_, bd) in static:
        n *= bd
    n_chk = min(n, 512)
    if any(a["dims"][d][k + 1:] != b["dims"][d][k + 1:] and [x[1] for x in a["dims"][d][k + 1:]] != [x[1] for x in b["dims"][d][k + 1:]]
           for (d, k), _ in static):
        # below a shared position the two layouts tile the dimension differently: a digit there addresses different logical elements
        # in the two layouts, so "the same elements" is not defined (only possible in the bounds-differ family); (a) and (b) still hold
        n_chk = 0
    # dynamic entries are never part of the static block: their digits stay 0, so any concrete value will do
    za, zb = (dict(dims=[[[s or 0, bd or 1] for s, bd in dim] for dim in x["dims"]], offset=x["offset"]) for x in (a, b))
    for i in range(n_chk):
        idx = [0] * len(a["dims"])
        rem = i
        for (d, k), (_, bd) in static:
            dg = rem % bd
            rem //= bd
            inner = 1
            for _, ib in a["dims"][d][k + 1:]:
                inner *= ib
            idx[d] += dg * inner
        ra = G.addr(za, idx) - a["offset"]
        rb = G.addr(zb, idx) - b["offset"]
        if ra != start * i or rb != start * i:
            raise Violation("lccb:block-not-contiguous-in-both", dict(detail, index=idx, addr_a=ra, addr_b=rb, expected=start * i))
    # maximality is reported, not required
    cls = [f"fam:{c['fam']}", f"start:{start}", f"len:{min(len(rs), 4)}{'+' if len(rs) > 4 else ''}"]
    if default:
        cls.append("default-single-element")
    if len(static) < len(matched):
        cls.append("dynamic-tail")
        # reported only: is the whole returned run (dynamic strides included) contiguous at run time under the dense rule?
        ia, ib = (G.instantiate(x, [3] * len(x["dims"])) for x in (a, b))
        cur, contiguous = start, True
        for (d, k), _ in matched:
            sa_, ba_ = ia["dims"][d][k]
            if sa_ != cur or ib["dims"][d][k][0] != cur:
                contiguous = False
                break
            cur = sa_ * ba_
        cls.append("dynamic-tail:contiguous-at-run-time" if contiguous else "dynamic-tail:NOT-contiguous-at-run-time")
    if not G.is_dynamic(a):
        mx = _ref_max_block(a, b, start)
        cls.append("maximal" if n >= mx else "smaller-than-maximal")
    whole = len(matched) == len(G.positions(a))
    if whole:
        cls.append("whole-layout")
    return Info(nontrivial=bool(n > 1 and _nontrivial(a)), classes=_classes(a, cls), evals=1 + n_chk)


# ================================================================================================
# 7. convert-memref-to-arith: extract_aligned_pointer(subview(tsl source))

_BASE = 0x10000
_PASS: list = []


def _mt_text(elt, shape, tsl_text):
    return f"memref<{'x'.join(str(s) for s in shape)}x{elt}, {tsl_text}>"


def prop_ptr(c):
    from vlib.ctx import parse

    if not _PASS:
        # the pass object `snax-opt -p convert-memref-to-arith` resolves
        from snaxc.transforms import get_all_snax_passes

        _PASS.append(get_all_snax_passes()["convert-memref-to-arith"]())
    ConvertMemrefToArithPass = _PASS[0]

    r = c["layout"]
    el = _ELSIZE[c["elt"]]
    shape = G.shape_of(r)
    n = len(shape)
    offs = c["offsets"]  # per dim: ["s", value] static / ["d", value] dynamic run-time value; multiples of the inner tile size
    sizes = [max(1, shape[d] - offs[d][1]) for d in range(n)]
    src_ty = _mt_text(c["elt"], shape, _print_attr(G.mk_attr(r)))
    res_ty = _mt_text(c["elt"], sizes, _print_attr(G.mk_attr(r)))
    dyn = [d for d in range(n) if offs[d][0] == "d"]
    lines = [f'%m = "test.op"() : () -> ({src_ty})']
    for d in dyn:
        lines.append(f'%o{d} = "test.op"() {{rt = {offs[d][1]} : index}} : () -> (index)')
    st_offs = ", ".join(str(DYNAMIC_INDEX) if offs[d][0] == "d" else str(offs[d][1]) for d in range(n))
    operands = ", ".join(["%m"] + [f"%o{d}" for d in dyn])
    in_tys = ", ".join([src_ty] + ["index"] * len(dyn))
    lines.append(
        f'%sv = "memref.subview"({operands}) <{{operandSegmentSizes = array<i32: 1, {len(dyn)}, 0, 0>, '
        f'static_offsets = array<i64: {st_offs}>, static_sizes = array<i64: {", ".join(map(str, sizes))}>, '
        f'static_strides = array<i64: {", ".join(["1"] * n)}>}}> : ({in_tys}) -> {res_ty}')
    lines.append(f'%p = "memref.extract_aligned_pointer_as_index"(%sv) : ({res_ty}) -> index')
    lines.append('"test.op"(%p) {sink} : (index) -> ()')
    text = "builtin.module {\n  " + "\n  ".join(lines) + "\n}\n"
    mod = parse(text, _ctx())
    mod.verify()
    try:
        ConvertMemrefToArithPass().apply(_ctx(), mod)
    except NotImplementedError as e:
        raise Reject(f"convert-memref-to-arith: {e}")
    except Exception as e:  # noqa: BLE001
        raise Violation(f"ptr:pass-raises:{type(e).__name__}", dict(error=repr(e)[:300], ir=text))
    try:
        mod.verify()
    except Exception as e:  # noqa: BLE001
        raise Violation("ptr:invalid-ir-after-pass", dict(error=repr(e)[:300], ir=text))
    env: dict = {}
    rt = dict(memref=None, shape=shape, strides=[0] * n, offset=0, base=_BASE)
    sink_val = None
    todo = []
    for op in mod.body.block.ops:
        if op.name == "test.op":
            if "sink" in op.attributes:
                sink_val = op.operands[0]
            elif "rt" in op.attributes:
                env[id(op.results[0])] = op.attributes["rt"].value.data
            else:
                rt["memref"] = op.results[0]
        elif op.name == "memref.subview":
            continue
        else:
            todo.append(op)
    try:
        _eval_ops(todo, env, rt)
    except _UseBeforeDef as e:
        raise Violation("ptr:unexpected-dataflow-after-pass", dict(error=str(e), ir=text))
    if sink_val is None or id(sink_val) not in env:
        raise Violation("ptr:pointer-not-computed", dict(ir=text))
    got = env[id(sink_val)]
    idx = [offs[d][1] for d in range(n)]
    exp = _BASE + (G.addr(r, idx) - r["offset"]) * el
    known = []
    if got != exp:
        detail = dict(ir=text, got=got - _BASE, expected=exp - _BASE, offsets=offs, elsize=el)
        # narrow: the mismatch is exactly the contribution of the non-zero *static* offsets
        idx_dyn_only = [offs[d][1] if offs[d][0] == "d" else 0 for d in range(n)]
        if not dyn and got == el:
            # rewriter.replace_op(op, [aligned_pointer, bytes_op]) takes the results of the LAST new op: the element-size constant
            known.append(("ptr:no-dynamic-offset:pointer-replaced-by-element-size-constant", detail))
        elif dyn and any(offs[d][0] == "s" and offs[d][1] != 0 for d in range(n)) and \
                got == _BASE + (G.addr(r, idx_dyn_only) - r["offset"]) * el:
            known.append(("ptr:nonzero-static-subview-offset-ignored", detail))
        else:
            raise Violation("ptr:pointer-differs-from-addr", detail)
    cls = [f"el:{el}", f"dyn-offsets:{len(dyn)}"]
    if any(offs[d][0] == "s" and offs[d][1] != 0 for d in range(n)):
        cls.append("static-nonzero-offset")
    if any(o[1] != 0 for o in offs):
        cls.append("moved")
    return Info(nontrivial=bool(any(o[1] != 0 for o in offs) and _nontrivial(r)), classes=_classes(r, cls), sample=text, known=known)


# ================================================================================================
# strategies


def st_static(tier):
    return G.static_layout(tier)


@st.composite
def st_ops(draw, tier="quick"):
    mode = draw(st.sampled_from(["tsl", "tsl", "strided"]))
    base = dict(mode=mode, elt=draw(st.sampled_from(["i8", "i16", "i32", "i64", "f32"])), in_bytes=draw(st.booleans()),
                via=draw(st.sampled_from(["memref", "memref", "shapes"])), pass_memref=draw(st.booleans()))
    if mode == "strided":
        base.update(draw(G.strided_case(tier)))
        return base
    if draw(st.integers(0, 3)) == 0:
        lay = draw(G.static_layout(tier, max_elems=4096))["layout"]
        base.update(layout=lay, rt=[dim[0][1] for dim in lay["dims"]])
    else:
        base.update(draw(G.dynamic_layout(tier)))
    return base


@st.composite
def st_text(draw, tier="quick"):
    k = draw(st.integers(0, 3))
    if k == 0:
        lay = draw(G.dynamic_layout(tier))["layout"]
    else:
        lay = draw(G.static_layout(tier))["layout"]
        if k == 1:
            # `?` anywhere: the text form is purely syntactic (from_strides produces dynamic inner steps)
            lay = dict(dims=[[[None if draw(st.integers(0, 3)) == 0 else s, None if draw(st.integers(0, 5)) == 0 else b]
                              for s, b in dim] for dim in lay["dims"]], offset=lay["offset"])
    if draw(st.integers(0, 7)) == 0:
        lay = dict(lay, offset=None)
    return dict(layout=lay, ctx=draw(st.sampled_from(["attr", "memref"])), explicit_zero=draw(st.booleans()))


@st.composite
def st_build(draw, tier="quick"):
    if draw(st.integers(0, 2)) == 0:
        c = draw(G.strided_case(tier))
        return dict(kind="from_strides", **c)
    k = draw(st.integers(0, 4))
    if k == 0:
        return dict(kind="canon", fam="dynamic", layout=draw(G.dynamic_layout(tier))["layout"])
    c = draw(G.static_layout(tier))
    lay = c["layout"]
    if k == 1:
        # make squashing likely: rewrite some inner->outer neighbours as step_outer = step_inner * bound_inner
        dims = [[list(s) for s in dim] for dim in lay["dims"]]
        for dim in dims:
            for i in range(len(dim) - 2, -1, -1):
                if draw(st.booleans()):
                    dim[i][0] = dim[i + 1][0] * dim[i + 1][1]
        lay = dict(dims=dims, offset=lay["offset"])
        return dict(kind="canon", fam="squashable", layout=lay)
    return dict(kind="canon", fam=c["fam"], layout=lay)


@st.composite
def st_lccb(draw, tier="quick"):
    return draw(G.layout_pair(tier, base=draw(st.sampled_from([1, 1, 1, 2, 4])), bounds_may_differ=True))


@st.composite
def st_ptr(draw, tier="quick"):
    lay = draw(G.nonoverlap_layout(tier, max_rank=3, max_elems=4096))
    offs = []
    for dim in lay["dims"]:
        inner = _inner_prod(dim)
        outer = dim[0][1]
        kind = draw(st.sampled_from(["d", "d", "s0", "s0", "s"]))
        if kind == "s0":
            offs.append(["s", 0])
        else:
            offs.append([kind, inner * draw(st.integers(0, outer - 1))])
    return dict(layout=lay, elt=draw(st.sampled_from(["i8", "i16", "i32", "i64"])), offsets=offs)


# ================================================================================================
# exhaustive enumeration of small static layouts


def _small(tier):
    """rank<=2, depth<=2, bounds<=3, steps<=4 (quick: 26 220 layouts) / bounds<=4, steps<=6 (thorough: 366 432 layouts),
    plus rank 1 with depth 3. (DESIGN asks bounds<=3, steps<=6 = 122 850 layouts already in quick; at the measured 0.4 ms per
    layout and view that alone is 150 CPU-seconds, so quick enumerates steps<=4 and thorough goes beyond the design.)"""
    if tier == "thorough":
        return itertools.chain(G.enumerate_small(2, 2, 4, 6), G.enumerate_small(1, 3, 3, 6, min_depth=3))
    return itertools.chain(G.enumerate_small(2, 2, 3, 4), G.enumerate_small(1, 3, 3, 4, min_depth=3))


def exh_static(tier):
    for i, dims in enumerate(_small(tier)):
        yield dict(fam="enumerated", layout=dict(dims=dims, offset=(0, 0, 3)[i % 3]))


def exh_canon(tier):
    for i, dims in enumerate(_small(tier)):
        yield dict(kind="canon", fam="enumerated", layout=dict(dims=dims, offset=(0, 0, 3)[i % 3]))


def exh_text(tier):
    for i, dims in enumerate(_small(tier)):
        if i % 8 == 0:
            yield dict(layout=dict(dims=dims, offset=(0, 0, 3)[i % 3]), ctx=("attr", "memref")[(i // 8) % 2], explicit_zero=bool(i % 5 == 0))


_NT = "some dimension has tile depth >= 2, or the layout is dynamic, or offset != 0"

SUBS = [
    Sub("affine_map", st_static, prop_affine, budget=dict(quick=4000, thorough=150000), exhaustive=exh_static,
        floor=dict(quick=7000, thorough=120000), nontrivial_rule=_NT),
    Sub("values_overlap_dense", st_static, prop_values, budget=dict(quick=5000, thorough=200000), exhaustive=exh_static,
        floor=dict(quick=7000, thorough=130000), nontrivial_rule=_NT),
    Sub("bound_step_ops", st_ops, prop_ops, budget=dict(quick=6000, thorough=150000),
        floor=dict(quick=1100, thorough=26000), nontrivial_rule=_NT),
    Sub("text_roundtrip", st_text, prop_text, budget=dict(quick=4000, thorough=120000), exhaustive=exh_text,
        floor=dict(quick=1500, thorough=30000), nontrivial_rule=_NT),
    Sub("build_canonicalize", st_build, prop_build, budget=dict(quick=5000, thorough=200000), exhaustive=exh_canon,
        floor=dict(quick=4500, thorough=65000),
        nontrivial_rule=_NT + "; for canonicalize additionally the canonical form differs from the input"),
    Sub("common_block", st_lccb, prop_lccb, budget=dict(quick=5000, thorough=150000),
        floor=dict(quick=450, thorough=13000), nontrivial_rule="the reported block has more than one element and " + _NT),
    Sub("subview_pointer", st_ptr, prop_ptr, budget=dict(quick=1000, thorough=30000),
        floor=dict(quick=110, thorough=3200), nontrivial_rule="some subview offset is non-zero and " + _NT),
]
