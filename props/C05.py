"""C05 DMA lowering of a copy moves every element to its layout position.

One `memref.copy %src, %dst` (function arguments, equal shape, integer elements) is lowered by the real pass
`snax-copy-to-dma`; the emitted code (arith + scf.for + func.call @snax_dma_{1d,2d}_transfer) is executed by vlib/interp.py
on the byte memory + DMA machine (vlib/machine_dma.py, runtime semantics of runtime/include/snax_rt.h) with run-time memref
descriptors of the case. The oracle is the layout definition (vlib/gen_c05.py: MLIR identity / strided layouts, README of
snaxc/ir/tsl through vlib/gen_tsl.py), never `get_affine_map` or any other code under test:
  content:   after execution, byte j of logical element idx of the destination (at base_dst + addr_dst(idx)*elsize + j) holds the
             byte that was at base_src + addr_src(idx)*elsize + j;
  footprint: every byte read is a byte of some source element, every byte written is a byte of some destination element
             (so destination bytes outside the footprint are unchanged).

Preconditions of the pass, as read from snaxc/transforms/snax_copy_to_dma.py (the generator stays inside them):
  * MatchSimpleCopy: both memrefs without layout -> one 1-D transfer of prod(dims) * element size (dims through memref.dim).
  * TransformDMA: both operands memrefs of equal shape and equal *integer* element type, otherwise the copy is left alone.
    A non-tsl side is turned into a TSL with TiledStridedLayout.from_strides: strides from strided<> (`?` -> dynamic) or row-major
    (dynamic as soon as a dimension to the right is `?`), offset from strided<> (0 without layout), tile bounds from the tsl side or,
    if there is none, one tile per dimension. Any other layout attribute: NotImplementedError.
  * both TSLs are assumed to have equal tile bounds ("constraint" in the code, never checked) -> unequal bounds are outside.
  * dynamic offset only for strided<> ("dynamic offsets for tsl is TODO", assert) -> tsl offsets are static here.
  * dynamic sizes: outermost bound = memref.dim / product of inner bounds (divui: the size must be a multiple); dynamic steps of a
    strided<> memref come from extract_strided_metadata, all other dynamic steps follow the TSL contiguity rule (largest static step
    x its bound, then right to left, innermost to outermost).
  * "if my reasoning is correct, if there are remaining strides, then the lcb cannot be dynamic": two bare asserts. They do fire
    (copy between two views with a dynamic innermost dimension and a static/unequal outer stride); a crash is not a statement about
    moved bytes, so it is counted as a rejection `crash:AssertionError:...` and reported, not raised.
  * test-ignore-transform=true is documented to produce wrong data and is not exercised.
"""
from __future__ import annotations

import numpy as np
from hypothesis import strategies as st  # noqa: F401

from vlib import gen_c05 as G5
from vlib import gen_tsl as G
from vlib.ctx import PassTimeout, parse, run_pass, shared_ctx, time_limit, to_text
from vlib.interp import Interp, StepBudget, UseBeforeDef, dominance_errors
from vlib.machine_dma import BadTransfer, DMAMachine, MemDesc, NoStridedMetadata
from vlib.runner import Info, Outside, Reject, Sub, Violation

ID = "C05"
RULE = (
    "Recipes: element type i8/i16/i32/i64, rank 1..4, run-time tile bounds per dimension (depth 1..3 when a side is tsl, bounds 1..8, "
    "<= 4096 elements quick / 32768 thorough), per dimension a flag 'memref dimension is ?' (run-time outer bound 1..5), and per side one "
    "of: no layout, strided<[..], offset: k> (static or `?` strides/offset, run-time values in the recipe), #tsl.tsl<..> over the shared tile "
    "bounds (gaps, padding, static offset, `?` steps only on outermost tiles as the TSL README allows). Layouts are constructed one-to-one by "
    "nesting the (dim, depth) positions in a drawn order; the destination's order is the source's / shares a prefix / is independent, so "
    "whole, partial and single-element common contiguous blocks and equal steps at different positions are frequent; unit bounds carry "
    "arbitrary steps; 1 in 10 static cases with a laid-out source makes the source overlap itself (a step repeated at another position, a legal source). Plus every rank-2, depth<=2, bounds<=3 tsl pair of "
    "the constructed family (source gap-free, destination with at most one factor-2 gap), a slice of it in quick. The real pass snax-copy-to-dma is applied and the "
    "result executed on a token byte memory with the snax_rt.h DMA semantics; content and footprint are compared with the layout "
    "definition. Non-trivial: more than one element and the two layouts differ as address functions (relative to their offsets); distinct by recipe hash."
)
ASSUMPTIONS = [
    "xDSL 0.70 compatibility shim (vlib/compat.py)",
    "interpreter vlib/interp.py (arith, scf.for, func.call; index = 64 bit) and vlib/machine_dma.py: snax_dma_1d_transfer(src, dst, size), "
    "snax_dma_2d_transfer(src, dst, size, src_stride, dst_stride, repeat) as in runtime/include/snax_rt.h + Snitch snrt_dma_start_2d "
    "(repeat r copies size bytes from src + r*src_stride to dst + r*dst_stride; all byte quantities)",
    "memref.extract_aligned_pointer_as_index returns the aligned base without the layout offset; element address = base + "
    "(offset + sum digit*step) * element size (MLIR strided semantics; tsl README + the pass's own 'apply offset' step)",
    "a dynamic tsl step means what the README's 'Dynamic Sizes' section and the comments of get_step_ops say (vlib.gen_tsl.instantiate): "
    "first dynamic step = largest static step x its bound, then densely right-to-left; dynamic strides of a strided<> memref are whatever "
    "the run-time descriptor holds (get_step_ops: 'we cannot perform the TSL contiguity assumptions')",
    "source and destination buffers are disjoint; the destination layout is one-to-one (else 'the element at its position' is undefined)",
]


def _flat(a):
    return np.asarray(a, dtype=np.int64).reshape(-1)


def _validate(r):
    n = len(r["tb"])
    if not (1 <= n <= 4) or len(r["dyn"]) != n:
        raise Outside("malformed recipe")
    tiled = "tsl" in (r["src"]["kind"], r["dst"]["kind"])
    for bs in r["tb"]:
        if not bs or any(b < 1 for b in bs) or (len(bs) > 1 and not tiled):
            raise Outside("tile depth > 1 without a tsl side")
    for side in (r["src"], r["dst"]):
        if side["kind"] == "tsl":
            steps = [s for dim in side["steps"] for s in dim]
            if all(s is None for s in steps):
                raise Outside("all-dynamic tsl (no static step to anchor the dynamic ones; C10 finding)")
            for d, dim in enumerate(side["steps"]):
                if any(s is None for s in dim[1:]):
                    raise Outside("dynamic step below the outermost tile (outside the README domain)")
            lay = G5.tsl_layout(r, side)
            cands, _ = G.static_max_candidates(lay)
            if any(s is None for s in steps) and len({r["tb"][d][k] for d, k in cands}) > 1:
                raise Outside("tie for the largest static step with different bounds: meaning of the dynamic steps undefined")


def _features(r):
    f = []
    for nm in ("src", "dst"):
        s = r[nm]
        if s["kind"] == "strided":
            if any(s["dyn_strides"]):
                f.append("dyn-stride")
            if s["dyn_offset"]:
                f.append("dyn-offset")
        if s["kind"] == "tsl" and any(x is None for dim in s["steps"] for x in dim):
            f.append("dyn-step")
    if any(r["dyn"]):
        f.append("dyn-shape")
    return sorted(set(f))


def prop(r):
    _validate(r)
    elsize = G5.ELSIZE[r["elt"]]
    shape = G5.rt_shape(r)
    n = int(np.prod(shape))
    src_el = _flat(G5.ref_elem_addrs(r, r["src"]))
    dst_el = _flat(G5.ref_elem_addrs(r, r["dst"]))
    if len(np.unique(dst_el)) != n:
        raise Outside("destination layout is not one-to-one")
    src_overlaps = len(np.unique(src_el)) != n
    if src_overlaps and _features(r):
        raise Outside("dynamic source layout overlaps itself at this run-time size")

    base_src = 0x1000 + 8 * r["bs"]
    src_end = base_src + (int(src_el.max()) + 1) * elsize
    base_dst = (src_end + 7) // 8 * 8 + 0x40 + 8 * r["bd"]
    lane = np.arange(elsize, dtype=np.int64)
    src_bytes = (base_src + src_el[:, None] * elsize + lane[None, :]).reshape(-1)
    dst_bytes = (base_dst + dst_el[:, None] * elsize + lane[None, :]).reshape(-1)
    src_list, dst_list = src_bytes.tolist(), dst_bytes.tolist()
    src_fp, dst_fp = set(src_list), set(dst_list)

    text = G5.module_text(r)
    mod = parse(text, shared_ctx())
    mod.verify()
    try:
        with time_limit(20):
            run_pass(mod, "snax-copy-to-dma")
    except PassTimeout:
        raise Reject("pass did not terminate within 20 s")
    except NotImplementedError as e:
        raise Reject(f"NotImplementedError: {str(e)[:60]}")
    except Exception as e:  # noqa: BLE001  a crash is not a statement about moved bytes (DESIGN 3.5): counted, floor guards vacuity
        raise Reject(f"crash:{type(e).__name__}:{_where(e)}:{sig_class(r, src_overlaps)}")
    after = to_text(mod)
    detail = dict(before=text, after=after, shape=shape, elsize=elsize, base_src=base_src, base_dst=base_dst)
    try:
        mod.verify()
    except Exception as e:  # noqa: BLE001
        raise Violation("copy-to-dma:emitted-module-does-not-verify", dict(detail, error=str(e)[:300]))
    if any(op.name == "memref.copy" for op in mod.walk()):
        raise Reject("memref.copy left in place")
    dom = dominance_errors(mod)
    if dom:
        raise Violation("copy-to-dma:use-before-def", dict(detail, errors=dom[:3]))

    m = DMAMachine(byte_budget=max(1 << 16, 64 * n * elsize))
    for a in src_list:
        m.mem[a] = a
    so, ss, sst = G5.descriptor_fields(r, r["src"])
    do, ds, dst_ = G5.descriptor_fields(r, r["dst"])
    args = [MemDesc("src", base_src, so, ss, sst, elsize), MemDesc("dst", base_dst, do, ds, dst_, elsize)]
    kinds = []
    try:
        Interp(mod, m, step_budget=400000).call("f", args)
    except StepBudget:
        raise Reject("inconclusive: step/byte budget exceeded")
    except NoStridedMetadata as e:
        raise Reject(f"strided metadata of a non-strided memref requested: {str(e)[:40]}")
    except UseBeforeDef as e:
        raise Violation("copy-to-dma:use-before-def-at-run-time", dict(detail, error=str(e)))
    except BadTransfer as e:
        kinds.append("negative-size")
        detail["bad_call"] = list(e.call)

    # ---- oracle ----------------------------------------------------------------------------------
    w_out = m.writes - dst_fp
    r_out = m.reads - src_fp
    bad = None
    nbad = 0
    mem = m.mem
    for i, (da, sa) in enumerate(zip(dst_list, src_list)):
        if mem.get(da) != sa:
            nbad += 1
            if bad is None:
                bad = i
    if nbad:
        kinds.append("content")
        idx = np.unravel_index(bad // elsize, shape)
        got = mem.get(dst_list[bad])
        detail["content"] = dict(wrong_bytes=nbad, of=len(dst_list), first_index=[int(x) for x in idx], byte=bad % elsize,
                                 dst_byte_address=dst_list[bad], expected_source_byte=src_list[bad],
                                 found=("never written" if got is None else f"byte from address {got}"))
    if w_out:
        kinds.append("write-outside-destination")
        detail["write_outside"] = dict(count=len(w_out), first=min(w_out))
    if r_out:
        kinds.append("read-outside-source")
        detail["read_outside"] = dict(count=len(r_out), first=min(r_out))

    form, lcb_cls = _form(mod, m, n, elsize)
    if kinds:
        detail["calls"] = [list(c) for c in m.calls[:6]]
        detail["features"] = _features(r)
        raise Violation(signature(r, kinds, form, src_overlaps), detail)

    rel_s = src_el - int(src_el[0])
    rel_d = dst_el - int(dst_el[0])
    differ = bool((rel_s != rel_d).any())
    cls = [f"kinds:{r['src']['kind']}->{r['dst']['kind']}", form, lcb_cls, f"rank:{len(shape)}", f"depth:{max(len(b) for b in r['tb'])}",
           f"elt:{r['elt']}", f"fam:{r.get('fam', 'constructed')}"]
    feats = _features(r)
    cls += [f"dyn:{f}" for f in feats] or ["dyn:static"]
    cls.append("class:" + sig_class(r, src_overlaps))
    so_ = r["src"].get("offset", 0)
    do_ = r["dst"].get("offset", 0)
    cls.append("offset:" + ("both" if so_ and do_ else "src" if so_ else "dst" if do_ else "none"))
    if any(b == 1 for bs in r["tb"] for b in bs):
        cls.append("unit-bound")
    if src_overlaps:
        cls.append("src-overlaps")
    if _equal_step_other_position(r):
        cls.append("equal-step-other-position")
    cls.append("layouts-differ" if differ else "layouts-equal")
    return Info(nontrivial=bool(differ and n > 1), classes=tuple(cls), evals=1, sample=dict(before=text, after=after[:3000]))


def _where(e):
    tb = e.__traceback__
    last = None
    while tb is not None:
        f = tb.tb_frame.f_code
        if "snaxc" in f.co_filename:
            last = f"{f.co_filename.rsplit('/', 1)[-1]}:{f.co_name}:{tb.tb_lineno}"
        tb = tb.tb_next
    return last or "?"


def _form(mod, m, n, elsize):
    depth = 0
    name = None
    for op in mod.walk():
        if op.name == "func.call":
            name = op.callee.root_reference.data
            p = op.parent_op()
            while p is not None and p.name != "func.func":
                if p.name == "scf.for":
                    depth += 1
                p = p.parent_op()
            break
    if name == "snax_dma_1d_transfer":
        form = "form:1d"
    elif depth == 0:
        form = "form:2d"
    else:
        form = f"form:nest{depth}"
    size = m.calls[0][3] if m.calls else 0
    lcb = "lcb:1elem" if size == elsize else "lcb:whole" if size == n * elsize else "lcb:partial"
    return form, lcb


def _equal_step_other_position(r):
    """Some step value (bound > 1) sits at different (dim, depth) positions on the two sides."""
    try:
        a = G5.ref_static_layout(r, r["src"])
        b = G5.ref_static_layout(r, r["dst"])
    except Exception:  # noqa: BLE001
        return False
    pa = {(d, k): s for d, dim in enumerate(a["dims"]) for k, (s, bd) in enumerate(dim) if bd > 1}
    pb = {(d, k): s for d, dim in enumerate(b["dims"]) for k, (s, bd) in enumerate(dim) if bd > 1}
    for p, s in pa.items():
        for q, t in pb.items():
            if p != q and s == t and pb.get(p) != s:
                return True
    return False


def type_level(r, side):
    """What the *types* say about one side, per position (dim, depth): (step | None, bound | None). Written from the MLIR layout
    definitions (identity layout: stride of a dimension is static iff every dimension to its right is static; strided: as
    annotated; a non-tsl side is tiled densely inside a dimension), not from TiledStridedLayout.from_strides."""
    tb, dyn = r["tb"], r["dyn"]
    k = side["kind"]
    out = {}
    if k == "tsl":
        for d, bs in enumerate(tb):
            for kk, b in enumerate(bs):
                out[(d, kk)] = (side["steps"][d][kk], None if (kk == 0 and dyn[d]) else b)
        return out
    shape = G5.rt_shape(r)
    if k == "none":
        strides = []
        rm = G5.rowmajor_strides(shape)
        for d in range(len(shape)):
            strides.append(None if any(dyn[d + 1:]) else rm[d])
    else:
        strides = [None if dy else s for s, dy in zip(side["strides"], side["dyn_strides"])]
    for d, bs in enumerate(tb):
        inner = 1
        for kk in reversed(range(len(bs))):
            b = None if (kk == 0 and dyn[d]) else bs[kk]
            out[(d, kk)] = (None if (strides[d] is None or inner is None) else strides[d] * inner, b)
            inner = None if (inner is None or b is None) else inner * b
    return out


def sig_class(r, src_overlaps=False):
    """Structural class of a case for signatures (narrow known findings), decided on what the two *types* say:
    source-repeats-a-stride     two positions of the source hold the same static (step, bound) with bound > 1 (so the source
                                overlaps itself in a way that makes two of its strides indistinguishable by value)
    shared-dynamic-bound-stride some position holds, on both sides, the same static step with a dynamic bound (`[?] -> (s)`):
                                the only way the common contiguous block of the two types can reach a dynamic stride
    dynamic                     something is `?` but no such position exists
    static                      nothing is `?`"""
    a, b = type_level(r, r["src"]), type_level(r, r["dst"])
    vals = [v for v in a.values() if v[0] is not None and v[1] is not None and v[1] > 1]
    if len(set(vals)) != len(vals):
        return "source-repeats-a-stride"
    if any(a[p] == b[p] and a[p][0] is not None and a[p][1] is None for p in a):
        return "shared-dynamic-bound-stride"
    return "dynamic" if _features(r) else "static"


_KIND_ORDER = ["content", "write-outside-destination", "read-outside-source", "negative-size"]


def signature(r, kinds, form, src_overlaps):
    primary = [k for k in _KIND_ORDER if k in kinds][0]
    c = sig_class(r)
    if c == "source-repeats-a-stride":
        return f"copy-to-dma:{c}:{primary}"
    return f"copy-to-dma:{c}:{form[5:]}:{primary}"


SUBS = [
    Sub("copy", lambda tier: G5.case(tier), prop, budget=dict(quick=2500, thorough=60000), floor=dict(quick=250, thorough=5000),
        nontrivial_rule="more than one element and source/destination layouts differ as address functions"),
    Sub("tsl_pairs_exhaustive", lambda tier: G5.case(tier), prop, budget=dict(quick=0, thorough=0), exhaustive=G5.exhaustive_recipes,
        exhaustive_only=True, floor=dict(quick=750, thorough=35000),
        nontrivial_rule="more than one element and source/destination layouts differ as address functions"),
]
