"""C15 Pipelined double-buffered loops equal the sequential loop."""
from __future__ import annotations

from collections import Counter

from hypothesis import strategies as st

from vlib import gen_c15 as G
from vlib.ctx import PassTimeout, parse, run_pass, shared_ctx, time_limit, to_text
from vlib.interp import Interp, InterpError, StepBudget, UseBeforeDef, dominance_errors
from vlib.machine_c15 import C15Machine, Mem, Root, Terms
from vlib.runner import Info, Outside, Reject, Sub, Violation

ID = "C15"
RULE = (
    "Recipes are functions with one scf.for of the shape construct-pipeline recognises: pure index arithmetic on %i and "
    "memref.subview tiles (1 or 2 whole rows) of global tensors / of a tiled L1 buffer, then 2..4 stages of 1..2 ops from "
    "{memref.copy, linalg.generic with library_call, dart.operation}, each stage closed by snax.cluster_sync_op. Operands are L1 "
    "memref.alloc buffers (allocated before the loop, as reuse-memref-allocs leaves them), whole function-argument buffers and "
    "the tiles; most operands follow the producer(stage s) -> consumer(stage s+1) chain (60..100% per case), the rest are drawn "
    "from side operands or freely, so every buffer-to-stage assignment occurs (what pipeline-duplicate-buffers refuses with "
    "NotImplementedError is a rejection); extra read-only inputs, second outputs, a second op per stage; rarely: accumulating "
    "outs, an index scalar operand, a copy after the loop that reads an L1 buffer. Bounds are constants "
    "with lb in {-3..3}, step in {1,2,3}, trip counts 0..6 (0..8 thorough; up to 9 from a negative lb), about three quarters >= "
    "stages-1. A negative lb (constant or run-time) mostly comes with an ub >= stages-1 (i = lb..-1, 0..ub-1), otherwise with a "
    "negative ub; ub is also negative for some zero-trip loops; tiles are then addressed by %i + %c<-lb> (first index op of the "
    "body), since a negative row is outside every buffer. In about 30% of the "
    "cases lb and/or ub and/or step (every combination) are run-time values: index function arguments, or argument + constant; "
    "both programs are executed with the recipe's values, chosen to make a difference (run-time lb mostly non-zero, one fifth "
    "lb >= ub with a constant ub >= stages-1; run-time step mostly != 1; ub not a multiple of step), while the bounds that stay "
    "constant are mostly canonical (classes 'run-time lb: ...'). "
    "In about 60% of the cases the SSA values used as lb / ub / step have other users, as CSE'd MLIR has them: the bound is the "
    "shared pool constant %c<value> ('cse'), and/or the value is an operand of index arithmetic, a tile row or a scalar stage "
    "operand in the body, the row of a tile copied before the loop (then a barrier) or copied / computed on after the loop, the "
    "lb / ub / step or an offset of a second, plain (barrier-free, hence unpipelined) loop after the first one; classes "
    "'<bound> value shared: <place>' are counted on the IR construct-pipeline receives. The whole function is executed, so "
    "these ops are part of every comparison. "
    "pipeline-canonicalize-for runs first as in snaxc_main (for a quarter of the loops with lb != 0 or step != 1, and half of the short loops at a "
    "positive lower bound whose ub alone looks pipelinable, it is left out and construct-pipeline receives the loop as written); the loop it "
    "leaves is the sequential reference. construct-pipeline, "
    "pipeline-duplicate-buffers, unroll-pipeline are applied and both programs are executed on a two-core epoch machine with "
    "symbolic buffer contents (vlib/machine_c15.py). Oracles: (1) the multiset of (stage op, evaluated operand tiles) is equal, "
    "i.e. every (stage, iteration) exactly once with the same index-dependent operands; (2) no tile is touched that the "
    "sequential loop does not touch; (3) no cross-core read/write conflict inside one barrier epoch (write/write conflicts "
    "poison the rows instead, so they count iff somebody reads them or they survive); (4) every stage op and every op after the "
    "loop reads the same symbolic terms as in the sequential loop and all function-argument buffers end equal. In the ranges "
    "of the two documented unroll-pipeline defects (trip < stages-1; lb != 0 or step != 1) a mismatch is classified as known only "
    "if the executed (stage, index) multiset is exactly the one those defects predict. "
    "Sub 'shape': a plain chain with one deviation from the recognised shape (index op between stages, double barrier, no last "
    "barrier, op after the last barrier, iter_args): the loop must be left alone or stay equivalent. "
    "Sub 'grid': exhaustive: stages {2,3,4} x kinds {copy/gen alternating, all gen, all copy} x every assignment of "
    "(input, output) of each stage to {tile of a global, L1 buffer b_k} (for 4 stages: the neighbouring buffers only) x trip 0..8 "
    "(quick: stages 2,3, alternating kinds). "
    "Non-trivial: the pipeline was constructed, trip count >= 1 and at least one buffer was duplicated; distinct by recipe hash."
)
ASSUMPTIONS = [
    "xDSL 0.70 compatibility shim (vlib/compat.py)",
    "interpreter vlib/interp.py and vlib/machine_c15.py are the reference semantics: memref.copy moves row contents, a compute op "
    "writes f(tag, inputs) to its outputs (an output is read as well iff the linalg body uses its block argument), memref.copy "
    "runs on the data-mover core, linalg.generic/dart.operation on the compute core (snaxc/util/dispatching_rules.py), "
    "snax.cluster_sync_op is a full barrier for both cores and all DMA/accelerator work of an epoch is complete at the barrier",
    "interleavings are not enumerated: absence of cross-core conflicts inside an epoch makes every interleaving equal to the "
    "canonical program order, which is the one executed for the data-flow comparison",
    "pipeline-canonicalize-for is a documented pre-pass, not under test here (C17): the loop it leaves is the reference",
    "L1 buffers are allocated before the loop (reuse-memref-allocs hoists them in the real pipeline); buffers are 2-D and every "
    "tile is a block of whole rows, so an element region is a row interval",
    "exceptions of the passes other than NotImplementedError, and a failing module.verify() after them, are counted as "
    "rejections 'crash ...' (DESIGN 3.5: C15 is about results, not totality); use-before-definition that verify() does not "
    "see is a violation",
    "insert-sync-barrier / dispatch-regions are not appended (optional in the design): cores are assigned by op kind",
]

K_SHORT = "unroll-pipeline: trip count < stages-1: unconditional prologue/epilogue execute iterations outside [lb, ub)"
K_POST = "pipeline-duplicate-buffers: duplicated buffer is read after the loop (holds iteration ub-2 when ub-1 is odd)"
K_RW = ("construct-pipeline: read-modify-write output (linalg outs read by the body) is classified write-only (then duplicated, "
        "or shared with another stage unchecked)")
K_SCALAR = ("construct-pipeline: non-memref stage operand computed from the induction variable bypasses pipeline.index "
            "(used outside the loop / for the wrong iteration)")
K_ALIAS = ("pipeline-duplicate-buffers: loop-carried dependence between stages through distinct subviews of one buffer is not "
           "seen (sharing is tracked per SSA value); the stages are overlapped anyway")
K_SHAPE = ("construct-pipeline: stage collection stops before scf.yield (index op or second barrier after >= 2 complete stages): "
           "only the prefix is pipelined, the remaining ops stay in the shortened loop")
K_ITER = "construct-pipeline: loop with iter_args is pipelined (carried value used outside the loop / advanced stages-1 times less)"
K_LB = "unroll-pipeline: lb != 0 or step != 1 reaches the pass: prologue starts at 0 and lower bound is overwritten with stages-1"

# Loops whose stages depend on each other across iterations through *distinct* subviews of one buffer: the compiler applies the
# pipeline passes to every loop of the recognised shape on its own initiative, so a missing dependence check is the passes'
# defect (same stance as C13 / DESIGN 6.11). Set to False to treat tile independence as a precondition instead (then: Outside).
ALIAS_IN_DOMAIN = True

PASSES = ("construct-pipeline", "pipeline-duplicate-buffers", "unroll-pipeline")


class LoopInterp(Interp):
    """scf.for, remembering the induction values; `forced` replaces the iteration space."""

    def __init__(self, module, machine, forced=None, **kw):
        super().__init__(module, machine, **kw)
        self.forced = forced
        self.loops: list = []  # (lb, ub, step, [induction values])

    def exec_op(self, op, env):
        if op.name == "scf.for":
            lb, ub, step = (self.get(env, v) for v in (op.lb, op.ub, op.step))
            if step <= 0:
                raise InterpError("non-positive step")
            # `forced` is the iteration space of the first loop (the one under test); a second loop runs as written
            its = list(self.forced) if self.forced is not None and not self.loops else list(range(lb, ub, step))
            self.loops.append((lb, ub, step, its))
            carried = [self.get(env, a) for a in op.iter_args]
            for i in its:
                self.m.cur_iter = i
                kind, carried = self.run_region(op.body, [i] + carried, env)
                if kind != "yield":
                    raise InterpError("loop body left by " + kind)
                self.steps += 1
                if self.steps > self.budget:
                    raise StepBudget("step budget")
            self.m.cur_iter = None
            self.set_results(op, carried, env)
            return None
        return super().exec_op(op, env)


class Machine(C15Machine):
    cur_iter = None

    def __init__(self, *a):
        super().__init__(*a)
        self.iter_of_event: list = []

    def exec(self, op, operands, env):
        n = len(self.events)
        r = super().exec(op, operands, env)
        if len(self.events) > n:
            self.iter_of_event.append(self.cur_iter)
        return r


def execute(module, built, terms, forced=None):
    roots = [Root(n, 0, rows, "arg") for n, rows in built.arg_specs]
    m = Machine(terms, roots)
    it = LoopInterp(module, m, forced=forced, step_budget=100000)
    it.call("f", [Mem(r, 0, r.rows) for r in roots] + list(built.scalar_args))
    m.close_epoch()
    return m, it


def carried_through_views(m0, built, its):
    """Does the sequential loop have a loop-carried dependence between *different* stages that software pipelining cannot
    keep, with at least one side reaching the buffer through a memref.subview?  Precisely: an access of (iteration i, stage s)
    conflicts (same physical buffer, overlapping rows, at least one write) with an access of a later iteration (i', s') where
    s' < s and i' - i <= s - s'; pipelined, (i', s') runs in epoch i'+s' <= i+s, i.e. not after (i, s).
    The passes track sharing per SSA value, so they see this for one SSA value used in several stages (and refuse it or
    duplicate the buffer) but not for two different subviews of one buffer. See ALIAS_IN_DOMAIN."""
    pos = {v: k for k, v in enumerate(its)}
    by = {}
    for a in m0.acc:
        n = a[6]
        it = m0.iter_of_event[n]
        stg = built.stage_tags.get(m0.events[n].tag)
        if it is None or stg is None:
            continue
        by.setdefault(a[2], []).append((pos[it], stg, a[3], a[4], a[5], a[7]))
    for lst in by.values():
        for x in lst:
            for y in lst:
                if x[0] < y[0] and y[1] < x[1] and y[0] - x[0] <= x[1] - y[1] and (x[5] or y[5]) \
                        and (x[4] == "W" or y[4] == "W") and x[2] < y[3] and y[2] < x[3]:
                    return True
    return False


def bound_sharing(mod):
    """Other users of the SSA values the first scf.for uses as lb / ub / step, by place (classes only)."""
    loop = next((o for o in mod.walk() if o.name == "scf.for"), None)
    if loop is None or loop.parent is None:
        return []
    pos = {o: k for k, o in enumerate(loop.parent.ops)}
    out = set()
    for nm, v in (("lb", loop.lb), ("ub", loop.ub), ("step", loop.step)):
        for u in v.uses:
            o = u.operation
            if o is loop:
                if u.index >= 3:
                    out.add(f"{nm} value shared: iter_args init of the loop")
                elif sum(1 for x in (loop.lb, loop.ub, loop.step) if x is v) > 1:
                    out.add(f"{nm} value shared: two bounds of the loop are one value")
                continue
            top = o
            while top is not None and top not in pos:
                top = top.parent_op()
            if top is None:
                continue
            if top is loop:
                what = {"memref.subview": "tile offset", "linalg.generic": "scalar stage operand"}.get(o.name, "index arithmetic")
                out.add(f"{nm} value shared: {what} in the loop body")
            elif o.name == "scf.for":
                out.add(f"{nm} value shared: bound of a second loop")
            elif top.name == "scf.for":
                out.add(f"{nm} value shared: op in a second loop")
            else:
                out.add(f"{nm} value shared: op {'before' if pos[top] < pos[loop] else 'after'} the loop")
    out |= {c.split(":")[0] + ": any other user" for c in out}
    return sorted(out)


def apply_passes(mod):
    """returns True iff construct-pipeline built a pipeline op"""
    constructed = False
    for p in PASSES:
        try:
            with time_limit(10):
                run_pass(mod, p)
        except PassTimeout:
            raise Reject(f"{p}: no result within 10 s")
        except NotImplementedError as e:
            raise Reject(f"{p}: NotImplementedError: {str(e)[:70]}")
        except Exception as e:
            # DESIGN 3.5: C15 is about the result, not about totality; a crash is recorded as a rejection with its message
            raise Reject(f"crash {p}: {type(e).__name__}: {str(e)[:70]}")
        if p == "construct-pipeline":
            constructed = any(o.name == "pipeline.pipeline" for o in mod.walk())
    return constructed


def model_schedule(S, ub, step):
    """(stage, induction value) pairs the three passes emit *as written* (prologue constants 0..S-2, loop from S-1,
    epilogue from ub-1-k). For lb == 0, step == 1, ub >= S-1 this is the sequential iteration space."""
    out = []
    for p in range(S - 1):
        out += [(j, p - j) for j in range(p + 1)]
    for v in range(S - 1, ub, step):
        out += [(j, v - j) for j in range(S)]
    for e in reversed(range(S - 1)):
        out += [(S - 1 - j, ub - 1 - (e - j)) for j in reversed(range(e + 1))]
    return out


def _diff(c_ref: Counter, c_opt: Counter):
    missing = c_ref - c_opt
    extra = c_opt - c_ref
    return missing, extra


def _fmt_cov(c: Counter, n=6):
    return [f"{k[0]} {list(k[1])} x{v}" for k, v in sorted(c.items(), key=repr)[:n]]


def check_case(rc, want_text=False):
    try:
        built = G.build(rc)
    except G.BadRecipe as e:
        raise Outside(f"recipe: {e}")
    ctx = shared_ctx()
    orig = parse(built.text, ctx)
    orig.verify()
    S = rc["S"]
    classes = [f"stages:{S}"]
    canon = rc.get("canon", True)
    ref = orig.clone()
    if canon:
        run_pass(ref, "pipeline-canonicalize-for")
        ref.verify()
    sharing = bound_sharing(ref)
    opt = ref.clone()
    constructed = apply_passes(opt)
    try:
        opt.verify()
    except Exception as e:
        # a failed verify() stops the real driver as well: a crash in the sense of DESIGN 3.5, recorded, not a violation
        raise Reject(f"crash: module does not verify after unroll-pipeline: {str(e)[:60]}")
    dom = dominance_errors(opt)
    has_scalar = "op:gen-scalar-index-input" in built.features
    if dom:
        iter_arg = bool(rc.get("tail")) and rc["tail"][0] == "iter-arg"
        raise Violation(K_ITER if iter_arg else K_SCALAR if has_scalar else "output:use before definition after unroll-pipeline",
                        dict(errors=dom[:3], before=to_text(ref), after=to_text(opt)))

    terms = Terms()
    try:
        m0, it0 = execute(ref, built, terms)
    except StepBudget:
        raise Outside("step budget (sequential)")
    if m0.oob:
        raise Outside("sequential loop leaves its buffers")
    if m0.conflicts() or m0.ww:
        raise Outside("sequential loop has a cross-core conflict inside a stage")
    if len(it0.loops) < 1:
        raise Outside("no loop")
    lb, ub, step, its = it0.loops[0]
    trip = len(its)
    alias = carried_through_views(m0, built, its)
    if alias and not ALIAS_IN_DOMAIN:
        raise Outside("loop-carried cross-stage dependence through a subview")
    try:
        m1, it1 = execute(opt, built, terms)
    except StepBudget:
        raise Outside("step budget (pipelined)")
    except UseBeforeDef as e:
        raise Violation(K_SCALAR if has_scalar else "output:use before definition at run time",
                        dict(error=str(e), before=to_text(ref), after=to_text(opt)))

    dup = sorted(n for n, k in m1.n_physical().items() if k > m0.n_physical().get(n, 0))
    classes.append("trip<stages-1" if trip < S - 1 else "trip=stages-1" if trip == S - 1 else "trip=stages" if trip == S
                   else "trip>stages")
    classes.append(f"trip:{min(trip, 9)}")
    classes.append("canonical-bounds" if (lb, step) == (0, 1) else "lb/step non-canonical at construct-pipeline")
    if (rc["lb"], rc["step"]) != (0, 1):
        classes.append("lb/step non-canonical in the source")
    if trip != max(0, -((rc["lb"] - rc["ub"]) // rc["step"])):
        classes.append("pipeline-canonicalize-for changed the trip count (C17, not judged here)")
    classes.append("pipelined" if constructed else "not-pipelined")
    if rc["lb"] < 0:
        classes.append("negative lb: " + ("run-time" if rc.get("lb_dyn") else "constant"))
        if not any(rc.get(w + "_dyn") for w in ("lb", "ub", "step")) and rc["step"] == 1 and rc["ub"] >= S - 1:
            classes.append("negative lb: constant, constant ub >= stages-1, constant step 1")
    if rc["ub"] < 0:
        classes.append("negative ub: " + ("run-time" if rc.get("ub_dyn") else "constant") + (", lb < ub" if rc["lb"] < rc["ub"] else ""))
    if rc.get("lb_dyn"):
        classes.append("run-time lb: " + ("lb >= ub (zero trip)" if rc["lb"] >= rc["ub"] else "0" if rc["lb"] == 0 else "non-zero"))
        if rc["lb"] >= rc["ub"] and not rc.get("ub_dyn") and not rc.get("step_dyn") and rc["step"] == 1 and rc["ub"] >= S - 1:
            classes.append("run-time lb: lb >= ub, constant ub >= stages-1, constant step 1")
        if rc["lb"] != 0 and not rc.get("ub_dyn") and not rc.get("step_dyn") and rc["step"] == 1 and rc["ub"] >= S - 1:
            classes.append("run-time lb: non-zero, constant ub >= stages-1, constant step 1")
    if rc.get("step_dyn"):
        classes.append("run-time step: " + ("1" if rc["step"] == 1 else "!= 1"))
    if rc.get("ub_dyn"):
        classes.append("run-time ub: " + ("lb + multiple of step" if (rc["ub"] - rc["lb"]) % rc["step"] == 0 else "not a multiple"))
    if constructed and any(rc.get(w + "_dyn") for w in ("lb", "ub", "step")):
        classes.append("pipelined with a run-time bound")
    if alias:
        classes.append("loop-carried dependence through distinct subviews")
    classes.append(f"duplicated:{min(len(dup), 3)}")
    classes += sorted(built.features)
    classes += sharing
    if constructed:
        classes += ["pipelined, " + c for c in sharing if c.endswith("any other user")]
    detail_base = dict(stages=S, lb=lb, ub=ub, step=step, trip=trip, duplicated=dup)

    # whole buffers that some op reads and writes through one linalg `outs` operand and that are duplicated or used by another stage
    stage_of = {}
    for e in m0.events:
        for o in e.operands:
            if o[0] != "s" and not o[5] and e.tag in built.stage_tags:
                stage_of.setdefault(o[1], set()).add(built.stage_tags[e.tag])
    rw_shared = sorted({o[1] for e in m0.events for o in e.operands
                        if o[0] == "rw" and not o[5] and (o[1] in dup or len(stage_of.get(o[1], ())) > 1)})

    known_region = None
    if constructed and ((lb, step) != (0, 1)):
        known_region = K_LB
    elif constructed and trip < S - 1:
        known_region = K_SHORT
    memo = {}

    def predicted():
        """(stage op, operand tiles) multiset the two documented unroll-pipeline defects predict for this loop"""
        if "p" not in memo:
            sched = model_schedule(S, ub, step)
            try:
                mm, _ = execute(ref, built, Terms(), forced=sorted({v for (_s, v) in sched}))
            except StepBudget:
                raise Outside("step budget (model)")
            per = {}
            for e, v in zip(mm.events, mm.iter_of_event):
                st_ = built.stage_tags.get(e.tag)
                if st_ is not None and v is not None:
                    per.setdefault((st_, v), []).append(e.cov_key())
            pred = Counter()
            for sv in sched:
                pred.update(per.get(sv, []))
            # everything outside the loop under test (before / after it, a second loop) as executed
            pred.update(e.cov_key() for e, v in zip(mm.events, mm.iter_of_event) if v is None or built.stage_tags.get(e.tag) is None)
            memo["p"] = pred
        return memo["p"]

    def fail(sig, **kw):
        if known_region is not None and predicted() == m1.coverage():
            # narrow: what was executed is exactly what the documented defect predicts; every further mismatch follows from it
            sig = known_region
        if rw_shared and constructed and sig.startswith(("race:", "flow:", "final:")):
            sig = K_RW
            kw["read_modify_write_buffers"] = rw_shared
        if alias and constructed and sig.startswith(("race:", "flow:", "final:")):
            sig = K_ALIAS
        if rc.get("tail") and constructed and rc["tail"][0] in ("mid-index", "double-sync"):
            sig = K_SHAPE
        if rc.get("tail") and constructed and rc["tail"][0] == "iter-arg":
            sig = K_ITER
        d = dict(detail_base)
        d.update(kw)
        d.setdefault("before", to_text(ref))
        d.setdefault("after", to_text(opt))
        raise Violation(sig, d)

    cov0, cov1 = m0.coverage(), m1.coverage()
    if cov0 != cov1:
        missing, extra = _diff(cov0, cov1)
        d = dict(missing=_fmt_cov(missing), extra=_fmt_cov(extra))
        if known_region is not None:
            pred = predicted()
            fail("coverage:differs from the sequential loop and from the documented short-loop/lb defect", **d,
                 predicted_minus_observed=_fmt_cov(pred - cov1), observed_minus_predicted=_fmt_cov(cov1 - pred))
        if has_scalar:
            fail(K_SCALAR, **d)
        # (2) range: a tile the sequential loop never touches is the more specific diagnosis
        out_of_range = sorted(m1.touched() - m0.touched())
        if out_of_range or m1.oob:
            fail("range:tile touched that the sequential loop does not touch", tiles=out_of_range[:6], oob=m1.oob[:4], **d)
        kind = "missing and extra" if missing and extra else "missing" if missing else "extra"
        fail(f"coverage:{kind} (stage op, operand tiles) executions", **d)

    # (3) race freedom
    conf = m1.conflicts()
    if conf:
        a, b = conf[0]
        ea, eb = m1.events[a[6]], m1.events[b[6]]
        kinds = "".join(sorted({a[5], b[5]}))
        lname = a[2][0]
        how = "duplicated" if lname in dup else "function-argument" if lname.startswith(("G", "a")) else "not-duplicated L1"
        inplace = any(_inplace(e) for e in (ea, eb))
        fail(f"race:{ 'write/write' if kinds == 'W' else 'read/write'} on {how} buffer in one epoch"
             + (" (op reads and writes the same buffer)" if inplace else ""),
             epoch=a[0], buffer=f"{a[2][0]}#{a[2][1]}", first=f"{ea.tag} on {a[1]} {a[5]} rows {a[3]}:{a[4]}",
             second=f"{eb.tag} on {b[1]} {b[5]} rows {b[3]}:{b[4]}", conflicts=len(conf))

    # (4) data flow + final contents
    known = []
    f0, f1 = m0.flow(), m1.flow()
    if f0 != f1:
        missing, extra = _diff(f0, f1)
        bad_tags = {k[0] for k in list(missing) + list(extra)}
        if all(t.startswith("post") for t in bad_tags):
            # code after the loop reads a buffer: only the documented cause (it was duplicated) is classified as known
            srcs = {o[1] for e in m1.events if e.tag in bad_tags for o in e.operands if o[0] in ("r", "rw")}
            if srcs and srcs <= set(dup):
                known.append((K_POST, dict(detail_base, ops=sorted(bad_tags), before=to_text(ref), after=to_text(opt),
                                           sequential_reads=_show_terms(terms, next(iter(missing), None)),
                                           pipelined_reads=_show_terms(terms, next(iter(extra), None)))))
                missing = extra = None
    if f0 != f1 and missing is not None:
        tags = sorted({k[0] for k in list(missing) + list(extra)})
        ex = next(iter(extra)) if extra else None
        mi = next((k for k in missing if ex is None or k[0] == ex[0]), None)
        fail("flow:stage op reads other data than in the sequential loop", ops=tags,
             sequential_reads=_show_terms(terms, mi), pipelined_reads=_show_terms(terms, ex))
    fin0, fin1 = m0.final_args(), m1.final_args()
    if known:
        # rows written by the ops after the loop are a consequence of the post-loop read already recorded
        skip = {(o[1], r) for e in m1.events if e.tag and e.tag.startswith("post") for o in e.operands
                if o[0] in ("w", "rw") for r in range(o[3], o[3] + o[4])}
        fin0 = {k: v for k, v in fin0.items() if k not in skip}
        fin1 = {k: v for k, v in fin1.items() if k not in skip}
    if fin0 != fin1:
        bad = sorted(k for k in set(fin0) | set(fin1) if fin0.get(k) != fin1.get(k))
        fail("final:function-argument buffer ends with other contents", rows=bad[:6],
             sequential=[terms.show(fin0[k]) if k in fin0 else "untouched" for k in bad[:3]],
             pipelined=[terms.show(fin1[k]) if k in fin1 else "untouched" for k in bad[:3]])
    nontrivial = constructed and trip >= 1 and len(dup) >= 1
    sample = None
    if want_text and nontrivial and _SAMPLES[0] < 3:
        _SAMPLES[0] += 1  # MLIR text for the first few samples of a process only (printing costs as much as the passes)
        sample = dict(before=to_text(ref), after=to_text(opt))
    return Info(nontrivial=nontrivial, classes=tuple(classes), evals=1, known=known, sample=sample)


_SAMPLES = [0]


def _inplace(e):
    reads = {(o[1], o[2]) for o in e.operands if o[0] in ("r", "rw")}
    writes = {(o[1], o[2]) for o in e.operands if o[0] in ("w", "rw")}
    return bool(reads & writes)


def _show_terms(terms, key):
    if key is None:
        return None
    tag, ins = key
    out = []
    for t in ins:
        out.append([terms.show(x) if isinstance(x, int) else str(x) for x in t])
    return dict(op=tag, reads=out)


def prop_loop(rc):
    return check_case(rc, want_text=True)


def prop_grid(rc):
    """one buffer assignment, every trip count of the grid"""
    infos = []
    known = []
    first_violation = None
    for t in rc["trips"]:
        r = dict(rc)
        r["ub"] = t
        try:
            i = check_case(r)
            infos.append(i)
            known += i.known
        except Violation as v:
            if v.signature in (K_SHORT, K_LB, K_RW, K_ALIAS, K_SCALAR):
                known.append((v.signature, dict(trip=t, detail=v.detail)))
                continue
            if first_violation is None:
                first_violation = v
                first_violation.detail = dict(trip=t, detail=v.detail)
    if first_violation is not None:
        raise first_violation
    classes = Counter()
    for i in infos:
        classes.update(i.classes)
    return Info(nontrivial=any(i.nontrivial for i in infos), classes=tuple(sorted(classes)), evals=len(rc["trips"]), known=known)


def prop_shape(rc):
    return check_case(rc, want_text=True)


SUBS = [
    Sub("loop", lambda tier: G.loop_recipe(tier), prop_loop, budget=dict(quick=1500, thorough=50000),
        floor=dict(quick=85, thorough=2600),
        nontrivial_rule="pipeline constructed, trip count >= 1, at least one buffer duplicated"),
    Sub("shape", lambda tier: G.shape_recipe(tier), prop_shape, budget=dict(quick=200, thorough=3000),
        floor=dict(quick=6, thorough=40),
        nontrivial_rule="the deviating loop was pipelined anyway (trip count >= 1, a buffer duplicated)"),
    Sub("grid", lambda tier: st.nothing(), prop_grid, budget=dict(quick=0, thorough=0), exhaustive=G.grid, exhaustive_only=True,
        floor=dict(quick=8, thorough=95),
        nontrivial_rule="assignment accepted by the passes with a duplicated buffer (all trip counts 0..8 executed)"),
]
