"""C01 Config deduplication never changes what a launch observes."""
from __future__ import annotations

from vlib import gen_accfg as G
from vlib.accfg_common import compare_launch_traces, execute, setup_field_sites
from vlib.ctx import PassTimeout, parse, run_pass, shared_ctx, time_limit, to_text
from vlib.interp import InterpError, StepBudget, UseBeforeDef, dominance_errors
from vlib.runner import Info, Outside, Reject, Sub, Violation
from hypothesis import strategies as st

ID = "C01"
RULE = (
    "Recipes are accfg programs: 1-2 accelerators with 2-4 fields, full-field setup+launch+await units whose values come from a "
    "small pool of arguments/constants/induction variables/loop-carried values/pure arith results, nested scf.for (bounds from "
    "arguments or constants, lb != 0 and step != 1 included, run-time lower bound with constant upper bound), scf.if, external calls with and "
    "without the no-effects annotation, calls of functions defined in the module that configure an accelerator themselves, opaque ops marked "
    "effects<full>, a pure op with two results of one type; shape macros for what the passes reason about (repeated units around call carriers, "
    "if / else-if chains, loop towers, restore / leave / change inside loops, branches that agree on a field followed by change and restore); "
    "plus 3 input vectors choosing trip counts from {0,1,2,3,5} and branch outcomes. The real passes accfg-trace-states then "
    "accfg-dedup (hoist on/off) are applied; original and optimised modules are executed on the abstract CSR machine and compared "
    "event by event (launch/await/call order, call arguments, launch values, and at every launch every field the original had written). "
    "Non-trivial: dedup removed or moved at least one field write and some execution reached >= 2 launches of one accelerator; distinct by recipe hash."
)
ASSUMPTIONS = [
    "xDSL 0.70 compatibility shim (vlib/compat.py)",
    "interpreter vlib/interp.py (arith/scf/func) and CSR machine vlib/machines.py are the reference semantics; an un-annotated call "
    "overwrites every accelerator register with an unknown token (has_accfg_effects' documented default)",
]

DOCUMENTED_REFUSALS = ()


def _apply(mod, hoist):
    run_pass(mod, "accfg-trace-states")
    mod.verify()
    run_pass(mod, "accfg-dedup", hoist=hoist)
    mod.verify()


def prop(r):
    built = G.build(r)
    orig = parse(built.text, shared_ctx())
    orig.verify()
    opt = orig.clone()
    hoist = r.get("hoist", True)
    try:
        with time_limit(10):
            _apply(opt, hoist)
    except PassTimeout:
        raise Reject("pass did not terminate within 10 s")
    except Exception as e:  # the passes produced nothing: not a statement about launches (DESIGN 3.5)
        raise Reject(f"pass raised {type(e).__name__}: {str(e)[:60]}")
    dom = dominance_errors(opt)
    if dom:
        raise Violation("dedup:use-before-def-after-pass", dict(errors=dom[:3], after=to_text(opt)))
    changed = setup_field_sites(orig) != setup_field_sites(opt)
    multi = False
    trips_seen = set()
    n_exec = 0
    for k in range(3):
        args, trips = G.input_vector(r, built, k)
        try:
            m0 = execute(orig, args)
        except StepBudget:
            continue
        try:
            m1 = execute(opt, args)
        except StepBudget:
            continue
        except UseBeforeDef as e:
            raise Violation("dedup:use-before-def-at-run-time", dict(error=str(e), args=args, after=to_text(opt)))
        n_exec += 1
        mis = compare_launch_traces(m0.trace, m1.trace)
        if mis is not None:
            raise Violation(signature(mis, r, orig), dict(mismatch=mis, args=args, arg_names=built.arg_names,
                                                          before=built.text, after=to_text(opt)))
        per_acc = {}
        for e in m0.trace:
            if e[0] == "launch":
                per_acc[e[1]] = per_acc.get(e[1], 0) + 1
        if any(v >= 2 for v in per_acc.values()):
            multi = True
        trips_seen.update("t0" if t == 0 else "t1" if t == 1 else "t2+" for t in trips)
    if n_exec == 0:
        raise Outside("all executions exceeded the step budget")
    cls = sorted(built.features) + sorted(trips_seen) + (["changed"] if changed else ["unchanged"]) + [f"hoist:{hoist}"]
    return Info(nontrivial=bool(changed and multi), classes=tuple(cls), evals=n_exec,
                sample=dict(before=built.text, after=to_text(opt)) )


def signature(mis, r, orig):
    return "dedup:" + mis["kind"]


@st.composite
def strat(draw, tier):
    r = draw(G.program(tier))
    r["hoist"] = draw(st.sampled_from([True, True, False]))
    return r


SUBS = [
    Sub("dedup", lambda tier: strat(tier), prop, budget=dict(quick=3000, thorough=60000), floor=dict(quick=300, thorough=6000),
        nontrivial_rule="dedup changed the (setup site, field) multiset and an execution reached >= 2 launches of one accelerator"),
]
