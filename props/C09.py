"""C09 Chosen memory layouts are one-to-one on the operand."""
from __future__ import annotations

import numpy as np
from hypothesis import strategies as st

from vlib import gen_dartops as D
from vlib import gen_tsl as T
from vlib.ctx import parse, run_pass, to_text
from vlib.runner import Info, Outside, Reject, Sub, Violation

ID = "C09"
RULE = (
    "Recipes describe one dart.operation or dart.schedule on memref function arguments (vlib/gen_dartops.py): kernel body "
    "(snax_alu add/mul, snax_gemmx mac/qmac[/add][/rescale] and rescale-only, snax_xdma add/rescale), iteration bounds, per-operand "
    "integer access matrices, operand shapes (what the access needs, sometimes larger), element widths 8/16/32/64, memory space, "
    "optional strided<> or #tsl.tsl operand layouts; plus tiled=true|false. 'scheduled': elementwise / matmul+gemm / conv-like "
    "operations (multiples and non-multiples of the template bounds, transposed/broadcast operands, stride and dilation) go "
    "through the real dart-scheduler first. 'direct': schedules built by the generator itself (reduction/broadcast dims, compound "
    "index expressions, reversed/offset/strided/constant-index access, operands larger than the iteration space, 0..3 tilings by "
    "any divisor, arbitrary dimension order). 'explicit': some or all operands already carry a #tsl.tsl layout. 'sweep' "
    "(thorough): every 2-D shape up to 40x40 with the default elementwise / matmul maps per accelerator and width, through the "
    "real scheduler and as directly built tiled schedules. The real set-memory-layout pass is applied; for every snax.layout_cast "
    "feeding the schedule the result layout is checked with a reference address function written from the TSL docstrings: "
    "(i) per dimension the product of the tile bounds equals the operand size, (ii) all indices of the operand shape map to "
    "pairwise distinct element addresses (numpy unique; TSL steps are in elements, so distinct elements are distinct byte "
    "ranges), (iii) granularity padding never decreases a stride, (iv) operands with a #tsl.tsl layout keep their value and type. "
    "Non-trivial: some chosen layout is not plain row-major or granularity padding changed a stride (explicit: a TSL operand is "
    "present and the op is otherwise eligible); distinct by recipe hash."
)
ASSUMPTIONS = [
    "xDSL 0.70 compatibility shim (vlib/compat.py)",
    "reference address function vlib/gen_tsl.py (mixed-radix split over the tile bounds, outermost first, outermost digit not "
    "wrapped; address = offset + sum digit*step), written from snaxc/ir/tsl/README.md and the class docstrings",
    "TSL steps are element counts (set_memory_layout.py comments 'in elements'; consumers call get_affine_map_in_bytes), so the "
    "byte ranges of two elements are disjoint iff their element addresses differ",
    "'already carries an explicit layout' is what the pass tests: the memref layout is a TiledStridedLayoutAttr; a strided<> "
    "memref is not explicit in that sense and may be recast (snax.layout_cast is a new value, materialised later)",
    "operand shapes are static and every visited index is inside the operand (dart.schedule has static bounds; the generator "
    "only builds in-bounds accesses)",
    "snax_xdma is registered the way tools/config_parser.py does it; class labels for the padding regime are observed by wrapping "
    "ensure_access_granularity (the wrapper calls the original and only records arguments and result)",
    "a pass that uses more than 3 s (set-memory-layout) / 10 s (dart-scheduler) of CPU time on one op is counted as a rejection; "
    "after three such hangs in a worker process the remaining cases of that worker are rejected unasked (the floor then reports it)",
]

MAX_ELEMS = 70000


# ------------------------------------------------------------------------------------------------
# CPU-time guard (local variant of vlib.ctx.time_limit: counts this process' CPU time, so machine load cannot make a
# terminating pass look hung; raises a BaseException so that xDSL's `except Exception` around patterns - which would print
# the whole, possibly huge, module into the error note - does not intercept it). A hit is a Reject, never a violation.


class _Hang(BaseException):
    pass


class cpu_limit:
    def __init__(self, seconds: float):
        self.seconds = seconds

    def __enter__(self):
        import signal

        def handler(signum, frame):
            raise _Hang()

        self._old = signal.signal(signal.SIGVTALRM, handler)
        # periodic: if the exception is swallowed where the interpreter happens to be (a __del__, a weakref callback, an
        # `except BaseException` in library code), the next tick raises it again
        signal.setitimer(signal.ITIMER_VIRTUAL, self.seconds, 0.25)
        return self

    def __exit__(self, *exc):
        import signal

        signal.setitimer(signal.ITIMER_VIRTUAL, 0)
        signal.signal(signal.SIGVTALRM, self._old)
        return False


# ------------------------------------------------------------------------------------------------
# observation of the padding function (class labels and oracle (iii) only)

_PAD_LOG: list = []
_TIMEOUTS = [0]
_WRAPPED = [False]


def _install_wrapper():
    if _WRAPPED[0]:
        return
    _WRAPPED[0] = True
    try:
        from snaxc.transforms import set_memory_layout as sml

        orig = sml.ensure_access_granularity

        def wrapper(ctx, current_stride, schedule_dim, op, operand):
            out = orig(ctx, current_stride, schedule_dim, op, operand)
            try:
                regime = "temporal" if schedule_dim >= sml.spatial_dims(ctx, op) else "spatial"
            except Exception:
                regime = "?"
            _PAD_LOG.append((regime, current_stride, out))
            return out

        sml.ensure_access_granularity = wrapper
    except Exception:
        pass  # a tree without that function: no regime labels


# ------------------------------------------------------------------------------------------------
# reference


def addresses_over_shape(L, shape) -> np.ndarray:
    """Element address of every index of `shape` under layout recipe L (reference semantics: the outermost tile digit of a
    dimension is not wrapped, so indices beyond the product of the tile bounds still have an address)."""
    n = len(shape)
    out = np.zeros(tuple(shape), dtype=np.int64) + (L.get("offset", 0) or 0)
    for d, (dim, s) in enumerate(zip(L["dims"], shape)):
        inner = 1
        for _, b in dim[1:]:
            inner *= b
        outer = max(1, -(-s // inner))
        ext = [[dim[0][0], max(outer, 1)]] + [list(x) for x in dim[1:]]
        v = T.dim_vector(ext)[:s]
        sh = [1] * n
        sh[d] = s
        out = out + v.reshape(sh)
    return out


def is_row_major(L, shape) -> bool:
    acc = 1
    for dim, s in zip(reversed(L["dims"]), reversed(shape)):
        if len(dim) != 1:
            return False
        if s > 1 and dim[0][0] != acc:
            return False
        acc *= s
    return True


def is_padded(L) -> bool:
    """Some stride leaves a gap: sorted by step, a step exceeds the extent of everything below it."""
    strides = sorted((s, b) for dim in L["dims"] for s, b in dim if b and b > 1)
    ext = 1
    for s, b in strides:
        if s > ext:
            return True
        ext = max(ext, s * b)
    return False


def projected_visited(row, const, bounds, size) -> np.ndarray:
    """Boolean vector: which indices 0..size-1 of one operand dim the schedule touches."""
    vals = np.array([const], dtype=np.int64)
    for c, b in zip(row, bounds):
        if c != 0 and b > 1:
            vals = (vals[:, None] + (np.arange(b, dtype=np.int64) * c)[None, :]).reshape(-1)
            vals = np.unique(vals)
    m = np.zeros(size, dtype=bool)
    m[vals[(vals >= 0) & (vals < size)]] = True
    return m


# ------------------------------------------------------------------------------------------------
# the property


def _find(mod, name):
    return [op for op in mod.walk() if op.name == name]


GENERIC_COVERAGE = "coverage:tile-bounds-product-differs-from-shape"


def _coverage_signature(tiled, A, b, bounds, d, size, got):
    """Narrow signatures for the reproduced defects; anything else is the generic one."""
    if got < size and all(A[d][j] == 0 for j in range(len(bounds))):
        return "coverage:dim-not-accessed-by-any-schedule-dim"
    for j in range(len(bounds)):
        if A[d][j] != 0 and any(A[e][j] != 0 for e in range(d)):
            return "coverage:dim-shares-iteration-dim-with-earlier-operand-dim"
    if tiled and got < size and not projected_visited(A[d], b[d], bounds, size).all():
        return "coverage:tiled:dim-not-fully-accessed-by-schedule"
    return GENERIC_COVERAGE


def check(recipe):
    _install_wrapper()
    r = recipe["op"]
    tiled = bool(recipe["tiled"])
    if D.max_operand_elems(r) > MAX_ELEMS:
        raise Outside("operand larger than the enumeration cap")
    if any(s <= 0 for o in r["operands"] for s in o["shape"]):
        raise Outside("empty operand")
    if not D.in_bounds(r):
        raise Outside("access leaves the operand")
    ctx = D.dart_ctx()
    if D.acc_of(r) not in set(ctx.registered_accelerator_names):
        raise Outside(f"accelerator {D.acc_of(r)} cannot be constructed in this tree")
    text = D.build_text(r)
    mod = parse(text, ctx)
    mod.verify()  # the builder must produce valid IR (anything else is a harness error)
    func = _find(mod, "func.func")[0]
    args = list(func.body.block.args)
    arg_types = [a.type for a in args]
    via_alloc = bool(recipe.get("via_alloc")) and r["form"] == "operation"
    if via_alloc:
        # the operands are buffers allocated in the function, without a memory space, and set-memory-space runs first (as in the
        # real pipeline): a buffer that carries an explicit layout must still carry it when set-memory-layout looks at it
        from xdsl.dialects import builtin as _b
        from xdsl.dialects import memref as _m

        blk = func.body.block
        first = blk.first_op
        new_vals = []
        for a in args:
            t = a.type
            t2 = _b.MemRefType(t.element_type, t.get_shape(), t.layout, _b.NoneAttr())
            al = _m.AllocOp([], [], t2)
            blk.insert_op_before(al, first)
            a.replace_all_uses_with(al.memref)
            new_vals.append(al.memref)
        for a in reversed(args):
            blk.erase_arg(a)
        func.function_type = _b.FunctionType.from_lists([], [])
        mod.verify()
        try:
            with cpu_limit(10):
                run_pass(mod, "set-memory-space", ctx=ctx)
            mod.verify()
        except _Hang:
            raise Reject("set-memory-space: no result within 10 s of CPU time")
        except Exception as e:
            raise Reject(f"set-memory-space: {type(e).__name__}: {str(e)[:60]}")
        ops_now = _find(mod, "dart.operation")
        if len(ops_now) != 1 or len(ops_now[0].operands) != len(args):
            raise Reject("set-memory-space changed the operation's operand list")
        args = list(ops_now[0].operands)
        want_types = [_b.MemRefType(t.element_type, t.get_shape(), t.layout, a.type.memory_space) for t, a in zip(arg_types, args)]
        for k, (a, wt) in enumerate(zip(args, want_types)):
            if a.type != wt:
                raise Violation("explicit-layout:lost-before-set-memory-layout" if "tsl" in str(arg_types[k]) else
                                "pipeline:set-memory-space-changed-an-operand-type",
                                dict(operand=k, was=str(arg_types[k]), now=str(a.type), after=to_text(mod)))
        arg_types = [a.type for a in args]

    if r["form"] == "operation":
        try:
            with cpu_limit(10):
                run_pass(mod, "dart-scheduler", ctx=ctx)
            mod.verify()
        except _Hang:
            raise Reject("dart-scheduler: no result within 10 s of CPU time")
        except StopIteration:
            raise Reject("dart-scheduler: no schedule found (StopIteration)")
        except Exception as e:  # not this property's subject (C03/C16); the scheduler produced nothing
            raise Reject(f"dart-scheduler: {type(e).__name__}: {str(e)[:60]}")
    scheds = _find(mod, "dart.schedule")
    if len(scheds) != 1:
        raise Reject("dart-scheduler left the operation unscheduled")
    sched = scheds[0]
    bounds, mats = D.schedule_matrices(sched)
    before = to_text(mod)

    del _PAD_LOG[:]
    if _TIMEOUTS[0] >= 3:
        # the pass needs milliseconds of CPU; a tree in which it hung three times in this process is not asked again, so that
        # a non-terminating pass is reported through the non-trivial floor within minutes
        raise Reject("set-memory-layout: skipped after three hangs in this process")
    try:
        with cpu_limit(3):
            run_pass(mod, "set-memory-layout", ctx=ctx, tiled=tiled)
    except _Hang:
        _TIMEOUTS[0] += 1
        raise Reject("set-memory-layout: no result within 3 s of CPU time")
    except (NotImplementedError, RuntimeError, AssertionError) as e:
        raise Reject(f"set-memory-layout: {type(e).__name__}: {str(e)[:60]}")
    except Exception as e:  # recorded, not a statement about a chosen layout (DESIGN 3.5)
        raise Reject(f"set-memory-layout crash: {type(e).__name__}: {str(e)[:60]}")
    pad_log = list(_PAD_LOG)
    try:
        mod.verify()
    except Exception as e:
        raise Violation("set-memory-layout:invalid-ir-after-pass", dict(error=str(e)[:300], before=before, after=to_text(mod)))

    from snaxc.dialects.snax import LayoutCast
    from snaxc.dialects.tsl import TiledStridedLayoutAttr

    sched = _find(mod, "dart.schedule")
    if len(sched) != 1:
        raise Violation("set-memory-layout:schedule-op-lost", dict(before=before, after=to_text(mod)))
    sched = sched[0]
    found: list = []
    had_tsl = [bool(o.get("layout") and "tsl" in o["layout"]) for o in r["operands"]]
    n_cast = 0
    nonrow = padded = False
    depth = 1
    layouts_txt = []
    if len(sched.operands) != len(r["operands"]):
        raise Violation("set-memory-layout:operand-count-changed", dict(before=before, after=to_text(mod)))
    for k, (v, o) in enumerate(zip(sched.operands, r["operands"])):
        shape = list(o["shape"])
        det = dict(operand=k, shape=shape, elty=o["elty"], tiled=tiled, schedule_bounds=bounds, A=mats[k][0], b=mats[k][1],
                   before=before)
        if had_tsl[k]:
            # (iv) untouched: still the function argument, type unchanged
            if v is not args[k] or v.type != arg_types[k] or args[k].type != arg_types[k]:
                found.append(("explicit-layout:operand-recast", dict(det, now=str(v.type), was=str(arg_types[k]))))
            continue
        if not isinstance(v.owner, LayoutCast):
            if v is not args[k]:
                found.append(("cast:operand-replaced-by-non-cast", dict(det, now=str(v.type))))
            continue
        n_cast += 1
        cast = v.owner
        if cast.source is not args[k]:
            found.append(("cast:source-is-not-the-original-operand", det))
        ty = v.type
        det["chosen"] = str(ty)
        layouts_txt.append(str(ty))
        if list(ty.get_shape()) != shape or ty.get_element_type() != arg_types[k].get_element_type() \
                or ty.memory_space != arg_types[k].memory_space:
            found.append(("cast:shape-element-type-or-memory-space-changed", det))
            continue
        if not isinstance(ty.layout, TiledStridedLayoutAttr):
            found.append(("cast:result-layout-is-not-tsl", det))
            continue
        L = T.tsl_to_recipe(ty.layout.data)
        if len(L["dims"]) != len(shape):
            found.append(("coverage:layout-rank-differs-from-operand-rank", det))
            continue
        if T.is_dynamic(L) or any(b <= 0 or s <= 0 for dim in L["dims"] for s, b in dim):
            found.append(("layout:non-positive-or-dynamic-stride-for-static-operand", det))
            continue
        # (i) coverage
        got = T.shape_of(L)
        A, b = mats[k]
        for d, (g, s) in enumerate(zip(got, shape)):
            if g != s:
                found.append((_coverage_signature(tiled, A, b, bounds, d, s, g), dict(det, dim=d, tile_bounds_product=g, size=s)))
        # (ii) injectivity over the operand shape
        full = addresses_over_shape(L, shape)
        addrs = full.reshape(-1)
        if len(np.unique(addrs)) != len(addrs):
            u, c = np.unique(addrs, return_counts=True)
            dup = int(u[c > 1][0])
            idxs = [list(map(int, i)) for i in np.argwhere(full == dup)[:2]]
            sig = "injectivity:two-elements-share-an-address"
            short = [d for d, (g, s) in enumerate(zip(got, shape)) if g < s]
            if short:
                # is the aliasing only due to indices beyond the tile bounds (a consequence of a coverage defect)?
                inside = full[tuple(slice(0, min(g, s)) for g, s in zip(got, shape))].reshape(-1)
                causes = {_coverage_signature(tiled, A, b, bounds, d, shape[d], got[d]) for d in short}
                if len(np.unique(inside)) == len(inside) and GENERIC_COVERAGE not in causes:
                    sig = "injectivity:index-beyond-tile-bounds"
            found.append((sig, dict(det, address=dup, indices=idxs)))
        nonrow = nonrow or not is_row_major(L, shape)
        padded = padded or is_padded(L)
        depth = max(depth, T.max_depth(L))
    # (iii) padding never decreases a stride
    for regime, before_s, after_s in pad_log:
        if after_s < before_s:
            found.append(("granularity:padding-decreased-the-stride", dict(regime=regime, stride=before_s, padded=after_s)))
            break
    fired = sorted({reg for reg, a, b_ in pad_log if b_ != a})

    # classes
    tags = list(r.get("tags", []))
    cls = [f"form:{r['form']}", f"tiled:{tiled}", f"kernel:{r['kernel']}", f"acc:{D.acc_of(r)}"]
    cls += sorted({f"width:{D.WIDTH[o['elty']]}" for o in r["operands"]})
    cls += [t for t in tags if t.split(":")[0] in ("fam", "odd", "conv", "order", "tsl-operands", "sweep", "operand", "bias", "flavour")
            or t.startswith("has:")]
    cls += [f"pad:{reg}" for reg in fired] or ["pad:none"]
    cls.append(f"casts:{'all' if n_cast == len(r['operands']) else 'none' if n_cast == 0 else 'some'}")
    cls.append(f"depth:{depth}")
    if via_alloc:
        cls.append("operands-allocated-in-function:set-memory-space-first")
    if nonrow:
        cls.append("layout:not-row-major")
    if padded:
        cls.append("layout:has-gaps")
    notmult = False
    partial = False
    for (A, b), o in zip(mats, r["operands"]):
        for d, s in enumerate(o["shape"]):
            for j, bd in enumerate(bounds):
                if A[d][j] != 0 and bd > 1 and s % bd != 0:
                    notmult = True
            if s > 1 and not projected_visited(A[d], b[d], bounds, s).all():
                partial = True
    if notmult:
        cls.append("shape-not-multiple-of-a-schedule-bound")
    if partial:
        cls.append("operand-partially-accessed")
    if len(bounds) > r["dims"]:
        cls.append("scheduler-tiled")
    if any(had_tsl):
        nontrivial = True
    else:
        nontrivial = bool(n_cast and (nonrow or fired))
    return Info(nontrivial=nontrivial, classes=tuple(cls), known=found, evals=1,
                sample=dict(before=before, chosen=layouts_txt))


def prop(recipe):
    return check(recipe)


# ------------------------------------------------------------------------------------------------
# strategies


@st.composite
def scheduled_case(draw, tier):
    return dict(op=draw(D.operation_recipe(tier)), tiled=draw(st.sampled_from([True, True, False])))


@st.composite
def direct_case(draw, tier):
    return dict(op=draw(D.schedule_recipe(tier)), tiled=draw(st.sampled_from([True, True, False])))


@st.composite
def explicit_case(draw, tier):
    if draw(st.integers(0, 2)) == 0:
        base = draw(st.one_of(D.elementwise_operation(tier, allow_odd=False), D.matmul_operation(tier)))
    else:
        base = draw(D.schedule_recipe(tier))
    for o in base["operands"]:
        o["layout"] = None
    rec = dict(op=draw(D.with_tsl_layouts(base)), tiled=draw(st.booleans()))
    if rec["op"].get("form") == "operation" and draw(st.booleans()):
        rec["via_alloc"] = True
    return rec


def sweep(tier):
    """Every 2-D shape up to 40 x 40 with the default maps, per accelerator and width, tiled and not (thorough tier)."""
    if tier != "thorough":
        return
    for a in range(1, 41):
        for b in range(1, 41):
            for tiled in (True, False):
                for w in D.WIDTHS:
                    yield dict(op=D.default_elementwise("alu_add", [a, b], [w] * 3), tiled=tiled)
                yield dict(op=D.default_elementwise("xdma_add", [a, b]), tiled=tiled)
                yield dict(op=D.default_elementwise("xdma_rescale_down", [a, b]), tiled=tiled)
                yield dict(op=D.default_elementwise("xdma_rescale_up", [a, b]), tiled=tiled)
                for w_in, w_out in (("i32", "i8"), ("i16", "i16"), ("i64", "i64")):
                    yield dict(op=D.default_elementwise("gemmx_rescale", [a, b], [w_in, w_out]), tiled=tiled)
                # matmul: A is a x b (M x K); N takes a template-sized, a tiled and a small value
                for N in (8, 16, 3):
                    yield dict(op=D.default_matmul("mac", a, N, b), tiled=tiled)
                yield dict(op=D.default_matmul("qmac_add", a, 8, b), tiled=tiled)
                for w_in, w_out in (("i16", "i32"), ("i32", "i64"), ("i64", "i8")):
                    yield dict(op=D.default_matmul("mac", a, 8, b, [w_in, w_in, w_out]), tiled=tiled)
                # the real scheduler refuses most shapes (a dim larger than the template bound that is not a multiple of it);
                # directly built schedules cover every shape: each dim split by its largest divisor <= the template bound
                for w in D.WIDTHS:
                    yield dict(op=D.tiled_schedule_of(D.default_elementwise("alu_add", [a, b], [w] * 3), (4, 4)), tiled=tiled)
                yield dict(op=D.tiled_schedule_of(D.default_elementwise("xdma_add", [a, b]), (16, 16)), tiled=tiled)
                yield dict(op=D.tiled_schedule_of(D.default_matmul("mac", a, 8, b), (8, 8, 8)), tiled=tiled)
                yield dict(op=D.tiled_schedule_of(D.default_matmul("mac", a, 16, b, ["i16", "i16", "i64"]), (8, 8, 8)), tiled=tiled)


SUBS = [
    Sub("scheduled", lambda tier: scheduled_case(tier), prop, budget=dict(quick=1200, thorough=24000),
        floor=dict(quick=150, thorough=2900),
        nontrivial_rule="the real dart-scheduler produced a schedule, set-memory-layout inserted casts and some chosen layout is "
                        "not plain row-major or granularity padding changed a stride"),
    Sub("direct", lambda tier: direct_case(tier), prop, budget=dict(quick=1800, thorough=40000),
        floor=dict(quick=230, thorough=5500),
        nontrivial_rule="set-memory-layout inserted casts and some chosen layout is not plain row-major or padding changed a stride"),
    Sub("explicit", lambda tier: explicit_case(tier), prop, budget=dict(quick=480, thorough=8000),
        floor=dict(quick=80, thorough=1400),
        nontrivial_rule="at least one operand carries a #tsl.tsl layout (one / some / all operands)"),
    Sub("sweep", None, prop, budget=dict(quick=0, thorough=0), exhaustive=sweep, exhaustive_only=True,
        floor=dict(quick=0, thorough=8000),
        nontrivial_rule="as 'scheduled'/'direct'; complete enumeration of 2-D shapes up to 40x40 with default maps, through the real "
                        "scheduler and as directly built tiled schedules (thorough tier only)"),
]
