"""C14 Dispatch runs each operation on exactly the cores it belongs to."""
from __future__ import annotations

from vlib import gen_multicore as G
from vlib.ctx import PassTimeout, parse, run_pass, shared_ctx, time_limit, to_text
from vlib.interp import InterpError, StepBudget, UseBeforeDef, dominance_errors
from vlib.machine_multicore import CORE_IDX_CALL, core_guard_ancestors, depends_on_core_idx, run_core, tag_of
from vlib.runner import Info, Outside, Reject, Sub, Violation

ID = "C14"
RULE = (
    "Recipes are functions over 1-3 one-dimensional memref arguments with 1-3 blocks (forward cf.br / cf.cond_br), nested scf.for "
    "(run-time trip counts 0..3), scf.if (i1 arguments or comparisons on induction variables, with and without else), an op with a region "
    "(\"test.op\"({...}) as in upstream dispatch_regions.mlir), and tagged statements of three kinds at any depth: data-mover ops "
    "(memref.copy), compute ops (linalg.generic with/without library_call; dart.operation / dart.schedule on snax_alu and "
    "snax_gemmx whose inner dart.generic is empty or holds kernel.add / kernel.mul / kernel.rescale on i32/i8; the same on snax_xdma with a "
    "kernel no streamer extension provides), further data-mover ops (dart regions on snax_xdma with an extension kernel: kernel.add i32, "
    "kernel.rescale i32->i8 / i8->i32) and neutral ops (test.op, external calls, snax.cluster_sync_op, alloc, subview); operands are arguments, allocs and "
    "static/dynamic subviews; optional index return value; nb_cores in 2..5; 2 input vectors. dart regions may be fused (2-3 dart.generic ops "
    "chained through streams; the first generic's kernel decides the core, as the rules document). Modules hold several functions: "
    "main (no explicit visibility / public / private) plus 0-2 helper functions with a body (private, public or no visibility; called "
    "from main or not) next to private declarations; every function is executed and checked per core as an entry point, and "
    "main's trace includes the ops of the helpers it calls. Neutral region ops come with a terminator, without one, and with two "
    "terminator-less regions (a block may END in a dispatchable op); some functions already call snax_cluster_core_idx themselves "
    "(result unused or consumed by a tagged neutral op; then the reference run is per core as well). The real dispatch-regions{nb_cores=N} is "
    "applied; original and dispatched function are executed once per core id on the multi-core machine (snax_cluster_core_idx returns the id) "
    "and the trace of tagged ops (tag, evaluated operands) of core c must equal the original trace filtered by the rule known by "
    "construction (data-mover ops iff c == N-1, compute ops iff c == 0, others always), order preserved, same return value. Then xDSL's "
    "function-constant-pinning is applied to the result (single-block functions) and both the entry function and the function "
    "specialised for c must give the same per-core trace, the latter without reading the core id. Structural: exactly one core-id call "
    "(none without dispatchable ops), in the entry block, before every use; no SSA dominance error. "
    "Non-trivial: the function has both data-mover and compute ops, at least one dispatchable op nested in a region and at least two "
    "dispatchable ops adjacent in one block; distinct by recipe hash."
)
ASSUMPTIONS = [
    "xDSL 0.70 compatibility shim (vlib/compat.py)",
    "interpreter vlib/interp.py (scf/cf/func/arith) and vlib/machine_multicore.py are the reference semantics; dispatchable ops are opaque events",
    "which core an op belongs to is fixed by the generator (memref.copy -> data mover; linalg.generic and dart streaming regions on "
    "compute accelerators -> compute core 0; dart streaming regions on snax_xdma -> data mover iff the kernel is provided by a streamer "
    "extension, else compute), the classes dispatching_rules.py documents; snax_xdma is registered in a private context the way "
    "snaxc/tools/config_parser.py registers it",
    "function-constant-pinning only supports single-block function bodies (Region.block); multi-block cases skip the pinning clause",
]


_SAMPLES = [0]


class Lazy:
    """Violation detail whose expensive parts (IR text) are only rendered when a violation is raised."""

    def __init__(self, **kw):
        self.kw = kw

    def plus(self, **kw):
        return Lazy(**dict(self.kw, **kw))

    def done(self, **kw):
        out = {}
        for k, v in dict(self.kw, **kw).items():
            out[k] = v() if callable(v) else v
        return out


from vlib.ctx_multicore import xdma_ctx as ctx14  # noqa: E402  (private context with snax_xdma registered)


def keep(kind, c, n):
    if kind == G.DM:
        return c == n - 1
    if kind == G.COMPUTE:
        return c == 0
    return True


def first_diff(expected, got, kinds, c, n):
    """Classify the first difference between two traces of (tag, name, operands)."""
    for i in range(max(len(expected), len(got))):
        e = expected[i] if i < len(expected) else None
        g = got[i] if i < len(got) else None
        if e == g:
            continue
        if g is not None and not keep(kinds.get(g[0], G.NEUTRAL), c, n):
            return f"{kinds.get(g[0])}-op-ran-on-foreign-core", i
        etags = [x[0] for x in expected]
        gtags = [x[0] for x in got]
        if e is not None and gtags.count(e[0]) < etags.count(e[0]):
            return f"{kinds.get(e[0], G.NEUTRAL)}-op-missing-or-too-few", i
        if g is not None and gtags.count(g[0]) > etags.count(g[0]):
            return f"{kinds.get(g[0], G.NEUTRAL)}-op-too-often", i
        if e is not None and g is not None and e[0] == g[0]:
            return "operands-differ", i
        return "order-changed", i
    return None, -1


def structural(mod, built, fname="main"):
    """The function survives and a core-id call, if any, has its declaration. (How many core-id calls there are and where they sit is
    not part of the property: the per-core traces and the dominance walk decide whether every guard sees a valid core id.)"""
    f = None
    for op in mod.body.block.ops:
        if op.name == "func.func" and op.sym_name.data == fname:
            f = op
    if f is None:
        return "function-lost"
    calls = [op for op in f.walk() if op.name == "func.call" and op.callee.root_reference.data == CORE_IDX_CALL]
    if calls:
        decl = [op for op in mod.body.block.ops if op.name == "func.func" and op.sym_name.data == CORE_IDX_CALL]
        if len(decl) != 1 or decl[0].body.blocks:
            return "core-id-declaration-missing"
    return None


LATER_BLOCK_SIG = "dispatch-regions: multi-block function, dispatchable op in a block after the first block holding that kind stays unguarded"


XDMA_SIG = "dispatching-rules: snax_xdma streaming region whose kernel no streamer extension provides gets no core guard (runs on all cores)"


def later_block_unguarded(mod, built, tag, fname="main"):
    """The op with `tag` has no core guard at all and lives in a function-body block that comes after the first block
    containing an op of the same kind (the structural feature of the known multi-block defect)."""
    f = [op for op in mod.body.block.ops if op.name == "func.func" and op.sym_name.data == fname][0]
    kind = built.kinds.get(tag)
    first_with_kind = None
    mine = None
    target = None
    for bi, block in enumerate(f.body.blocks):
        for op in block.walk():
            t = tag_of(op)
            if t is None or built.kinds.get(t) != kind:
                continue
            if first_with_kind is None:
                first_with_kind = bi
            if t == tag:
                mine, target = bi, op
    if target is None or core_guard_ancestors(target):
        return False
    return first_with_kind is not None and mine > first_with_kind


def pinned_table(mod, fname="main"):
    """value -> name of the function specialised for it, read off the entry function's dispatch chain."""
    out = {}
    f = [op for op in mod.body.block.ops if op.name == "func.func" and op.sym_name.data == fname][0]
    for op in f.walk():
        if op.name != "scf.if":
            continue
        c = op.cond.owner
        if getattr(c, "name", None) != "arith.cmpi" or c.predicate.value.data != 0:
            continue
        a, b_ = c.operands
        if not (getattr(a.owner, "name", None) == "func.call" and a.owner.callee.root_reference.data == CORE_IDX_CALL):
            continue
        if getattr(b_.owner, "name", None) != "arith.constant":
            continue
        first = op.true_region.block.first_op if op.true_region.blocks else None
        if first is not None and first.name == "func.call" and first.callee.root_reference.data.startswith(fname + "_pinned"):
            out.setdefault(b_.owner.value.value.data, first.callee.root_reference.data)
    return out


def _run(mod, fname, args, c, n, what, detail):
    try:
        return run_core(mod, fname, args, c, n, kinds=None, log_accesses=False)
    except StepBudget:
        return None
    except UseBeforeDef as e:
        raise Violation(f"{what}:use-before-def-at-run-time", detail.done(error=str(e), core=c))


def prop(r):
    built = G.build_module(r)
    n = r["nb_cores"]
    kinds = built.all_kinds
    opnames = dict(built.opnames)
    for hb in built.helpers.values():
        opnames.update(hb.opnames)
    funcs = [("main", built)] + list(built.helpers.items())
    orig = parse(built.text, ctx14())
    orig.verify()
    disp = orig.clone()
    before = built.text
    try:
        with time_limit(30):
            run_pass(disp, "dispatch-regions", ctx=ctx14(), nb_cores=n)
    except PassTimeout:
        raise Reject("dispatch-regions did not terminate within 30 s")
    except Exception as e:
        raise Violation(f"dispatch:raises:{type(e).__name__}", dict(error=str(e)[:300], before=before))
    try:
        disp.verify()
    except Exception as e:
        raise Violation("dispatch:invalid-ir-after-pass", dict(error=str(e)[:300], before=before))
    det = Lazy(nb_cores=n, before=before, after=lambda: to_text(disp))
    for op in disp.walk():
        t = tag_of(op)
        if t is not None and ":snax_xdma:" in opnames.get(t, "") and kinds[t] == G.COMPUTE and not core_guard_ancestors(op):
            raise Violation(XDMA_SIG, det.done(tag=t, op=opnames[t]))
    for fname, fb in funcs:
        s = structural(disp, fb, fname)
        if s is not None:
            raise Violation("dispatch:structure:" + s.split(":")[0], det.done(problem=s, function=fname))
    dom = dominance_errors(disp)
    if dom:
        raise Violation("dispatch:use-before-def-after-pass", det.done(errors=dom[:3]))

    single_block = len(r["blocks"]) == 1
    pinned = None
    pin_class = "pin:skipped-multi-block"
    tables = {}
    if single_block:
        pinned = disp.clone()
        try:
            with time_limit(30):
                run_pass(pinned, "function-constant-pinning", ctx=ctx14())
            pinned.verify()
        except PassTimeout:
            raise Reject("function-constant-pinning did not terminate within 30 s")
        except Exception as e:
            raise Violation(f"pin:raises:{type(e).__name__}", det.done(error=str(e)[:300]))
        det_p = det.plus(pinned=lambda: to_text(pinned))
        pin_class = "pin:nothing-to-pin"
        for fname, fb in funcs:
            if not any(k != G.NEUTRAL for k in fb.kinds.values()):
                continue
            table = pinned_table(pinned, fname)
            if sorted(table) != list(range(n)):
                raise Violation("pin:specialisation-missing-for-some-core", det_p.done(found=sorted(table), function=fname))
            tables[fname] = table
            pin_class = "pin:checked"
        for op in pinned.walk():
            if "pin_to_constants" in op.attributes:
                raise Violation("pin:annotation-left-behind", det_p.done())
        if not tables:
            pinned = None

    n_exec = 0
    evs = 0
    per_core_orig = "pre_existing_core_idx_call" in built.features
    for fname, fb in funcs:
        for k in range(len(r["inputs"])):
            args, trips = G.input_vector(r, fb, k)
            try:
                m0 = run_core(orig, fname, args, 0, n, kinds=None, log_accesses=False)
            except StepBudget:
                continue
            d = det.plus(function=fname, args=[a if not isinstance(a, tuple) else list(a) for a in args], arg_names=fb.arg_names)
            for c in range(n):
                if per_core_orig and c:
                    # the program itself reads the core id: the reference run is per core, too
                    try:
                        m0 = run_core(orig, fname, args, c, n, kinds=None, log_accesses=False)
                    except StepBudget:
                        continue
                expected = [e for e in m0.trace if keep(kinds.get(e[0], G.NEUTRAL), c, n)]
                m1 = _run(disp, fname, args, c, n, "dispatch", d)
                if m1 is None:
                    continue
                kind, at = first_diff(expected, m1.trace, kinds, c, n)
                if kind is not None:
                    sig = "dispatch:core-trace:" + kind
                    if fname == "main" and kind.endswith("-op-ran-on-foreign-core") and later_block_unguarded(disp, built, m1.trace[at][0]):
                        sig = LATER_BLOCK_SIG
                    raise Violation(sig, d.done(core=c, at=at, expected=expected[max(0, at - 2): at + 3], got=m1.trace[max(0, at - 2): at + 3]))
                if m1.result != m0.result:
                    raise Violation("dispatch:return-value-differs", d.done(core=c, expected=m0.result, got=m1.result))
                n_exec += 1
                evs += len(m1.trace)
                if pinned is None:
                    continue
                d_p = d.plus(pinned=lambda: to_text(pinned))
                m2 = _run(pinned, fname, args, c, n, "pin", d_p)
                if m2 is not None:
                    kind, at = first_diff(expected, m2.trace, kinds, c, n)
                    if kind is not None:
                        raise Violation("pin:entry-function-core-trace:" + kind, d_p.done(core=c, at=at, expected=expected[max(0, at - 2): at + 3],
                                                                                      got=m2.trace[max(0, at - 2): at + 3]))
                    if m2.result != m0.result:
                        raise Violation("pin:return-value-differs", d_p.done(core=c, expected=m0.result, got=m2.result))
                if fname not in tables:
                    continue
                # the specialised function itself, executed on a machine whose core id is a different one: it must not consult it
                # (unless the program itself reads the core id: a pre-existing call, or a helper function that is called)
                other = c if fb.reads_core_id else (c + 1) % n
                spec = tables[fname][c]
                m3 = _run(pinned, spec, args, other, n, "pin", d_p)
                if m3 is not None:
                    kind, at = first_diff(expected, m3.trace, kinds, c, n)
                    if kind is not None:
                        raise Violation("pin:specialised-function-core-trace:" + kind,
                                        d_p.done(core=c, specialised=spec, at=at, expected=expected[max(0, at - 2): at + 3],
                                                 got=m3.trace[max(0, at - 2): at + 3]))
                    if m3.core_idx_calls and not fb.reads_core_id:
                        raise Violation("pin:specialised-function-reads-core-id", d_p.done(core=c, specialised=spec))
                    if m3.result != m0.result:
                        raise Violation("pin:return-value-differs", d_p.done(core=c, expected=m0.result, got=m3.result))
    if n_exec == 0:
        raise Outside("all executions exceeded the step budget")
    f = built.features
    nontrivial = (G.DM in f and G.COMPUTE in f and "nested_dispatchable" in f and ("adjacent_same" in f or "adjacent_mixed" in f) and evs > 0)
    cls = [f"N:{n}", f"blocks:{len(r['blocks'])}", f"depth:{built.max_depth}", pin_class, f"main-visibility:{r.get('vis') or 'none'}"] + sorted(f)
    if r.get("ret"):
        cls.append("returns-value")
    sample = None
    if nontrivial and _SAMPLES[0] < 6:
        _SAMPLES[0] += 1
        sample = dict(before=before, after=to_text(disp))
    return Info(nontrivial=bool(nontrivial), classes=tuple(cls), evals=n_exec, sample=sample)


SUBS = [
    Sub("dispatch", lambda tier: G.program_c14(tier), prop, budget=dict(quick=4000, thorough=100000),
        floor=dict(quick=300, thorough=11000),
        nontrivial_rule="both data-mover and compute ops, at least one dispatchable op nested in a region, at least two dispatchable ops adjacent in a block"),
]
