"""C06 Setup/compute overlap keeps every launch's configuration."""
from __future__ import annotations

from hypothesis import strategies as st

from vlib import gen_accfg as G
from vlib.accfg_common import compare_launch_traces, execute
from vlib.ctx import PassTimeout, parse, run_pass, shared_ctx, time_limit, to_text
from vlib.interp import StepBudget, UseBeforeDef, dominance_errors
from vlib.runner import Info, Outside, Reject, Sub, Violation

ID = "C06"
RULE = (
    "Recipes are accfg programs (grammar of C01, biased towards in-loop units fed by pure arith chains on induction variables, "
    "loop-carried integers and outer values; lb != 0, step != 1, several units per body, nested loops and ifs) plus 3 input vectors "
    "(trip counts 0,1,2,3,5). Input to the pass under test is the deduplicated lowering form: accfg-trace-states, accfg-dedup are "
    "applied first; in a third of the cases 1..3 launches are then repeated (launch/await pair of the same state, later in the same block, "
    "directly in front of the setup that consumes the state; at the same level or inside a new scf.if branch), so that a state has several "
    "launches and users nested in regions. Then the real accfg-config-overlap runs. Oracle: differential execution on the CSR machine: launch/await/call "
    "events equal in kind, order, launch values and call arguments, and at every launch every field the input program had written holds "
    "the same value (setups are not positional events, so a setup may move before an await; an extra setup after the last iteration "
    "is allowed unless a launch observes it); plus availability: own SSA dominance walk over the result and the interpreter's "
    "use-before-def detection. Non-trivial: the pass changed the op order/structure and an execution reached >= 2 launches; distinct by recipe hash."
)
ASSUMPTIONS = [
    "xDSL 0.70 compatibility shim (vlib/compat.py); xDSL 0.70 verify() does not check dominance, so the check brings its own walk",
    "interpreter vlib/interp.py and CSRMachine as in C01",
    "the input program is what accfg-trace-states + accfg-dedup produce on this tree (the form the property names)",
]


def _shape(mod):
    out = []
    for op in mod.walk():
        if op.name in ("accfg.setup", "accfg.launch", "accfg.await", "scf.for", "scf.if", "func.call", "scf.yield"):
            out.append(op.name)
    return out


def _relaunch(mod, picks):
    """Repeat a launch/await pair of a state directly in front of the setup that consumes that state (where it is, by
    construction, still the current one): at the same level, or inside the then-/else-branch of a new scf.if on an i1 argument.
    Returns the number of inserted launches. The result is still a well-formed accfg program (every launch uses the state
    in effect), but a state now has users in nested regions and more than one launch."""
    from xdsl.dialects import scf
    from xdsl.ir import Block, Region
    from snaxc.dialects import accfg
    setups = [op for op in mod.walk() if isinstance(op, accfg.SetupOp) and op.in_state is not None]
    if not setups:
        return 0
    n = 0
    for idx, kind, pc in picks:
        S = setups[idx % len(setups)]
        st_val = S.in_state
        blk = S.parent_block()
        model = None
        for u in st_val.uses:
            L = u.operation
            if isinstance(L, accfg.LaunchOp) and L.parent_block() is blk and blk.get_operation_index(L) < blk.get_operation_index(S):
                model = L
                break
        # only a repetition of a launch of the same state that already sits earlier in the same block: it observes exactly what that
        # launch observes in the input program. (A launch of a loop / if result or of a loop-carried state without such a model would
        # rely on what a field holds after the last iteration without a setup in between; the lowering's full-field form never does
        # that and the pass does not support it.)
        if model is None:
            continue
        launch = accfg.LaunchOp(list(model.operands[:-1]), list(model.param_names.data), st_val)
        await_ = accfg.AwaitOp(launch.results[0])
        if kind == "plain":
            blk.insert_ops_before([launch, await_], S)
        else:
            f = S
            while f is not None and f.name != "func.func":
                f = f.parent_op()
            conds = [a for a in f.regions[0].blocks[0].args if str(a.type) == "i1"]
            if not conds:
                continue
            c = conds[pc % len(conds)]
            body = Region(Block([launch, await_, scf.YieldOp()]))
            empty = Region(Block([scf.YieldOp()]))
            ifop = scf.IfOp(c, [], body, empty) if kind == "then" else scf.IfOp(c, [], empty, body)
            blk.insert_ops_before([ifop], S)
        n += 1
    return n


def prop(r):
    built = G.build(r)
    base = parse(built.text, shared_ctx())
    base.verify()
    try:
        with time_limit(10):
            run_pass(base, "accfg-trace-states")
            run_pass(base, "accfg-dedup", hoist=r.get("hoist", True))
            base.verify()
    except PassTimeout:
        raise Reject("preparation passes did not terminate within 10 s")
    except Exception as e:
        raise Reject(f"preparation passes raised {type(e).__name__}: {str(e)[:60]}")
    if dominance_errors(base):
        raise Reject("preparation passes produced a use before def (C01's business)")
    relaunched = _relaunch(base, r["relaunch"]) if r.get("relaunch") else 0
    if relaunched:
        base.verify()
    opt = base.clone()
    try:
        with time_limit(10):
            import contextlib, io
            with contextlib.redirect_stderr(io.StringIO()):
                run_pass(opt, "accfg-config-overlap")
            opt.verify()
    except PassTimeout:
        raise Reject("accfg-config-overlap did not terminate within 10 s")
    except Exception as e:
        raise Violation(f"overlap:raises:{type(e).__name__}", dict(error=str(e)[:200], before=to_text(base)))
    dom = dominance_errors(opt)
    if dom:
        raise Violation("overlap:uses-value-not-yet-available", dict(errors=dom[:3], before=to_text(base), after=to_text(opt)))
    changed = _shape(base) != _shape(opt)
    loop_level = sum(1 for op in opt.walk() if op.name == "arith.addi") > sum(1 for op in base.walk() if op.name == "arith.addi")
    multi = False
    trips_seen = set()
    n_exec = 0
    for k in range(3):
        args, trips = G.input_vector(r, built, k)
        try:
            m0 = execute(base, args)
        except StepBudget:
            continue
        except UseBeforeDef:
            raise Reject("input program uses a value before its definition")
        try:
            m1 = execute(opt, args)
        except StepBudget:
            continue
        except UseBeforeDef as e:
            raise Violation("overlap:uses-value-not-yet-available:run-time", dict(error=str(e), args=args, before=to_text(base), after=to_text(opt)))
        n_exec += 1
        mis = compare_launch_traces(m0.trace, m1.trace)
        if mis is not None:
            raise Violation("overlap:" + mis["kind"], dict(mismatch=mis, args=args, arg_names=built.arg_names,
                                                            before=to_text(base), after=to_text(opt)))
        per_acc = {}
        for e in m0.trace:
            if e[0] == "launch":
                per_acc[e[1]] = per_acc.get(e[1], 0) + 1
        if any(v >= 2 for v in per_acc.values()):
            multi = True
        trips_seen.update("t0" if t == 0 else "t1" if t == 1 else "t2+" for t in trips)
    if n_exec == 0:
        raise Outside("all executions exceeded the step budget")
    cls = sorted(built.features) + sorted(trips_seen) + (["moved"] if changed else ["unmoved"]) + (["loop_level_move"] if loop_level else [])
    if relaunched:
        cls.append("relaunch-inserted")
    return Info(nontrivial=bool(changed and multi), classes=tuple(cls), evals=n_exec,
                sample=dict(before=to_text(base), after=to_text(opt)))


@st.composite
def strat(draw, tier):
    r = draw(G.program(tier))
    r["hoist"] = draw(st.sampled_from([True, True, False]))
    if draw(st.integers(0, 2)) == 0:
        r["relaunch"] = draw(st.lists(st.tuples(st.integers(0, 11), st.sampled_from(["plain", "then", "else", "then"]), st.integers(0, 3)).map(list),
                                      min_size=1, max_size=3))
    return r


SUBS = [
    Sub("overlap", lambda tier: strat(tier), prop, budget=dict(quick=3000, thorough=60000),
        floor=dict(quick=200, thorough=4000),
        nontrivial_rule="accfg-config-overlap changed the op order/structure and an execution reached >= 2 launches of one accelerator"),
]
