"""C06 Setup/compute overlap keeps every launch's configuration."""
from __future__ import annotations

from hypothesis import strategies as st

from vlib import gen_accfg as G
from vlib.accfg_common import compare_launch_traces, execute
from vlib.ctx import PassTimeout, parse, run_pass, shared_ctx, time_limit, to_text
from vlib.interp import StepBudget, UseBeforeDef, dominance_errors
from vlib.runner import Info, Outside, Reject, Sub, Violation

ID = "C06"
RULE = (
    "Recipes are accfg programs (grammar of C01, biased towards in-loop units fed by pure arith chains on induction variables, "
    "loop-carried integers and outer values; lb != 0, step != 1, several units per body, nested loops and ifs) plus 3 input vectors "
    "(trip counts 0,1,2,3,5). Input to the pass under test is the deduplicated lowering form: accfg-trace-states, accfg-dedup are "
    "applied first. Then the real accfg-config-overlap runs. Oracle: differential execution on the CSR machine: launch/await/call "
    "events equal in kind, order, launch values and call arguments, and at every launch every field the input program had written holds "
    "the same value (setups are not positional events, so a setup may move before an await; an extra setup after the last iteration "
    "is allowed unless a launch observes it); plus availability: own SSA dominance walk over the result and the interpreter's "
    "use-before-def detection. Non-trivial: the pass changed the op order/structure and an execution reached >= 2 launches; distinct by recipe hash."
)
ASSUMPTIONS = [
    "xDSL 0.70 compatibility shim (vlib/compat.py); xDSL 0.70 verify() does not check dominance, so the check brings its own walk",
    "interpreter vlib/interp.py and CSRMachine as in C01",
    "the input program is what accfg-trace-states + accfg-dedup produce on this tree (the form the property names)",
]


def _shape(mod):
    out = []
    for op in mod.walk():
        if op.name in ("accfg.setup", "accfg.launch", "accfg.await", "scf.for", "scf.if", "func.call", "scf.yield"):
            out.append(op.name)
    return out


def prop(r):
    built = G.build(r)
    base = parse(built.text, shared_ctx())
    base.verify()
    try:
        with time_limit(10):
            run_pass(base, "accfg-trace-states")
            run_pass(base, "accfg-dedup", hoist=r.get("hoist", True))
            base.verify()
    except PassTimeout:
        raise Reject("preparation passes did not terminate within 10 s")
    except Exception as e:
        raise Reject(f"preparation passes raised {type(e).__name__}: {str(e)[:60]}")
    if dominance_errors(base):
        raise Reject("preparation passes produced a use before def (C01's business)")
    opt = base.clone()
    try:
        with time_limit(10):
            import contextlib, io
            with contextlib.redirect_stderr(io.StringIO()):
                run_pass(opt, "accfg-config-overlap")
            opt.verify()
    except PassTimeout:
        raise Reject("accfg-config-overlap did not terminate within 10 s")
    except Exception as e:
        raise Violation(f"overlap:raises:{type(e).__name__}", dict(error=str(e)[:200], before=to_text(base)))
    dom = dominance_errors(opt)
    if dom:
        raise Violation("overlap:uses-value-not-yet-available", dict(errors=dom[:3], before=to_text(base), after=to_text(opt)))
    changed = _shape(base) != _shape(opt)
    loop_level = sum(1 for op in opt.walk() if op.name == "arith.addi") > sum(1 for op in base.walk() if op.name == "arith.addi")
    multi = False
    trips_seen = set()
    n_exec = 0
    for k in range(3):
        args, trips = G.input_vector(r, built, k)
        try:
            m0 = execute(base, args)
        except StepBudget:
            continue
        except UseBeforeDef:
            raise Reject("input program uses a value before its definition")
        try:
            m1 = execute(opt, args)
        except StepBudget:
            continue
        except UseBeforeDef as e:
            raise Violation("overlap:uses-value-not-yet-available:run-time", dict(error=str(e), args=args, before=to_text(base), after=to_text(opt)))
        n_exec += 1
        mis = compare_launch_traces(m0.trace, m1.trace)
        if mis is not None:
            raise Violation("overlap:" + mis["kind"], dict(mismatch=mis, args=args, arg_names=built.arg_names,
                                                            before=to_text(base), after=to_text(opt)))
        per_acc = {}
        for e in m0.trace:
            if e[0] == "launch":
                per_acc[e[1]] = per_acc.get(e[1], 0) + 1
        if any(v >= 2 for v in per_acc.values()):
            multi = True
        trips_seen.update("t0" if t == 0 else "t1" if t == 1 else "t2+" for t in trips)
    if n_exec == 0:
        raise Outside("all executions exceeded the step budget")
    cls = sorted(built.features) + sorted(trips_seen) + (["moved"] if changed else ["unmoved"]) + (["loop_level_move"] if loop_level else [])
    return Info(nontrivial=bool(changed and multi), classes=tuple(cls), evals=n_exec,
                sample=dict(before=to_text(base), after=to_text(opt)))


@st.composite
def strat(draw, tier):
    r = draw(G.program(tier))
    r["hoist"] = draw(st.sampled_from([True, True, False]))
    return r


SUBS = [
    Sub("overlap", lambda tier: strat(tier), prop, budget=dict(quick=3000, thorough=60000),
        floor=dict(quick=200, thorough=4000),
        nontrivial_rule="accfg-config-overlap changed the op order/structure and an execution reached >= 2 launches of one accelerator"),
]
