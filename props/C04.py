"""C04 CSR lowering writes every field to its declared register."""
from __future__ import annotations

import contextlib
import io
import itertools
import re

from hypothesis import strategies as st

from vlib import gen_accfg as G
from vlib.accfg_common import execute
from vlib.ctx import PassTimeout, parse, run_pass, shared_ctx, time_limit, to_text
from vlib.interp import InterpError, StepBudget, UseBeforeDef, dominance_errors, unsigned
from vlib.machines import CSRMachine, Havoc, Machine, has_no_effects_annotation
from vlib.runner import Info, Outside, Reject, Sub, Violation

ID = "C04"
RULE = (
    "(b) lowering: accfg program recipes (grammar of C01) over the registered accelerators snax_hwpe_mult, snax_alu, snax_gemmx "
    "(CSR) and gemmini (RoCC), real field and launch-field names, value type index/i32/i64; the module declares the accelerator via "
    "its generate_acc_op(); the input to convert-accfg-to-csr is the program after accfg-trace-states and optionally accfg-dedup and "
    "accfg-config-overlap (partial setups, state through iter_args and if results). The field-level program runs on the CSR machine, "
    "the lowered program on an address-level machine that decodes the llvm.inline_asm strings (csrw/csrr/nop/.insn r); the expected "
    "address-level event sequence is derived from the field-level events and the accfg.accelerator op of the input: one csrw per configured "
    "field to its declared address, launch values to the declared launch addresses, one poll of the declared barrier (+ the documented epilogue), "
    "calls interleaved identically; for gemmini one instruction per touched rs1/rs2 pair carrying the values in effect. Finally no accfg op and "
    "no !accfg.state/!accfg.token value may survive. Non-trivial: a state value crosses a loop or if boundary and at least one setup is partial. "
    "(a) register maps: generated/enumerated accelerator configurations (alu/gemmx/xdma/phs-like streamer configurations with 1..4 streamers, "
    "1..6 temporal dims with n/i/r flags, 1..2 spatial dims, option subsets; gemmx m,n,k; PHS switch counts); generate_acc_op() must declare exactly "
    "the accelerator's fields/launch_fields in order with pairwise distinct addresses that also avoid the barrier and the reserved slots. "
    "Non-trivial: not a default configuration. Distinct by recipe hash."
)
ASSUMPTIONS = [
    "xDSL 0.70 compatibility shim (vlib/compat.py)",
    "interpreter vlib/interp.py; CSRMachine (field level) and AddrMachine (address level; a barrier/status read returns 'idle')",
    "await epilogues are taken from the C snippets documented in snaxc/accelerators/snax.py (hwpe: poll barrier, write 0 to 0x3c5; others: poll barrier)",
    "reserved slots: the 2 addresses after the streamer launch register (busy + performance counter, documented in get_streamer_launch_dict); "
    "xDMA: non-pointer fields start after 2 + 2*max_multicast_dest pointer registers",
]

# ---------------------------------------------------------------------------------------------------- (b) lowering

TARGETS = {
    "hwpe": (["snax_hwpe_mult"], ["i32", "index"]),
    "alu": (["snax_alu"], ["i32", "index"]),
    "gemmx": (["snax_gemmx"], ["i32"]),
    "gemmini": (["gemmini"], ["i64"]),
    "hwpe+alu": (["snax_hwpe_mult", "snax_alu"], ["i32", "index"]),
}

SIG_ROCC_PARTNER = "lowering:rocc:partner-half-of-split-pair-not-in-inferred-state:KeyError"
SIG_ROCC_DEFAULT0 = "lowering:rocc:partner-half-unknown-at-stateless-setup-defaulted-to-0"

_ACC_CACHE: dict = {}


def acc_info(name):
    """(field names, launch field names) declared by the registered accelerator's accfg.accelerator op."""
    if name not in _ACC_CACHE:
        acc = shared_ctx().get_acc(name)
        op = acc.generate_acc_op()
        _ACC_CACHE[name] = (list(op.field_names()), list(op.launch_field_names()))
    return _ACC_CACHE[name]


class AddrMachine(Machine):
    """Address-level machine: decodes the inline asm the lowering emits."""

    def __init__(self):
        self.trace: list = []
        self.ncalls = 0

    def exec(self, op, operands, env):
        n = op.name
        if n == "llvm.inline_asm":
            s = op.asm_string.data
            if s == "csrw $0, $1":
                self.trace.append(("w", operands[0], operands[1]))
                return []
            if s == "csrr $0, $1":
                self.trace.append(("r", operands[0]))
                return [0]  # idle
            if s == "nop":
                return []
            m = re.match(r"\.insn r CUSTOM_(\d+), 0x3, (\d+) ,x0, \$0, \$1$", s)
            if m:
                self.trace.append(("rocc", int(m.group(2)), operands[0], operands[1]))
                return []
            raise InterpError(f"unknown inline asm {s!r}")
        if n.startswith("test."):
            self.trace.append(("op", n, tuple(operands)))
            return [1000 + len(self.trace) for _ in op.results]
        return NotImplemented

    def call(self, name, args, op, env):
        self.trace.append(("call", name, tuple(args)))
        return []


class FieldMachine(CSRMachine):
    """CSR machine that also records a register snapshot with every setup (needed for the RoCC pairs)."""

    def __init__(self):
        super().__init__(record_setups=True)

    def exec(self, op, operands, env):
        res = super().exec(op, operands, env)
        if op.name == "accfg.setup":
            acc = op.accelerator.data
            kind, a, params = self.trace[-1]
            self.trace[-1] = (kind, a, params, dict(self.regs[acc]), self.default[acc], op.in_state is not None)
        return res


def expected_events(field_trace, acc_ops):
    """Translate field-level events to the address-level events the property demands."""
    out = []
    for e in field_trace:
        k = e[0]
        if k == "setup":
            _, acc, params, regs, default, has_in_state = e
            aop, is_rocc, barrier_kind = acc_ops[acc]
            if is_rocc:
                touched = {n[:-4] for n, _ in params}
                given = {n for n, _ in params}
                for name, f7 in aop.field_items():
                    if name.endswith(".rs1") and name[:-4] in touched:
                        inst = name[:-4]
                        v1 = regs.get(inst + ".rs1", default if isinstance(default, Havoc) and default.n else 0)
                        v2 = regs.get(inst + ".rs2", default if isinstance(default, Havoc) and default.n else 0)
                        out.append(("rocc", f7.value.data, v1, v2, (inst + ".rs1" in given, inst + ".rs2" in given, has_in_state)))
            else:
                addr = {n: a.value.data for n, a in aop.field_items()}
                for n, v in params:
                    out.append(("w", addr[n], v, "field"))
        elif k == "launch":
            _, acc, regs, default, lvals = e
            aop, is_rocc, barrier_kind = acc_ops[acc]
            if is_rocc:
                d = dict(lvals)
                for name, f7 in aop.launch_field_items():
                    if name.endswith(".rs1"):
                        inst = name[:-4]
                        out.append(("rocc", f7.value.data, d[inst + ".rs1"], d[inst + ".rs2"]))
            else:
                addr = {n: a.value.data for n, a in aop.launch_field_items()}
                for n, v in lvals:
                    out.append(("w", addr[n], v, "launch"))
        elif k == "await":
            acc = e[1]
            aop, is_rocc, barrier_kind = acc_ops[acc]
            if is_rocc:
                continue
            out.append(("r", aop.barrier.value.data))
            if barrier_kind == 1:
                out.append(("w", 965, 0, "epilogue"))
        elif k in ("call", "op"):
            out.append(e)
    return out


def _norm(v):
    return unsigned(v, 32) if isinstance(v, int) else v


def compare_addr(expected, got, field_addrs):
    """Writes to setup-field addresses are compared per maximal run as stably address-sorted lists
    (the property fixes one write per field and the order relative to launches/barriers, not the order of fields within a setup).
    Returns (mismatch or None, list of known-kind deviations)."""

    def canon(evs):
        res = []
        run = []

        def flush():
            if run:
                res.extend(sorted(run, key=lambda t: t[1]))
                run.clear()

        for e in evs:
            if e[0] == "w":
                addr, val = e[1], _norm(e[2])
                if addr in field_addrs:
                    run.append(("w", addr, val))
                    continue
                flush()
                res.append(("w", addr, val))
            elif e[0] == "rocc":
                flush()
                res.append(("rocc", e[1], e[2] if not isinstance(e[2], int) else unsigned(e[2], 64),
                            e[3] if not isinstance(e[3], int) else unsigned(e[3], 64)) + ((e[4],) if len(e) > 4 else ()))
            else:
                flush()
                res.append(tuple(e))
        flush()
        return res

    a = canon(expected)
    b = canon(got)
    known = []
    for i, (x, y) in enumerate(zip(a, b)):
        if x[0] == "rocc" and y[0] == "rocc":
            meta = x[4] if len(x) > 4 else (True, True, True)
            if x[:4] == y[:4]:
                continue
            g1, g2, has_in = meta
            # the half this setup does not configure, no input state, lowering used the documented default 0
            ok1 = x[2] == y[2] or (not g1 and not has_in and y[2] == 0)
            ok2 = x[3] == y[3] or (not g2 and not has_in and y[3] == 0)
            if x[1] == y[1] and ok1 and ok2:
                known.append((SIG_ROCC_DEFAULT0, dict(index=i, expected=repr(x[:4]), lowered=repr(y))))
                continue
            return dict(index=i, expected=repr(x[:4]), lowered=repr(y)), known
        if x != y:
            return dict(index=i, expected=repr(x), lowered=repr(y)), known
    if len(a) != len(b):
        longer = a if len(a) > len(b) else b
        return dict(index=min(len(a), len(b)), expected_len=len(a), lowered_len=len(b), first_extra=repr(longer[min(len(a), len(b))]),
                    side="expected" if len(a) > len(b) else "lowered"), known
    return None, known


def _barrier_kind(acc):
    from snaxc.accelerators.snax import SNAXPollingBarrier

    return 1 if isinstance(acc, SNAXPollingBarrier) else 3


def prop_lowering(r):
    names, _tys = TARGETS[r["target"]]
    ctx = shared_ctx()
    # the accelerator description of this module: the registered default, or (acc_cfg) another configuration under the same name
    # (other numbers of streamers / dims / options, other gemmx array sizes): the lowering has to use the register map the module declares
    acc_objs = {n: (build_accelerator(r["acc_cfg"][n]) if (r.get("acc_cfg") or {}).get(n) else ctx.get_acc(n)) for n in names}
    accs = []
    for n in names:
        if (r.get("acc_cfg") or {}).get(n):
            op_ = acc_objs[n].generate_acc_op()
            f, lf = list(op_.field_names()), list(op_.launch_field_names())
        else:
            f, lf = acc_info(n)
        accs.append([n, f, lf])
    rr = dict(r, accs=accs)
    built = G.build(rr)
    mod = parse(built.text, shared_ctx())
    from snaxc.accelerators.rocc import RoCCAccelerator

    acc_ops = {}
    first = mod.body.block.first_op
    for n in names:
        acc = acc_objs[n]
        aop = acc.generate_acc_op()
        mod.body.block.insert_op_before(aop, first)
        acc_ops[n] = (aop, isinstance(acc, RoCCAccelerator), _barrier_kind(acc))
    mod.verify()
    try:
        with time_limit(10), contextlib.redirect_stderr(io.StringIO()):
            run_pass(mod, "accfg-trace-states")
            if r.get("dedup", True):
                run_pass(mod, "accfg-dedup")
            if r.get("overlap", False):
                run_pass(mod, "accfg-config-overlap")
            mod.verify()
    except PassTimeout:
        raise Reject("preparation passes did not terminate within 10 s")
    except Exception as e:
        raise Reject(f"preparation passes raised {type(e).__name__}: {str(e)[:60]}")
    if dominance_errors(mod):
        raise Reject("preparation passes produced a use before def")
    # keep handles for the expectation: the accelerator ops of the *input* module
    acc_ops_in = {}
    for op in mod.body.block.ops:
        if op.name == "accfg.accelerator":
            n = op.name_prop.string_value()
            acc_ops_in[n] = (op.clone(), acc_ops[n][1], acc_ops[n][2])
    low = mod.clone()
    try:
        with time_limit(10):
            run_pass(low, "convert-accfg-to-csr")
            low.verify()
    except PassTimeout:
        raise Reject("convert-accfg-to-csr did not terminate within 10 s")
    except Exception as e:
        import traceback

        tb = traceback.extract_tb(e.__traceback__)
        inner = tb[-1] if tb else None
        if (isinstance(e, KeyError) and inner is not None and inner.name == "create_pairs" and inner.filename.endswith("rocc.py")
                and str(e).strip("'\"").endswith((".rs1", ".rs2"))):
            # narrow: the RoCC lowering looked up the partner half of an instruction in the inferred previous state and it is not there
            raise Violation(SIG_ROCC_PARTNER, dict(error=str(e)[:300], before=to_text(mod)))
        raise Violation(f"lowering:raises:{type(e).__name__}", dict(error=str(e)[:300], before=to_text(mod)))
    # no state-tracking values survive
    leftovers = []
    for op in low.walk():
        if op.name.startswith("accfg."):
            leftovers.append(op.name)
        for v in list(op.results) + list(op.operands):
            if v.type.name in ("accfg.state", "accfg.token"):
                leftovers.append(f"{op.name}:{v.type.name}")
        for reg in op.regions:
            for blk in reg.blocks:
                for a in blk.args:
                    if a.type.name in ("accfg.state", "accfg.token"):
                        leftovers.append(f"{op.name}:blockarg:{a.type.name}")
    if leftovers:
        raise Violation("lowering:state-or-accfg-op-survives", dict(leftovers=leftovers[:5], after=to_text(low)))
    dom = dominance_errors(low)
    if dom:
        raise Violation("lowering:use-before-def-after-pass", dict(errors=dom[:3], after=to_text(low)))

    field_addrs = set()
    for n, (aop, is_rocc, _) in acc_ops_in.items():
        if not is_rocc:
            field_addrs.update(a.value.data for _, a in aop.field_items())
    crossing = any(
        (op.name in ("scf.for", "scf.if") and any(res.type.name == "accfg.state" for res in op.results)) for op in mod.walk())
    partial = False
    for op in mod.walk():
        if op.name == "accfg.setup":
            nf = len(acc_info(op.accelerator.data)[0])
            if 0 < len(op.values) < nf:
                partial = True
    n_exec = 0
    half_pair = False
    known_hits: list = []
    for k in range(3):
        args, trips = G.input_vector(rr, built, k)
        try:
            m0 = FieldMachine()
            execute(mod, args, machine=m0)
        except StepBudget:
            continue
        except UseBeforeDef:
            raise Reject("input program uses a value before its definition")
        m1 = AddrMachine()
        try:
            execute(low, args, machine=m1)
        except StepBudget:
            continue
        except UseBeforeDef as e:
            raise Violation("lowering:use-before-def-at-run-time", dict(error=str(e), after=to_text(low)))
        n_exec += 1
        exp = expected_events(m0.trace, acc_ops_in)
        if any(isinstance(x, Havoc) for e in exp for x in e):
            # an instruction operand the field-level program never determined: nothing to compare against
            raise Outside("expected value is undetermined (register never written before use)")
        mis, kn = compare_addr(exp, m1.trace, field_addrs)
        known_hits.extend(kn[:1])
        if mis is not None:
            kind = "rocc" if r["target"] == "gemmini" else "csr"
            raise Violation(f"lowering:{kind}:event-sequence-differs", dict(mismatch=mis, args=args, arg_names=built.arg_names,
                                                                           before=to_text(mod), after=to_text(low)))
        if r["target"] == "gemmini":
            for e in m0.trace:
                if e[0] == "setup":
                    touched = {n[:-4] for n, _ in e[2]}
                    given = {n for n, _ in e[2]}
                    if any((t + ".rs1" in given) != (t + ".rs2" in given) for t in touched):
                        half_pair = True
    if n_exec == 0:
        raise Outside("all executions exceeded the step budget")
    cls = ["target:" + r["target"], "ty:" + rr.get("ty", "index")] + sorted(built.features & {"loop", "if", "nested", "carried"})
    cls += ["state_crosses_control_flow"] if crossing else []
    cls += ["partial_setup"] if partial else []
    cls += ["partial_unit_in_input"] if "partial_unit" in built.features else []
    cls += ["non-default-accelerator-configuration"] if r.get("acc_cfg") else []
    cls += ["rocc_half_pair"] if half_pair else []
    cls += ["dedup"] if r.get("dedup", True) else ["no_dedup"]
    cls += ["overlap"] if r.get("overlap") else []
    return Info(nontrivial=bool(crossing and partial), classes=tuple(cls), evals=n_exec, known=known_hits[:1],
                sample=dict(before=to_text(mod)[:6000], after=to_text(low)[:6000]))


@st.composite
def lowering_strat(draw, tier):
    target = draw(st.sampled_from(["hwpe", "hwpe", "alu", "gemmx", "gemmini", "gemmini", "hwpe+alu"]))
    names, tys = TARGETS[target]
    acc_cfg = {}
    if target in ("alu", "gemmx") and draw(st.integers(0, 2)) == 0:
        if target == "alu":
            acc_cfg["snax_alu"] = dict(kind="alu", streamers=[draw(_streamer_spec(OPTS_REG, max_t=3)) for _ in range(draw(st.integers(2, 3)))])
        else:
            acc_cfg["snax_gemmx"] = dict(kind="gemmx", streamers=[draw(_streamer_spec(OPTS_REG, max_t=3)) for _ in range(5)],
                                         m=draw(st.sampled_from([4, 8, 16])), n=draw(st.sampled_from([4, 6, 8, 16])), k=draw(st.sampled_from([4, 8])))
    fields = []
    for n in names:
        if n in acc_cfg:
            fields.append((n, list(build_accelerator(acc_cfg[n]).generate_acc_op().field_names())))
        else:
            fields.append((n, acc_info(n)[0]))
    r = draw(G.program(tier, max_accs=len(names), fields=fields))
    if acc_cfg:
        r["acc_cfg"] = acc_cfg
    # program() may have drawn fewer accelerators than the target names; keep consistent
    r["target"] = target if len(r["accs"]) == len(names) else {"hwpe+alu": "hwpe"}.get(target, target)
    r["ty"] = draw(st.sampled_from(tys))
    r["dedup"] = draw(st.sampled_from([True, True, True, False]))
    r["overlap"] = draw(st.booleans())
    if draw(st.integers(0, 3)) == 0:
        # hand-written style: some units configure only a subset of the fields, in another order than declared
        def deco(body):
            for s in body:
                if s[0] == "unit" and draw(st.booleans()):
                    s.append([draw(st.integers(0, 11)), draw(st.integers(0, 7))])
                elif s[0] == "for":
                    deco(s[2])
                elif s[0] == "if":
                    deco(s[2])
                    deco(s[3])
        deco(r["body"])
    del r["accs"]  # rebuilt from the registry in prop (real field names)
    return r


# ---------------------------------------------------------------------------------------------------- (a) register maps

def _opts_reg():
    from snaxc.accelerators.streamers.extensions import TransposeExtension
    from snaxc.accelerators.streamers.streamers import HasAddressRemap, HasBroadcast, HasChannelMask

    return [HasAddressRemap().name, HasChannelMask().name, HasBroadcast().name, TransposeExtension().name]


OPTS_REG = _opts_reg()


def _mk_streamer(spec):
    from snaxc.accelerators.streamers.extensions import STREAMER_OPT_MAP
    from snaxc.accelerators.streamers.streamers import Streamer, StreamerType

    ty, temporal, spatial, opts = spec
    return Streamer(StreamerType.Reader if ty == "r" else StreamerType.Writer, list(temporal), list(spatial),
                    [STREAMER_OPT_MAP[o]() for o in opts])


def _opt_name(o):
    return o


def build_accelerator(r):
    from snaxc.accelerators.streamers.streamers import StreamerConfiguration, StreamerSystemType

    kind = r["kind"]
    if kind == "hwpe":
        from snaxc.accelerators.snax_hwpe_mult import SNAXHWPEMultAccelerator

        return SNAXHWPEMultAccelerator()
    if kind == "gemmini":
        from snaxc.accelerators.gemmini import GemminiAccelerator

        return GemminiAccelerator()
    if kind == "alu":
        from snaxc.accelerators.snax_alu import SNAXAluAccelerator

        if r.get("default"):
            return SNAXAluAccelerator()
        return SNAXAluAccelerator(StreamerConfiguration([_mk_streamer(s) for s in r["streamers"]]))
    if kind == "gemmx":
        from snaxc.accelerators.snax_gemmx import SNAXGEMMXAccelerator

        if r.get("default"):
            return SNAXGEMMXAccelerator()
        return SNAXGEMMXAccelerator(StreamerConfiguration([_mk_streamer(s) for s in r["streamers"]]), r["m"], r["n"], r["k"])
    if kind == "gemmx_cfg":
        from snaxc.accelerators.snax_gemmx import SNAXGEMMXAccelerator
        from snaxc.tools.configs import GemmxConfig, StreamerConfig

        cfg = GemmxConfig(m=r["m"], n=r["n"], k=r["k"], streamers=[StreamerConfig(t, list(s)) for t, s in r["cfg_streamers"]])
        return SNAXGEMMXAccelerator.from_config(cfg)
    if kind == "xdma":
        from snaxc.accelerators.snax_xdma import SNAXXDMAAccelerator

        if r.get("default"):
            return SNAXXDMAAccelerator()
        return SNAXXDMAAccelerator(StreamerConfiguration([_mk_streamer(s) for s in r["streamers"]], StreamerSystemType.DmaExt))
    if kind == "phs":
        from snaxc.accelerators.snax_phs import SNAXPHSAccelerator
        from vlib import gen_c20 as G20

        pe, spec = _phs_pe(r["kernels"])
        return SNAXPHSAccelerator(pe, spec)
    raise AssertionError(kind)


def _phs_pe(kernel_idx):
    """A merged PE built with the real encode/combine API from kernels of C20's alphabet (what matters here is the switch count)."""
    from xdsl.dialects import linalg
    from xdsl.ir.affine import AffineMap
    from xdsl.pattern_rewriter import PatternRewriter

    from snaxc.phs.combine import append_to_abstract_graph
    from snaxc.phs.encode import convert_generic_body_to_phs
    from snaxc.phs.template_spec import TemplateSpec
    from vlib import gen_c20 as G20

    rec = dict(ty="i32", k=2, kernels=[G20.ALPHABET[i % len(G20.ALPHABET)] for i in kernel_idx])
    mod = parse(G20.history_text(rec), shared_ctx())
    abstract = None
    for g in [o for o in mod.walk() if isinstance(o, linalg.GenericOp)]:
        pe = convert_generic_body_to_phs(g, "acc", PatternRewriter(g))
        if abstract is None:
            abstract = pe
        else:
            append_to_abstract_graph(pe, abstract)
    spec = TemplateSpec(input_maps=(AffineMap.from_callable(lambda y: (y,)), AffineMap.from_callable(lambda y: (y,))),
                        output_maps=(AffineMap.from_callable(lambda y: (y,)),), template_bounds=(4,))
    return abstract, spec


def prop_regmap(r):
    try:
        acc = build_accelerator(r)
    except AssertionError as e:
        if "only supports" in str(e):
            raise Reject("constructor refuses this configuration: " + str(e)[:60])
        raise Violation("regmap:constructor-raises:AssertionError", dict(error=str(e)[:200]))
    except Exception as e:
        raise Violation(f"regmap:constructor-raises:{type(e).__name__}", dict(error=str(e)[:200]))
    try:
        aop = acc.generate_acc_op()
        aop.verify()
    except Exception as e:
        raise Violation(f"regmap:generate_acc_op-raises:{type(e).__name__}", dict(error=str(e)[:200]))
    from snaxc.accelerators.rocc import RoCCAccelerator

    fields = list(aop.field_names())
    lfields = list(aop.launch_field_names())
    decl_f = list(acc.fields.keys()) if isinstance(acc.fields, dict) else list(acc.fields)
    decl_l = list(acc.launch_fields.keys()) if isinstance(acc.launch_fields, dict) else list(acc.launch_fields)
    if fields != decl_f:
        raise Violation("regmap:setup-field-names-differ-from-declared-fields",
                        dict(op=fields[:80], declared=decl_f[:80]))
    if lfields != decl_l:
        raise Violation("regmap:launch-field-names-differ-from-declared-launch-fields", dict(op=lfields, declared=decl_l))
    if len(set(decl_f)) != len(decl_f) or len(set(decl_l)) != len(decl_l):
        raise Violation("regmap:duplicate-field-name", dict(fields=decl_f, launch=decl_l))
    if isinstance(acc, RoCCAccelerator):
        items = list(aop.field_items()) + list(aop.launch_field_items())
        by_inst: dict = {}
        for n, a in items:
            if not (n.endswith(".rs1") or n.endswith(".rs2")):
                raise Violation("regmap:rocc-field-is-not-an-rs1-rs2-half", dict(name=n))
            by_inst.setdefault(n[:-4], {})[n[-3:]] = a.value.data
        f7s = []
        for inst, halves in by_inst.items():
            if set(halves) != {"rs1", "rs2"} or halves["rs1"] != halves["rs2"]:
                raise Violation("regmap:rocc-pair-does-not-share-one-funct7", dict(instruction=inst, halves=halves))
            f7s.append(halves["rs1"])
        if len(set(f7s)) != len(f7s):
            raise Violation("regmap:rocc-instructions-share-a-funct7", dict(funct7=f7s))
        return Info(nontrivial=False, classes=("kind:" + r["kind"],))
    addr = {}
    for n, a in itertools.chain(aop.field_items(), aop.launch_field_items()):
        addr.setdefault(a.value.data, []).append(n)
    addr.setdefault(aop.barrier.value.data, []).append("<barrier>")
    # reserved slots
    from snaxc.accelerators.snax import SNAXStreamer
    from snaxc.accelerators.streamers.streamers import StreamerSystemType

    if isinstance(acc, SNAXStreamer):
        la = dict((n, a.value.data) for n, a in aop.launch_field_items())
        if acc.streamer_config.data.system_type() == StreamerSystemType.Regular:
            if "launch_streamer" in la:
                addr.setdefault(la["launch_streamer"] + 1, []).append("<streamer busy>")
                addr.setdefault(la["launch_streamer"] + 2, []).append("<streamer perf counter>")
        else:
            base = min(a.value.data for _, a in aop.field_items())
            nptr = 2 + 2 * acc.max_multicast_dest
            for i, (n, a) in enumerate(aop.field_items()):
                if i >= 4 and a.value.data < base + nptr:
                    raise Violation("regmap:xdma-field-inside-multicast-pointer-window", dict(field=n, addr=a.value.data))
    clash = {a: ns for a, ns in addr.items() if len(ns) > 1}
    if clash:
        raise Violation("regmap:two-registers-share-an-address", dict(clash={str(k): v for k, v in list(clash.items())[:4]}))
    if any(a < 0 or a >= 4096 for a in addr):
        # csrw takes a 12 bit immediate ("I" constraint in the emitted inline asm)
        cls_extra = ("address_beyond_12_bits",)
    else:
        cls_extra = ()
    cls = ("kind:" + r["kind"],) + cls_extra + (("nfields:%d" % (len(fields) // 10 * 10)),)
    return Info(nontrivial=not r.get("default", False) and r["kind"] not in ("hwpe",), classes=cls)


@st.composite
def _streamer_spec(draw, opts_pool, max_t=6):
    ty = draw(st.sampled_from(["r", "w"]))
    nt = draw(st.integers(1, max_t))
    temporal = [draw(st.sampled_from(["n", "n", "n", "i", "r"])) for _ in range(nt)]
    spatial = [draw(st.sampled_from([1, 2, 4, 8, 16])) for _ in range(draw(st.integers(1, 2)))]
    opts = [o for o in opts_pool if draw(st.booleans())]
    return [ty, temporal, spatial, opts]


XDMA_OPTS_R = ["maxpool_ext", "add_ext", "add_long_ext", "rescale_down_ext", "rescale_up_ext", "c", "bm", "memset_ext", "transpose"]


def _xdma_opt_names():
    from snaxc.accelerators.streamers.extensions import STREAMER_OPT_MAP

    return [n for n in STREAMER_OPT_MAP if n not in ("a", "b")]


@st.composite
def regmap_strat(draw, tier):
    kind = draw(st.sampled_from(["alu", "alu", "gemmx", "gemmx_cfg", "xdma", "xdma", "phs", "hwpe", "gemmini"]))
    if kind in ("hwpe", "gemmini"):
        return dict(kind=kind)
    if draw(st.integers(0, 19)) == 0 and kind in ("alu", "gemmx", "xdma"):
        return dict(kind=kind, default=True)
    if kind == "alu":
        ns = draw(st.integers(1, 4))
        return dict(kind=kind, streamers=[draw(_streamer_spec(OPTS_REG)) for _ in range(ns)])
    if kind == "gemmx":
        return dict(kind=kind, streamers=[draw(_streamer_spec(OPTS_REG, max_t=4)) for _ in range(5)],
                    m=draw(st.sampled_from([1, 2, 4, 8, 16])), n=draw(st.sampled_from([1, 2, 4, 8, 16])),
                    k=draw(st.sampled_from([1, 2, 4, 8, 16])))
    if kind == "gemmx_cfg":
        return dict(kind=kind, m=draw(st.sampled_from([1, 2, 4, 8, 16])), n=draw(st.sampled_from([1, 2, 4, 8, 16])),
                    k=draw(st.sampled_from([1, 2, 4, 8, 16])),
                    cfg_streamers=[[draw(st.integers(1, 6)), [draw(st.sampled_from([1, 2, 4, 8])) for _ in range(draw(st.integers(1, 2)))]]
                                   for _ in range(5)])
    if kind == "xdma":
        names = _xdma_opt_names()
        return dict(kind=kind, streamers=[draw(_streamer_spec(names, max_t=6)) for _ in range(2)])
    # phs: a PE built from a small merge history (switch count is what matters)
    nk = draw(st.integers(1, 4))
    kernels = [draw(st.integers(0, 7)) for _ in range(nk)]
    return dict(kind="phs", kernels=kernels)


def regmap_exhaustive(tier):
    """alu with 1..2 streamers x temporal dims 1..6 (all-normal flags) x spatial dims 1..2 x every option subset (both tiers);
    gemmx m,n,k grid; xdma every option subset on reader and writer (thorough)."""
    for ns in (1, 2, 3):
        for nt in range(1, 7):
            for nsp in (1, 2):
                for mask in range(16):
                    opts = [o for i, o in enumerate(OPTS_REG) if mask >> i & 1]
                    yield dict(kind="alu", streamers=[["r" if i < ns - 1 or ns == 1 else "w", ["n"] * nt, [4] * nsp, opts] for i in range(ns)])
    for m in (1, 2, 4, 8, 16):
        for n in (1, 2, 3, 4, 5, 8, 16):
            for k in (1, 8):
                yield dict(kind="gemmx_cfg", m=m, n=n, k=k, cfg_streamers=[[3, [8]], [3, [8]], [3, [8, 8]], [3, [8, 4]], [3, [8, 4]]])
    if tier == "thorough":
        names = _xdma_opt_names()
        for mask_r in range(1 << len(names)):
            for mask_w in (0, (1 << len(names)) - 1, mask_r ^ 0x155):
                yield dict(kind="xdma", streamers=[["r", ["n"] * 5, [8], [o for i, o in enumerate(names) if mask_r >> i & 1]],
                                                  ["w", ["n"] * 5, [8], [o for i, o in enumerate(names) if (mask_w & ((1 << len(names)) - 1)) >> i & 1]]])


SUBS = [
    Sub("lowering", lambda tier: lowering_strat(tier), prop_lowering, budget=dict(quick=2500, thorough=50000),
        floor=dict(quick=100, thorough=2000),
        nontrivial_rule="the input program has a state value crossing a loop or if boundary and at least one partial setup"),
    Sub("regmap", lambda tier: regmap_strat(tier), prop_regmap, budget=dict(quick=2000, thorough=30000),
        floor=dict(quick=300, thorough=5000), nontrivial_rule="not a default configuration"),
    Sub("regmap_enumerated", None, prop_regmap, budget=dict(quick=0, thorough=0), exhaustive=regmap_exhaustive, exhaustive_only=True,
        nontrivial_rule="complete enumeration of the alu option/dimension grid and the gemmx m,n,k grid (xdma option subsets in thorough)"),
]
