"""C17 Loop restructuring preserves the executed operation sequence.

Passes under test: pipeline-canonicalize-for (ChangeForStep, MergeForLoops) and reuse-memref-allocs
(LoopHoistPureOperations, MoveMemrefDims), separately and in pipeline order (snaxc_main: reuse-memref-allocs runs first).
Every stage is checked on its own input: module before the pass vs module after it, executed on the same inputs.

Violations are named by the stage, the structural feature of the stage's input that the mismatch depends on (features(),
reuse_features()) and the kind of mismatch, so that each reported finding has a narrow signature and any other break keeps
its generic name ("canon-for:trace:<kind>", "reuse-allocs:trace:<kind>", "...:invalid-ir:<how>"). All distinct mismatches of a
case are classified; the runner raises the first one that is not listed as known.
"""
from __future__ import annotations

import itertools

from hypothesis import strategies as st
from xdsl.dialects import affine, arith, memref, scf
from xdsl.dialects.builtin import DYNAMIC_INDEX, IndexType, IntegerAttr
from xdsl.ir import BlockArgument, OpResult
from xdsl.traits import is_side_effect_free
from xdsl.transforms.dead_code_elimination import dce

from vlib import gen_c17 as G
from vlib.ctx import PassTimeout, parse, run_pass, shared_ctx, time_limit, to_text
from vlib.interp import InterpError, StepBudget, UseBeforeDef, dominance_errors
from vlib.machine_c17 import compare_all, run, same_sequence
from vlib.runner import Info, Outside, Reject, Sub, Violation

ID = "C17"
CANON = "pipeline-canonicalize-for"
REUSE = "reuse-memref-allocs"
RULE = (
    "Recipes are functions with loop nests up to depth 3 (scf.for with lb/ub/step each a constant, a function argument or any visible "
    "index value; ub not a multiple of step, zero-trip and negative bounds, lb != 0, index and memref iter_args, scf.if). Bodies mix, in any "
    "position relative to inner loops: tagged side-effecting ops on index values (test.op, calls to body-less functions, test.op with "
    "an opaque index result), pure arith on loop variables, inline constants, memref.alloc with static / loop-invariant / loop-variant "
    "sizes, memref.subview with static/dynamic offsets and sizes, memref.dim of arguments/allocs/subviews, affine.min tile sizes, and "
    "tagged ops consuming memrefs. For reuse-memref-allocs also size chains (about a third of the cases): a leaf size (memref.dim of another "
    "memref, affine.min, in-loop constant, any index) becomes a dynamic size of a subview at position I, memref.dim reads it back (I != the "
    "leaf's dimension index where the ranks allow), optionally through one or two more subview/dim links, and sizes an alloc; inner dims with "
    "and without a tagged user, the consumer optionally in a further loop, the other subview sizes arbitrary (static/dynamic mix). "
    "1..3 memref arguments of rank 1..3; static extents differ per (argument, dimension). "
    "Each recipe carries 2 input vectors (index arguments, memref argument shapes with pairwise different extents, dynamic bounds). "
    "The real pass(es) run in-process; the module before and after each pass is executed by vlib/interp.py on a machine that records "
    "every tagged op with its evaluated operands (memrefs as root buffer + root shape + offsets + sizes). Oracle: identical event "
    "sequence and index operands; memref operands are the same view of a same-sized buffer, function arguments stay themselves, one "
    "original allocation never becomes two, and two original allocations share a transformed one only if their uses do not interleave. "
    "For reuse-memref-allocs a memref dimension may instead equal what the original computes with its affine.min ops forced to their "
    "constant bound (the documented 'maximum possible value'); index operands, offsets and the event sequence get no such allowance. "
    "IR that does not verify or violates SSA dominance after a pass returned normally is a violation; an exception raised by a pass is a rejection. "
    "Plus two exhaustive grids for pipeline-canonicalize-for: single loops lb in {-2..2} x ub -2..12 x step 1..5 (and a run-time ub), and nests "
    "(2 levels ub -2..4 x steps 1..2 x marker before/after the inner loop; sibling inner loops with a marker between; 3 levels with a marker at the middle level). "
    "Non-trivial: the pass changed the (op, loop depth) profile (structure changed or an op moved/was replaced) and some loop body ran >= 2 times; distinct by recipe hash."
)
ASSUMPTIONS = [
    "xDSL 0.70 compatibility shim (vlib/compat.py)",
    "interpreter vlib/interp.py (arith/scf/func; signed scf.for semantics, 64-bit index) and vlib/machine_c17.py (symbolic memref "
    "descriptors, affine.min evaluated from its map, unregistered ops and calls to body-less functions are ordered side effects) are the reference semantics",
    "memref.alloc is the one effect allowed to change count/position; it is observed through the uses of the buffer only",
    "an exception raised by a pass is counted as a rejection (the property is about results); IR that fails verify()/SSA dominance after a pass returned normally is a violation",
]


# --------------------------------------------------------------------------------------- structural features

def const_of(v):
    if not isinstance(v, OpResult) or not isinstance(v.op, arith.ConstantOp):
        return None
    a = v.op.value
    if not isinstance(a, IntegerAttr) or not isinstance(a.type, IndexType):
        return None
    return a.value.data


def _loop(f):
    lb, ub, stp = const_of(f.lb), const_of(f.ub), const_of(f.step)
    cst = lb is not None and ub is not None and stp is not None
    it = len(f.iter_args) > 0
    return dict(cst=cst, lb=lb, ub=ub, step=stp, iter=it,
                change=cst and lb == 0 and stp != 1 and not it,
                norm=cst and lb == 0 and (stp == 1 or not it))


def features(mod):
    """What pipeline-canonicalize-for will meet in `mod` (used for classes and to name violations)."""
    f = set()
    for op in mod.walk():
        if not isinstance(op, scf.ForOp):
            continue
        li = _loop(op)
        if li["iter"]:
            f.add("iter-args")
        if li["cst"]:
            f.add("const-bounds")
            if li["lb"] != 0:
                f.add("lb-nonzero")
            if li["ub"] <= li["lb"]:
                f.add("const-zero-trip")
        else:
            f.add("non-const-bounds")
        if li["change"]:
            f.add("step-change")
            if li["ub"] > 0 and li["ub"] % li["step"] != 0:
                f.add("nondiv")
        p = op.parent_op()
        if isinstance(p, scf.ForOp):
            f.add("nested")
            lp = _loop(p)
            if li["norm"] and lp["norm"]:
                f.add("merge-pair")
                if li["iter"] or lp["iter"]:
                    f.add("merge-iter-args")
                others = [o for o in p.body.block.ops if o is not op and not isinstance(o, scf.YieldOp) and not is_side_effect_free(o)]
                if others:
                    f.add("imperfect")
                else:
                    f.add("perfect")
                # chain of loops that will all be merged into one: two negative upper bounds multiply to a positive trip count
                neg, q, lq = int(li["ub"] < 0), p, lp
                while True:
                    neg += int(lq["ub"] < 0)
                    qq = q.parent_op()
                    if not isinstance(qq, scf.ForOp):
                        break
                    lqq = _loop(qq)
                    if not (lq["norm"] and lqq["norm"]):
                        break
                    q, lq = qq, lqq
                if neg >= 2:
                    f.add("negative-ubs-in-merge-chain")
    return f


def _nearest_for(op):
    p = op.parent_op()
    while p is not None and not isinstance(p, scf.ForOp):
        p = p.parent_op()
    return p


def _dim_target(dim_op):
    """The op whose value MoveMemrefDims substitutes for `dim_op` when it looks through subview sizes
    (same walk as get_new_dim_op, read-only), as (kind, op) or None."""
    d = dim_op
    for _ in range(8):
        idx = const_of(d.index)
        if idx is None or isinstance(d.source, BlockArgument):
            return None
        o = d.source.owner
        if not isinstance(o, memref.SubviewOp):
            return None
        ss = o.static_sizes.get_values()
        if idx >= len(ss) or ss[idx] != DYNAMIC_INDEX:
            return None
        so = o.sizes[sum(1 for i in range(idx) if ss[i] == DYNAMIC_INDEX)].owner
        if isinstance(so, arith.ConstantOp):
            return ("const", so)
        if isinstance(so, affine.MinOp):
            return ("amin", so)
        if isinstance(so, memref.DimOp):
            if _nearest_for(so) is not _nearest_for(dim_op):
                return ("dim", so)
            d = so
            continue
        return None
    return None


def reuse_features(mod):
    """Structural features of `mod` that name known weak spots of reuse-memref-allocs."""
    f = set()
    for op in mod.walk():
        if isinstance(op, memref.DimOp):
            src = op.source
            if isinstance(src, BlockArgument) and src.index >= 1 and isinstance(src.block.parent_op(), scf.ForOp):
                f.add("dim-of-loop-carried-memref")
            loop = _nearest_for(op)
            if loop is None:
                continue
            t = _dim_target(op)
            if t is not None and not loop.is_ancestor(t[1]):
                if t[0] == "amin":
                    f.add("amin-outside-dim-loop")
                elif _nearest_for(t[1]) is not None:
                    f.add("dim-size-defined-in-enclosing-loop")
    # a buffer allocated inside a loop that reaches an scf.yield of an scf.for (directly, through a subview, or through the
    # iter_args / results of other loops) is handed to a later iteration
    flow = set()
    for op in mod.walk():
        if isinstance(op, memref.AllocOp) and _nearest_for(op) is not None:
            flow.add(op.results[0])
    changed = bool(flow)
    while changed:
        changed = False
        for op in mod.walk():
            new = []
            if isinstance(op, memref.SubviewOp) and op.source in flow:
                new.append(op.results[0])
            elif isinstance(op, scf.ForOp):
                for k, init in enumerate(op.iter_args):
                    if init in flow:
                        new.append(op.body.block.args[k + 1])
            elif isinstance(op, scf.YieldOp) and isinstance(op.parent_op(), scf.ForOp):
                for k, v in enumerate(op.operands):
                    if v in flow:
                        f.add("alloc-carried-to-next-iteration")
                        new.append(op.parent_op().results[k])
                        new.append(op.parent_op().body.block.args[k + 1])
            for v in new:
                if v not in flow:
                    flow.add(v)
                    changed = True
    return f


def profile(mod):
    """(op name, number of enclosing scf.for) multiset: tells whether a pass changed the structure or moved an op."""
    out: dict = {}
    mod = mod.clone()
    dce(mod)  # the rewrite driver of xDSL removes trivially dead ops on its own; that is not a change made by the pass
    for op in mod.walk():
        n = op.name
        if n in ("builtin.module", "func.func", "func.return", "scf.yield"):
            continue
        d = 0
        p = op.parent_op()
        while p is not None:
            if p.name == "scf.for":
                d += 1
            p = p.parent_op()
        out.setdefault(n, []).append(d)
    return {k: sorted(v) for k, v in out.items()}


def amin_uses(mod):
    out = {}
    for op in mod.walk():
        if op.name == "affine.min" and "tag" in op.attributes:
            out[op.attributes["tag"].value.data] = any(True for _ in op.results[0].uses)
    return out


def _changes(p0, p1, pname):
    cls = []
    if p0 == p1:
        return cls
    if len(p1.get("scf.for", [])) < len(p0.get("scf.for", [])):
        cls.append("merge" if pname == CANON else "loop-became-dead")
    if pname == CANON:
        if not cls or len(p1.get("arith.muli", [])) > len(p0.get("arith.muli", [])):
            cls.append("step-change")
        return cls
    if p0.get("memref.alloc") != p1.get("memref.alloc"):
        cls.append("hoist-alloc")
    if p0.get("memref.dim") != p1.get("memref.dim"):
        cls.append("hoist-dim" if len(p0.get("memref.dim", [])) == len(p1.get("memref.dim", [])) else "dim-resolved")
    if pname == REUSE and any(k.startswith("arith.") and p0.get(k) != p1.get(k) for k in set(p0) | set(p1)):
        cls.append("hoist-pure")
    return cls or ["other-change"]


# --------------------------------------------------------------------------------------- signatures

BOUND_KINDS = ("index-operand-is-bound-value", "view-offset-is-bound-value", "event-sequence-follows-bound")


def sig_trace(pname, feats, mis):
    if pname == CANON:
        # the imperfect-nest merge is a known finding that stays (upstream's lit test expects it): it takes precedence, so that the
        # repaired defects below are reported under their own signature only in programs that do not also merge an imperfect nest
        if "imperfect" in feats:
            return "canon-for:merge:imperfect-nest:trace-differs"
        if "nondiv" in feats:
            return "canon-for:change-step:ub-not-multiple-of-step:trace-differs"
        if "negative-ubs-in-merge-chain" in feats:
            return "canon-for:merge:negative-upper-bounds:trace-differs"
        return "canon-for:trace:" + mis["kind"]
    if mis["kind"] in BOUND_KINDS:
        return "reuse-allocs:affine-min-replaced-by-bound:tagged-op-observes-the-bound"
    if mis["kind"] == "buffer-shared-while-both-live" and "alloc-carried-to-next-iteration" in feats:
        return "reuse-allocs:alloc-carried-to-next-iteration:hoisted:buffers-shared-while-both-live"
    return "reuse-allocs:trace:" + mis["kind"]


def sig_invalid(pname, feats, what):
    if pname == CANON:
        if "merge-iter-args" in feats:
            return "canon-for:merge:loop-carried-values:invalid-ir"
        return "canon-for:invalid-ir:" + what
    if "dim-of-loop-carried-memref" in feats:
        return "reuse-allocs:dim-of-loop-carried-memref:hoisted-above-loop:invalid-ir"
    if "dim-size-defined-in-enclosing-loop" in feats:
        return "reuse-allocs:dim-size-defined-in-enclosing-loop:moved-below-its-uses:invalid-ir"
    if "amin-outside-dim-loop" in feats:
        return "reuse-allocs:affine-min-outside-dim-loop:bound-defined-below-its-uses:invalid-ir"
    return "reuse-allocs:invalid-ir:" + what


DOCUMENTED_REFUSALS = ("no constant value found",)


# --------------------------------------------------------------------------------------- the property

def _run(mod, vec, force=frozenset()):
    try:
        return run(mod, vec, force)
    except StepBudget:
        return None


def prop(r):
    built = G.build(r)
    cur = parse(built.text, shared_ctx())
    cur.verify()
    pre = dominance_errors(cur)
    if pre:
        raise RuntimeError(f"generator produced IR violating dominance: {pre[:2]}\n{built.text}")
    vectors = [G.input_vector(r, built, k) for k in range(len(r["inputs"]))]
    try:
        cur_runs = [_run(cur, v) for v in vectors]
    except InterpError as e:
        raise Outside(f"original program faults: {str(e)[:60]}")
    if all(m is None for m in cur_runs):
        raise Outside("all executions exceeded the step budget")
    multi = any(m is not None and any(c >= 2 for c in m.iters.values()) for m in cur_runs)
    zero = any(m is not None and len(m.trace) == 0 for m in cur_runs)
    classes = set(built.features)
    changed_any = False
    n_exec = 0
    last = None
    for pname in r["passes"]:
        short = "canon" if pname == CANON else "reuse"
        feats = features(cur)
        if pname == REUSE:
            feats |= reuse_features(cur)
        classes.update(f"{short}:{x}" for x in feats)
        new = cur.clone()
        try:
            with time_limit(10):
                run_pass(new, pname)
        except PassTimeout:
            raise Reject(f"{short}: pass did not terminate within 10 s")
        except Exception as e:  # the pass produced nothing (DESIGN 3.5): counted, not a statement about executions
            msg = str(e).strip().splitlines()[-1][:70] if str(e).strip() else ""
            if any(d in str(e) for d in DOCUMENTED_REFUSALS):
                raise Reject(f"{short}: documented refusal: {msg}")
            tagf = "+iter-args" if "merge-iter-args" in feats else ""
            raise Reject(f"{short}: crash{tagf}: {type(e).__name__}: {msg}")
        def mkdetail(_p=pname, _c=cur, **kw):
            return dict(stage=_p, before=to_text(_c), **kw)

        try:
            new.verify()
        except Exception as e:
            raise Violation(sig_invalid(pname, feats, "verify"), mkdetail(error=str(e).strip().splitlines()[-1][:300]))
        dom = dominance_errors(new)
        if dom:
            raise Violation(sig_invalid(pname, feats, "use-before-def"), mkdetail(errors=dom[:3], after=to_text(new)))
        p0, p1 = profile(cur), profile(new)
        ch = _changes(p0, p1, pname)
        if ch:
            changed_any = True
            classes.update(f"{short}:did:{c}" for c in ch)
        else:
            classes.add(f"{short}:unchanged")
        u0, u1 = amin_uses(cur), amin_uses(new)
        replaced = frozenset(t for t, used in u0.items() if used and not u1.get(t, False))
        if replaced:
            classes.add(f"{short}:did:amin-replaced-by-bound")
        new_runs = []
        hits: list = []
        det_common = None
        for vec, m0 in zip(vectors, cur_runs):
            if m0 is None:
                new_runs.append(None)
                continue
            try:
                m1 = _run(new, vec)
            except UseBeforeDef as e:
                raise Violation(sig_invalid(pname, feats, "use-before-def-at-run-time"), mkdetail(error=str(e), args=vec, after=to_text(new)))
            except InterpError as e:
                raise Violation(f"{'canon-for' if pname == CANON else 'reuse-allocs'}:transformed-program-faults",
                                mkdetail(error=str(e), args=vec, after=to_text(new)))
            new_runs.append(m1)
            if m1 is None:
                continue
            n_exec += 1
            mis = compare_all(m0.trace, m1.trace)
            if not mis:
                continue
            caps = (replaced or frozenset(u0)) if pname == REUSE else frozenset()
            grew = False
            if caps:
                # documented intent of MoveMemrefDims: an affine.min bound may be replaced by its maximum. Second reference:
                # the original program with those affine.min ops evaluating to their constant bound. A memref dimension may be
                # the original one or the one of that reference; nothing else may differ.
                try:
                    mc = _run(cur, vec, caps)
                except InterpError:
                    mc = None
                if mc is not None and same_sequence(m0.trace, m1.trace):
                    mis = compare_all(m0.trace, m1.trace, alt=mc.trace, alt_explains_index=bool(replaced))
                    grew = True
                elif mc is not None and replaced and same_sequence(mc.trace, m1.trace):
                    mis = [dict(kind="event-sequence-follows-bound", original_len=len(m0.trace), transformed_len=len(m1.trace))]
                    mis += compare_all(mc.trace, m1.trace)
            if not mis:
                if grew:
                    classes.add(f"{short}:amin-bound:memref-dims-grew")
                continue
            if det_common is None:
                det_common = mkdetail(after=to_text(new), arg_names=built.arg_names)
            for m in mis:
                sg = sig_trace(pname, feats, m)
                if sg not in [h[0] for h in hits]:
                    hits.append((sg, dict(det_common, args=vec, mismatch=m)))
        if hits:
            # every distinct kind of mismatch of this case, classified; the runner raises the first one that is not a known finding
            return Info(nontrivial=False, classes=(), evals=max(1, n_exec), known=hits)
        cur, cur_runs = new, new_runs
        last = new
    if zero:
        classes.add("some-run-without-events")
    if multi:
        classes.add("loop-ran-twice")
    nt = bool(changed_any and multi)
    return Info(nontrivial=nt, classes=tuple(sorted(classes)), evals=max(1, n_exec),
                sample=dict(before=built.text, after=to_text(last)) if nt and last is not None else None)


# --------------------------------------------------------------------------------------- strategies

def strat(tier, flavour, passes):
    @st.composite
    def s(draw):
        r = draw(G.program(tier, flavour))
        r["passes"] = list(passes)
        return r

    return s()


# --------------------------------------------------------------------------------------- exhaustive grids

def _base(body, passes, inputs=None):
    return dict(nidx=1, mems=[[0]], consts=[0], body=body, inline_idx=False, passes=list(passes),
                inputs=inputs or [dict(a=[3], m=[[4]], loops=[[0, 3, 1]])])


def _for(lb, ub, step, body, carried=()):
    return ["for", dict(lb=lb, ub=ub, step=step), body, list(carried)]


def grid_single(tier):
    """Single loops: lb in {-2..2}, ub -2..12, step 1..5, all constant; plus the same with a run-time ub (pass must not touch it)."""
    for lb, ub, stp in itertools.product((-2, -1, 0, 1, 2), range(-2, 13), range(1, 6)):
        yield _base([_for(["c", lb], ["c", ub], ["c", stp], [["mark", [-1]]])], [CANON])
    for ub, stp in itertools.product(range(13), range(1, 6)):
        yield _base([_for(["c", 0], ["a"], ["c", stp], [["mark", [-1]]])], [CANON],
                    [dict(a=[3], m=[[4]], loops=[[0, ub, stp]])])


def grid_nest(tier):
    """Two-level nests, ub1/ub2 in -2..4 (negative = zero trips), steps 1..2, a marker before and/or after the inner loop; sibling inner
    loops with a marker between; three-level nests with a marker at the middle level."""
    for u1, u2, s1, s2, before, after in itertools.product(range(-2, 5), range(-2, 5), (1, 2), (1, 2), (0, 1), (0, 1)):
        inner = _for(["c", 0], ["c", u2], ["c", s2], [["mark", [-2, -1]]])
        body = ([["mark", [-1]]] if before else []) + [inner] + ([["mark", [-1]]] if after else [])
        yield _base([_for(["c", 0], ["c", u1], ["c", s1], body)], [CANON])
    for u1, u2, u3, between in itertools.product(range(4), range(4), range(4), (0, 1)):
        in1 = _for(["c", 0], ["c", u2], ["c", 1], [["mark", [-2, -1]]])
        in2 = _for(["c", 0], ["c", u3], ["c", 1], [["mark", [-2, -1]]])
        yield _base([_for(["c", 0], ["c", u1], ["c", 1], [in1] + ([["mark", [-1]]] if between else []) + [in2])], [CANON])
    for u1, u2, u3, pos in itertools.product(range(4), range(4), range(4), (0, 1, 2)):
        innermost = _for(["c", 0], ["c", u3], ["c", 1], [["mark", [-3, -2, -1]]])
        mid_body = ([["mark", [-2, -1]]] if pos == 1 else []) + [innermost] + ([["mark", [-2, -1]]] if pos == 2 else [])
        mid = _for(["c", 0], ["c", u2], ["c", 1], mid_body)
        yield _base([_for(["c", 0], ["c", u1], ["c", 1], [mid])], [CANON])


SUBS = [
    Sub("canon-for", lambda tier: strat(tier, "canon", [CANON]), prop, budget=dict(quick=2600, thorough=40000),
        floor=dict(quick=70, thorough=1100),
        nontrivial_rule="pipeline-canonicalize-for changed the (op, loop depth) profile and a loop body ran >= 2 times"),
    Sub("reuse-allocs", lambda tier: strat(tier, "reuse", [REUSE]), prop, budget=dict(quick=2200, thorough=36000),
        floor=dict(quick=180, thorough=3000),
        nontrivial_rule="reuse-memref-allocs moved or replaced an op and a loop body ran >= 2 times"),
    Sub("pipeline-order", lambda tier: strat(tier, "both", [REUSE, CANON]), prop, budget=dict(quick=1400, thorough=24000),
        floor=dict(quick=60, thorough=1200),
        nontrivial_rule="either pass changed the module and a loop body ran >= 2 times"),
    Sub("grid-single-loop", None, prop, budget=dict(quick=0, thorough=0), exhaustive=grid_single, exhaustive_only=True, floor=dict(quick=3, thorough=3),
        nontrivial_rule="step normalisation applied and the loop ran >= 2 times"),
    Sub("grid-nests", None, prop, budget=dict(quick=0, thorough=0), exhaustive=grid_nest, exhaustive_only=True, floor=dict(quick=35, thorough=35),
        nontrivial_rule="loops merged or steps normalised and a loop ran >= 2 times"),
]
