#!/venv/bin/python
"""usage: importseed.py <worktree> <patchdir> <seed id> <caught-by json>
Copies a confirmed seeded change into /verif/seeded/<seed id>/ and records what was run.
<caught-by json>: e.g. '{"C06": "exit=1 overlap:uses-value-not-yet-available", "note": "missed before generator got chain_unit"}'"""
import json, os, shutil, sys
wt, pd, sid, caught = sys.argv[1:5]
src = os.path.join(wt, pd)
dst = os.path.join("/verif/seeded", sid)
os.makedirs(dst, exist_ok=True)
shutil.copy(os.path.join(src, "patch.diff"), os.path.join(dst, "patch.diff"))
shutil.copy(os.path.join(src, "demo.py"), os.path.join(dst, "demo.py"))
meta = json.load(open(os.path.join(src, "meta.json")))
meta["seed_id"] = sid
meta["written_by"] = "independent sub-agent given only the property text and a scratch worktree (nothing from /verif)"
meta["confirmed"] = dict(
    how="devtools/seedcheck.sh in the sub-agent's scratch worktree: clean tree -> demo exit 0; git apply patch.diff -> "
        "pytest '68 passed, 9 errors' (unchanged), demo exit 1; checks run with VERIF_REPO=<patched worktree>, replay tier disabled",
    demo_invocation="cd <worktree> && PYTHONPATH=<worktree> /venv/bin/python demo.py",
)
meta["checks_run"] = json.loads(caught)
json.dump(meta, open(os.path.join(dst, "meta.json"), "w"), indent=1)
print("imported", sid)
