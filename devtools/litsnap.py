"""Snapshot snax-opt output for every upstream lit RUN line (in-process). usage: litsnap.py OUTDIR
Used to compare behaviour on upstream inputs before/after a `fix:` commit."""
import compat, sys, re, io, shlex, glob, os, contextlib, hashlib
from snaxc.tools.snax_opt_main import SNAXOptMain
out_dir = sys.argv[1]
os.makedirs(out_dir, exist_ok=True)
files = sorted(glob.glob('/repo/tests/filecheck/**/*.mlir', recursive=True))
for f in files:
    txt = open(f).read()
    runs = [l for l in txt.splitlines() if l.startswith('// RUN:') or l.startswith('//RUN:')]
    for ri, r in enumerate(runs):
        cmd = r.split('RUN:', 1)[1].strip()
        first = cmd.split('|')[0].strip()
        parts = shlex.split(first)
        if not parts or parts[0] not in ('snax-opt', './snax-opt'):
            continue
        args = [a.replace('%s', f) for a in parts[1:]]
        buf = io.StringIO()
        try:
            with contextlib.redirect_stdout(buf), contextlib.redirect_stderr(io.StringIO()):
                SNAXOptMain(args=args).run()
            res = buf.getvalue()
        except BaseException as e:
            res = f"EXC {type(e).__name__}: {str(e)[:300]}"
        name = os.path.relpath(f, '/repo/tests/filecheck').replace('/', '__') + f".{ri}.out"
        open(os.path.join(out_dir, name), 'w').write(res)
print("done", len(files))
