import compat, sys, re, io, shlex, glob, os, traceback, contextlib
from minifc import filecheck
from snaxc.tools.snax_opt_main import SNAXOptMain
files = sorted(glob.glob('/repo/tests/filecheck/**/*.mlir', recursive=True))
ok=0; bad=[]
for f in files:
    txt=open(f).read()
    runs=[l for l in txt.splitlines() if l.startswith('// RUN:')]
    for r in runs:
        cmd=r[len('// RUN:'):].strip()
        segs=[s.strip() for s in cmd.split('|')]
        first=segs[0]
        parts=shlex.split(first)
        if not parts or parts[0] not in ('snax-opt','XDSL_ROUNDTRIP','XDSL_GENERIC_ROUNDTRIP','./snax-opt'):
            continue
        if parts[0]=='XDSL_ROUNDTRIP': args=[f]
        elif parts[0]=='XDSL_GENERIC_ROUNDTRIP': args=[f,'--print-op-generic']
        else: args=[a.replace('%s',f) for a in parts[1:]]
        if '--verify-diagnostics' in args or '--parsing-diagnostics' in args: continue
        prefix='CHECK'
        fcs=[s for s in segs[1:] if s.startswith('filecheck')]
        if len(segs)>2 and not all(s.startswith('filecheck') for s in segs[1:]):
            bad.append((f,'SKIP-multi',cmd)); continue
        if fcs:
            m=re.search(r'--check-prefix[= ](\S+)', fcs[0])
            if m: prefix=m.group(1)
        out=io.StringIO()
        try:
            with contextlib.redirect_stdout(out), contextlib.redirect_stderr(io.StringIO()):
                SNAXOptMain(args=args).run()
        except BaseException as e:
            bad.append((f,'CRASH',type(e).__name__,str(e)[:100].replace('\n',' '))); continue
        res,msg=filecheck(txt,out.getvalue(),prefix)
        if res: ok+=1
        else: bad.append((f,'FCFAIL',prefix,msg))
print('ok',ok)
for b in bad: print(b)
