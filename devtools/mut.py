#!/venv/bin/python
"""Sensitivity helper: apply one textual mutation in a scratch copy of /repo and run a check against it.
usage: mut.py <ID> <relative file> <old text> <new text> [extra check args]
Prints the check's tail and exit code; removes the scratch copy."""
import os, shutil, subprocess, sys, tempfile
pid, rel, old, new = sys.argv[1:5]
extra = sys.argv[5:]
scratch = tempfile.mkdtemp(prefix="mut_", dir="/var/tmp")
try:
    dst = os.path.join(scratch, "repo")
    shutil.copytree("/repo", dst, ignore=shutil.ignore_patterns(".git", "__pycache__", "*.pyc", ".pixi"))
    p = os.path.join(dst, rel)
    s = open(p).read()
    if s.count(old) < 1:
        print("MUTATION-NOT-APPLICABLE: old text not found"); sys.exit(3)
    open(p, "w").write(s.replace(old, new, 1))
    env = dict(os.environ, VERIF_REPO=dst)
    r = subprocess.run(["/verif/check", pid, "--no-evidence", "--no-replay-write"] + extra, env=env, capture_output=True, text=True)
    out = (r.stdout + r.stderr).strip().splitlines()
    print("\n".join(out[-12:]))
    print(f"MUT-RESULT id={pid} file={rel} exit={r.returncode} old={old!r} new={new!r}")
finally:
    shutil.rmtree(scratch, ignore_errors=True)
