#!/venv/bin/python
"""Regenerate the table of seeded changes in DESIGN.md (between the SEEDTABLE markers) from seeded/*/meta.json."""
import glob
import json
import os
import re

HERE = os.path.dirname(os.path.dirname(os.path.abspath(__file__)))
BEGIN, END = "<!-- SEEDTABLE BEGIN -->", "<!-- SEEDTABLE END -->"


def short(s, n):
    s = " ".join(str(s).split())
    return s if len(s) <= n else s[: n - 1].rstrip() + "…"


def main():
    rows = []
    for d in sorted(glob.glob(os.path.join(HERE, "seeded", "*"))):
        mp = os.path.join(d, "meta.json")
        if not os.path.exists(mp):
            continue
        m = json.load(open(mp))
        runs = m.get("checks_run", {})
        caught = "; ".join(f"{k}: {short(v, 90)}" for k, v in runs.items() if k not in ("history", "note"))
        hist = short(runs.get("history", runs.get("note", "")), 260)
        rows.append((m.get("seed_id", os.path.basename(d)), ", ".join(os.path.basename(f) for f in m.get("files", [])),
                     short(m.get("summary", ""), 240), caught, hist))
    out = [BEGIN, "", "| seed (seeded/<id>/) | file | change | registered checks run against it | history |", "|---|---|---|---|---|"]
    for r in rows:
        out.append("| " + " | ".join(c.replace("|", "\\|") for c in r) + " |")
    out += ["", END]
    p = os.path.join(HERE, "DESIGN.md")
    s = open(p).read()
    if BEGIN in s:
        s = re.sub(re.escape(BEGIN) + ".*?" + re.escape(END), lambda _: "\n".join(out), s, flags=re.S)
    else:
        raise SystemExit("markers not found in DESIGN.md")
    open(p, "w").write(s)
    print(f"{len(rows)} seeds")


if __name__ == "__main__":
    main()
