#!/venv/bin/python
import json,sys
for f in sys.argv[1:]:
    d=json.load(open(f))
    print("==", f, d['signature'])
    print(json.dumps(d['recipe']))
    det=d['detail'] or {}
    if isinstance(det, dict):
        for k,v in det.items():
            if k in ('before','after'): continue
            print(k, ":", v)
        print(det.get('before','')); print(det.get('after',''))
    else:
        print(det)
