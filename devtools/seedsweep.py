#!/venv/bin/python
"""Re-run the registered quick checks against every seeded change under seeded/ (sensitivity regression).
usage: seedsweep.py [seed-id-prefix ...]     (default: all)
For each seed: scratch copy of /repo's HEAD under /var/tmp/seedsweep/<id> (git worktree), `git apply patch.diff`, run
`./check <property> --no-replays --no-evidence --no-replay-write` with VERIF_REPO pointing at it, record the exit code, remove the copy.
Never touches /repo's working tree. Prints one line per seed; exit 1 if a seed is missed."""
import json
import os
import shutil
import subprocess
import sys
from concurrent.futures import ThreadPoolExecutor

HERE = os.path.dirname(os.path.dirname(os.path.abspath(__file__)))
ROOT = "/var/tmp/seedsweep"


def one(sid):
    d = os.path.join(HERE, "seeded", sid)
    meta = json.load(open(os.path.join(d, "meta.json")))
    pid = meta["property"]
    wt = os.path.join(ROOT, sid)
    subprocess.run(["git", "-C", "/repo", "worktree", "remove", "--force", wt], capture_output=True)
    shutil.rmtree(wt, ignore_errors=True)
    r = subprocess.run(["git", "-C", "/repo", "worktree", "add", "-q", "--detach", wt, "HEAD"], capture_output=True, text=True)
    if r.returncode:
        return sid, pid, "worktree-failed", r.stderr.strip()[:200]
    try:
        r = subprocess.run(["git", "-C", wt, "apply", os.path.join(d, "patch.diff")], capture_output=True, text=True)
        if r.returncode:
            r = subprocess.run(["git", "-C", wt, "apply", "-3", os.path.join(d, "patch.diff")], capture_output=True, text=True)
            if r.returncode:
                return sid, pid, "patch-does-not-apply", r.stderr.strip()[:200]
        env = dict(os.environ, VERIF_REPO=wt, VERIF_SEED=os.environ.get("VERIF_SEED", "1"))
        checks = [pid] + [c for c in meta.get("also_checks", [])]
        res = []
        for c in checks:
            p = subprocess.run([os.path.join(HERE, "check"), c, "--no-replays", "--no-evidence", "--no-replay-write"],
                               capture_output=True, text=True, env=env, cwd=HERE, timeout=3000)
            sig = [l.split("violation signature:", 1)[1].strip() for l in p.stdout.splitlines() if "violation signature:" in l][:1]
            res.append(f"{c}: exit={p.returncode} {sig[0] if sig else ''}")
        ok = any("exit=1" in x for x in res)
        return sid, pid, "caught" if ok else "MISSED", "; ".join(res)
    finally:
        subprocess.run(["git", "-C", "/repo", "worktree", "remove", "--force", wt], capture_output=True)
        shutil.rmtree(wt, ignore_errors=True)


def main():
    os.makedirs(ROOT, exist_ok=True)
    sids = sorted(os.listdir(os.path.join(HERE, "seeded")))
    if len(sys.argv) > 1:
        sids = [s for s in sids if any(s.startswith(p) for p in sys.argv[1:])]
    missed = 0
    with ThreadPoolExecutor(max_workers=int(os.environ.get("SWEEP_JOBS", "3"))) as ex:
        for sid, pid, status, detail in ex.map(one, sids):
            print(f"{status:22s} {sid:45s} {detail}", flush=True)
            missed += status != "caught"
    subprocess.run(["git", "-C", "/repo", "worktree", "prune"])
    shutil.rmtree(ROOT, ignore_errors=True)
    sys.exit(1 if missed else 0)


if __name__ == "__main__":
    main()
