#!/venv/bin/python
"""Regenerates /verif/MANIFEST.json from the table below (keeps it valid at all times)."""
import json, os
HERE = os.path.dirname(os.path.dirname(os.path.abspath(__file__)))
props = [json.loads(l) for l in open(os.path.join(HERE, "properties.jsonl"))]

TRUST = ("Trusted base: xDSL 0.70 with the irdl_options shim (vlib/compat.py), the recipe->IR builders, and the oracle "
         "code in props/ and vlib/. Generated-input search never establishes absence.")

# property id -> (technique, level text, level note, design section)
CLAIMED = {
 "C01": ("Hypothesis property-based testing of generated accfg programs; oracle = differential execution (original vs trace-states+dedup) on an abstract CSR machine with havoc on opaque calls",
         "Thousands of generated programs (nested scf.for/scf.if, calls with/without the no-effects annotation, 1-2 accelerators, shared value pools) are run through the real passes and both versions are executed for 3 input vectors each (trip counts 0,1,2,3,5; both branch outcomes); launch/await/call traces and the registers every launch observes must agree. Exploration level: execution-based differential testing reaches what the text-only lit tests cannot, but the program space is unbounded.",
         TRUST + " Interpreter vlib/interp.py and CSRMachine (un-annotated call = all registers unknown).", "4/C01"),
 "C20": ("Hypothesis property-based testing over merge histories (stateful in effect: invariant after every step); oracle = PE interpreter vs kernel body on corner + drawn data vectors, count agreement across APIs; small alphabet enumerated exhaustively",
         "Generated histories of 1..5 (thorough 1..8) kernels are merged with the real encode/combine API; after every merge every kernel merged so far is decoded and the merged PE, configured with the decoded switches, is evaluated against the kernel's own body. Exploration level with an exhaustive small sub-space.",
         TRUST + " PE semantics (choose index, mux polarity) taken from the repository's own finalize-phs-to-hw lowering; decode's exponential search is cut at 11 muxes.", "4/C20"),
 "C04": ("Hypothesis property-based testing; oracle = translation check by differential execution (field-level CSR machine vs address-level machine decoding the emitted inline asm, expectation derived from the accfg.accelerator op) + enumerated register-map invariants",
         "(b) Generated accfg programs over the registered accelerators (real field names; after trace-states/dedup/overlap so setups are partial and state crosses loops and ifs) are lowered with convert-accfg-to-csr; field-level and lowered programs are executed and the csrw/csrr/RoCC event sequence must be exactly what the declared register map prescribes; no accfg op or state value may survive. (a) Register maps of generated and enumerated accelerator configurations (alu option x dimension grid, gemmx m,n,k grid and from_config, xDMA option subsets, PHS switch counts) are checked for name agreement and injectivity incl. barrier and reserved slots. Exploration level with enumerated finite sub-spaces.",
         TRUST + " Await epilogues and reserved slots are taken from the repository's own docstrings; two known-finding signatures cover the documented RoCC limitation (partner half not statically known).", "4/C04"),
 "C05": ("Hypothesis property-based testing + exhaustive enumeration of small layout pairs; oracle = reference model: execute the emitted DMA code on a byte memory with the runtime's 1-D/2-D transfer semantics and compare with addresses computed from the layout definitions",
         "Generated memref.copy ops between row-major / strided (static and dynamic) / tiled-strided layouts are lowered with snax-copy-to-dma; the result (arith, scf.for nests, snax_dma_1d/2d_transfer calls) is interpreted on a byte memory in which every source byte is a distinct token; every logical element must arrive at the address the destination layout assigns, reads stay in the source footprint and writes in the destination footprint. All 149 524 rank-2, depth <= 2, bounds <= 3 TSL pairs are enumerated in thorough (a slice in quick). Exploration level with an exhaustive sub-space.",
         TRUST + " DMA call semantics from runtime/include/snax_rt.h; one known finding (dynamic strides of strided memrefs assumed dense, encoded in upstream's lit test) is classified by a narrow signature; crashes of the pass on that class are counted as rejections.", "4/C05"),
 "C06": ("Hypothesis property-based testing of generated accfg programs; oracle = differential execution (deduplicated input vs after accfg-config-overlap) on the CSR machine + own SSA dominance walk",
         "Generated programs are traced and deduplicated with the real passes (the form the property names), then accfg-config-overlap is applied; both are executed for 3 input vectors each. Launch/await/call order, launch values and the registers each launch observes must agree; a use of a not-yet-available value is detected statically (dominance walk) and dynamically. Exploration level.",
         TRUST + " Interpreter + CSRMachine; xDSL 0.70 verify() has no dominance check, so the check's own walk is trusted for availability.", "4/C06"),
 "C07": ("Hypothesis property-based testing; oracle = analysis soundness against concrete executions (infer_state_of at every state-typed value vs the machine's register file) + structural state-link invariant",
         "Generated untraced programs are traced with the real pass (and in 2/3 of cases deduplicated), executed on the CSR machine, and at every run-time definition of an !accfg.state value (every loop iteration, after loops/ifs, every setup) the real infer_state_of is compared with the registers; every executed setup's in_state must be the really preceding state. Exploration level.",
         TRUST + " Interpreter + CSRMachine (un-annotated call = registers unknown).", "4/C07"),
 "C08": ("Hypothesis property-based testing; oracle = reference model derived from the declared field NAMES (marker values in stride patterns), packed registers unpacked by byte, loop-count relations between kernel registers and stream step counts",
         "Generated accelerator instances (alu with generated streamer configurations, gemmx default and from_config geometries, xdma extension subsets, hwpe) and streaming regions with pairwise distinct marker bounds/strides are run through the real convert-linalg-to-accfg pass with the instance registered; the emitted setup must verify, name exactly the declared fields, and every named field must hold the value with that meaning. Exploration level.",
         TRUST + " Register meanings come from field names and code comments (no RTL offline). gemmx patterns are generated in the 5-pattern output-stationary shape set_stride_patterns produces. Known findings (hwpe name swap expected by upstream's lit test, xdma enabled_chan without mask option, rescale-only per-channel values) are classified by narrow signatures.", "4/C08"),
 "C09": ("Hypothesis property-based testing + systematic sweep of 2-D shapes (thorough); oracle = invariants on the result type of every inserted snax.layout_cast: coverage (product of tile bounds per dim = shape), injectivity (all indices through the C10 reference address function, numpy unique), padding only enlarges strides, explicitly laid-out operands untouched",
         "dart.schedule ops obtained from generated dart.operation ops through the real dart-scheduler, directly generated schedules (any dimension order, tilings, reduction/broadcast dims, bounds not dividing the shape), and cases with operands that already carry a TSL layout are run through set-memory-layout (tiled and untiled) for all streamer accelerators and element widths 8..64. Thorough adds all 2-D shapes up to 40 x 40 per width and accelerator. Exploration level with a systematic sub-space.",
         TRUST + " Reference address function from vlib/gen_tsl.py (C10). Scheduler refusals are rejections.", "4/C09"),
 "C10": ("Hypothesis property-based testing + exhaustive enumeration of small layouts; oracle = one reference address function written from the TSL docstrings, against which every view (affine map, all_values/overlap/dense, bound/step ops interpreted, text round trip, from_strides/canonicalize, common contiguous block, subview pointer arithmetic) is compared",
         "Seven sub-properties, each comparing one view of a tiled-strided layout with the single reference addr(idx) on generated layouts (rank <= 4, depth <= 3, dynamic entries, offsets) and on the complete small-layout grid. Exploration level with an exhaustive sub-space.",
         TRUST + " The reference address function and the dynamic-step rule follow snaxc/ir/tsl/README.md and the class docstrings.", "4/C10"),
 "C13": ("Hypothesis property-based testing; oracle = invariant over the multi-core history: the program is executed once per core, runs are split into epochs at cluster barriers, and no two accesses by different cores in one epoch may conflict (exact for barrier-synchronised code, no interleaving enumeration needed); all cores must pass the same barrier sites",
         "Generated functions over shared buffers (copies, compute ops, views, deallocs, pre-existing barriers, loop nests with run-time trip counts 0..3; 2 and 3 cores) go through insert-sync-barrier, then dispatch-regions and snax-to-func; each stage is executed per core and checked for deadlock freedom (identical barrier sequences, no barrier under a core-id guard), race freedom per epoch, and program preservation. Exploration level.",
         TRUST + " A barrier is a full fence; which core runs an op is fixed by the generator independently of dispatching_rules.py. One known finding (conflicts through distinct views of one root buffer) is classified by a narrow signature; conflicts through the same SSA value stay violations.", "4/C13"),
 "C14": ("Hypothesis property-based testing; oracle = differential per core: for every core id the dispatched function's trace of tagged ops must equal the original trace filtered by the dispatch rule; pinning re-checked on the specialised functions",
         "Generated functions (1..3 blocks, nested scf.for/scf.if, data-mover / compute / neutral ops at any depth, 2..5 cores) are dispatched with the real pass and executed once per core id; the pinned (function-constant-pinning) functions are executed too. Exploration level.",
         TRUST + " Pinning is only checked on single-block functions (xDSL's pass raises on multi-block bodies).", "4/C14"),
 "C15": ("Hypothesis property-based testing + enumerated grid (stages x op kinds x buffer assignments x trip counts); oracles = coverage multiset of (stage, iteration), range, epoch-rule race freedom on a two-core machine, data flow on symbolic buffer contents vs the sequential loop",
         "Generated loops of the recognised shape (index ops, 2..4 barrier-separated stages of copies / kernels on shared L1 buffers, every accepted buffer-to-stage assignment, trip counts 0..8, lb/step variants through pipeline-canonicalize-for) are pipelined with construct-pipeline, pipeline-duplicate-buffers, unroll-pipeline and executed on a two-core epoch machine with symbolic buffer contents next to the sequential loop. Exploration level with an enumerated finite grid.",
         TRUST + " NotImplementedError refusals of the passes are rejections. Four known findings on marginal input shapes (buffer read after the loop, read-modify-write outs, scalar stage operands, aliasing subviews) are classified by narrow signatures.", "4/C15"),
 "C16": ("Hypothesis property-based testing; oracle = exact rational row-space test / re-derived post-conditions on every yielded schedule; matcher compared with the exact test on constructed matching and perturbed pairs; small pairs exhaustively (thorough)",
         "Every schedule yielded by scheduler_backtrack on generated and realistic (gemmx/alu/xdma-like) template cases is checked for template fit, bounds, and the requested extra constraints, all in exact arithmetic independent of the SVD-based predicate under test; the matcher itself is compared with the exact decision. Exploration level with an exhaustive small sub-space.",
         TRUST + " Entries restricted to -16..16 and dims <= 5 so float artefacts of the SVD test on inputs no caller produces are not flagged.", "4/C16"),
 "C17": ("Hypothesis property-based testing + exhaustive small loop grids; oracle = differential trace: the module before and after the pass is interpreted on the same inputs and the trace of tagged side-effecting ops with their evaluated index/size operands and memref views must be identical (allocations compared through their uses)",
         "Generated loop nests (depth <= 3, constant / run-time / triangular bounds, ub not a multiple of step, zero and negative trip counts, iter_args, bodies mixing tagged ops, pure arith, allocs, subviews, dims, affine.min) go through pipeline-canonicalize-for and reuse-memref-allocs separately and in pipeline order; both versions are executed for two input vectors. Grids of single loops (lb x ub 0..12 x step 1..5) and 2/3-level nests with marker ops are enumerated. Exploration level with exhaustive sub-spaces.",
         TRUST + " memref values are symbolic descriptors; for reuse-memref-allocs a buffer dimension may grow to what the original computes with its affine.min ops forced to their constant bound (executed reference). Three known findings (imperfect nests merged and affine.min consumers rewritten, both encoded in upstream's lit tests; allocs carried across iterations) are classified by narrow signatures.", "4/C17"),
 "C18": ("Hypothesis property-based testing + exhaustive small-body enumeration; oracle = differential evaluation with fixed-width two's-complement semantics (body before vs after; kernel ops through their own equivalent_region and an independent Python restatement), documented rescale formula, dispatch declaration check",
         "Generated and enumerated linalg bodies (any wiring, widths i8..i64) are run through convert-linalg-to-kernel and evaluated before/after on all corner inputs plus drawn vectors; every kernel x width combination is expanded with convert-kernel-to-linalg and compared with the kernel definition and round-tripped; the rescale expansion is compared with the documented limited formula; dispatch-kernels results are checked against supported_kernels. Exploration level with exhaustive small sub-spaces.",
         TRUST + " The rescale oracle restates the documented formula (no hardware model offline). One known finding (dispatch type check is dead code) is classified by a narrow signature. convert-tosa-to-kernel is not driven (tosa.rescale text differs under xDSL 0.70).", "4/C18"),
 "C19": ("Hypothesis property-based testing; oracles = evaluation equivalence on boxes and random points, idempotence, round trips through the real attribute printer/parser, reference bit packing; small spaces exhaustively",
         "Six pure-function sub-properties (affine canonicalisation, AffineTransform round trips/compose, AccessPattern canonicalize/inner_dims, StridePattern canonicalize + print/parse, pack_bitlist, StreamerConfigurationAttr print/parse) are each checked on tens of thousands of generated inputs per run against independent reference evaluators. Exploration level.",
         TRUST + " One known finding (xDMA system type lost in the streamer-config text) is classified by a narrow signature.", "4/C19"),
 "C02": ("Hypothesis property-based testing through the real pipeline; oracle = reference model (schedule enumeration with an own layout address function vs streamer address model expansion of the emitted stride patterns), per temporal step byte-sequence equality incl. documented spatial fill-up grouping",
         "Generated dart.operation ops (alu element-wise, gemmx matmul/gemm/conv-like; shapes multiple and non-multiple of the template; row-major, compiler-chosen tiled/untiled and given strided layouts) are lowered with dart-scheduler, set-memory-layout, dart-layout-resolution and convert-dart-to-snax-stream; the stride patterns handed to set_stride_patterns and those of the final streaming region are expanded to per-step byte sequences and compared with the bytes the schedule assigns to each step under the operand's layout. Exploration level.",
         TRUST + " Streamer address model from the StridePattern docstring; template and port sizes are taken from the accelerator classes as hardware description; operands relying on the streamer's undocumented broadcast mode (schedule-level broadcast such as a 1-D bias) are not compared; inputs whose innermost run is not contiguous to a bank word are outside the documented domain (layouts not chosen by the compiler only).", "4/C02"),
 "C03": ("Hypothesis property-based testing; oracle = iteration-multiset invariant (numpy enumeration); exhaustive enumeration of a small sub-space in thorough",
         "Random and (thorough) exhaustive-small search over schedules, templates and transformation chains; every yielded schedule of the backtracking scheduler is compared with the input as a multiset of operand-index tuples. Exploration is the right level: the functions are pure and cheap, so tens of thousands of cases per run are possible, but the input space is unbounded.",
         TRUST + " Iteration box semantics taken from the SchedulePattern docstrings.", "4/C03"),
}

checks = []
for p in props:
    pid = p["id"]
    if pid not in CLAIMED:
        continue
    tech, text, note, ref = CLAIMED[pid]
    checks.append(dict(
        property_id=pid,
        quick_cmd=f"./check {pid} --tier quick",
        thorough_cmd=f"./check {pid} --tier thorough",
        evidence_file=f"evidence/{pid}.json",
        replay_cmd_template=f"./check {pid} --replay {{path}}",
        engine="hypothesis-runner",
        level_claimed=dict(category="exploration", text=text, design_ref="DESIGN.md section " + ref),
        level_note=note,
        technique=tech,
    ))
na = [dict(property_id=p["id"], reason="check not built yet in this session (work in progress; see DESIGN.md section 4 for the planned generated-input check)")
      for p in props if p["id"] not in CLAIMED]
man = dict(
    version=1,
    setup_cmd="./setup.sh",
    hooks=dict(guard="SNAX_MLIR_VERIF", enable="no instrumentation in /repo is needed; checks import snaxc from /repo's working tree in a fresh process (PYTHONPATH) with SNAX_MLIR_VERIF=1 set for form",
               baseline_off_cmd="cd /repo && /venv/bin/python -m pytest -ra -q -p no:cacheprovider --timeout=900 --continue-on-collection-errors",
               source_commits=[], add_only=True),
    engines=[dict(name="hypothesis-runner", path="vlib/runner.py", serves_properties=[c["property_id"] for c in checks],
                  kind_free_text="Hypothesis 6.168 property-based testing sharded over 16 processes; recipes (JSON) -> IR/objects -> real passes/functions -> executable oracle (reference model, differential execution on abstract machines, invariants); shrunk failures become replay files")],
    checks=checks,
    notes="All checks are generated-input search (property-based testing). See DESIGN.md. Known genuine defects are listed in known_findings.json.",
    not_applicable=na,
)
json.dump(man, open(os.path.join(HERE, "MANIFEST.json"), "w"), indent=1)
print("claimed", len(checks), "not_applicable", len(na))
