#!/bin/bash
"true" '''\'
export PYTHONPATH="/verif:/verif/vlib/stubs:${VERIF_REPO:-/repo}"
exec /venv/bin/python -W ignore "$0" "$@"
'''
"""Greedy recipe reducer for the accfg program recipes (used when Hypothesis' shrinker runs out of time on a thorough-tier find).
usage: reduce_accfg.py <property id> <sub name> <replay.json> <out.json>"""
import copy, importlib, json, sys

import vlib.compat  # noqa
from vlib.runner import Violation

pid, subname, src, dst = sys.argv[1:5]
mod = importlib.import_module("props." + pid)
sub = {s.name: s for s in mod.SUBS}[subname]
data = json.load(open(src))
recipe = data["recipe"]


def sig(r):
    try:
        sub.prop(r)
    except Violation as v:
        return v.signature
    except Exception:
        return None
    return None


target = sig(recipe)
assert target, "replay does not violate"
print("target", target)


def variants(body):
    """yield smaller versions of a statement list"""
    for i in range(len(body)):
        yield body[:i] + body[i + 1:]
        s = body[i]
        if s[0] == "for":
            yield body[:i] + s[2] + body[i + 1:]
            for v in variants(s[2]):
                yield body[:i] + [["for", s[1], v, s[3], s[4]]] + body[i + 1:]
            if s[3]:
                yield body[:i] + [["for", s[1], s[2], [], []]] + body[i + 1:]
            if s[1]["ub"][0] != "c":
                yield body[:i] + [["for", dict(lb=["c", 0], step=["c", 1], ub=["c", 2, 0]), s[2], s[3], s[4]]] + body[i + 1:]
        elif s[0] == "if":
            yield body[:i] + s[2] + body[i + 1:]
            yield body[:i] + s[3] + body[i + 1:]
            for v in variants(s[2]):
                yield body[:i] + [["if", s[1], v, s[3]]] + body[i + 1:]
            for v in variants(s[3]):
                yield body[:i] + [["if", s[1], s[2], v]] + body[i + 1:]


changed = True
while changed:
    changed = False
    for v in variants(recipe["body"]):
        r2 = dict(copy.deepcopy(recipe), body=v)
        if sig(r2) == target:
            recipe = r2
            changed = True
            print("reduced to", json.dumps(recipe["body"])[:200])
            break
    if not changed:
        for key, val in (("nargs", 1), ("nconds", 1)):
            if recipe.get(key, 1) > val:
                r2 = dict(copy.deepcopy(recipe), **{key: val})
                if sig(r2) == target:
                    recipe = r2
                    changed = True
        if len(recipe.get("accs", [])) > 1:
            r2 = dict(copy.deepcopy(recipe), accs=recipe["accs"][:1])
            if sig(r2) == target:
                recipe = r2
                changed = True
try:
    sub.prop(recipe)
except Violation as v:
    data["detail"] = v.detail
data["recipe"] = recipe
json.dump(data, open(dst, "w"), indent=1, default=str)
print("written", dst)
