import compat, io, contextlib
from xdsl.parser import Parser
from xdsl.printer import Printer
from snaxc.tools.snax_opt_main import SNAXOptMain
def run(text, passes):
    m = SNAXOptMain(args=['-p', passes, '--allow-unregistered-dialect'])
    mod = Parser(m.ctx, text).parse_module()
    mod.verify()
    m.pipeline.apply(m.ctx, mod)
    mod.verify()
    s = io.StringIO(); Printer(s).print_op(mod); return s.getvalue()
