"""Very small FileCheck clone: CHECK, CHECK-NEXT, CHECK-SAME, CHECK-NOT, CHECK-LABEL, CHECK-DAG(as CHECK), CHECK-EMPTY.
Supports {{regex}} and [[VAR:regex]] / [[VAR]]."""
import re, sys

def compile_pat(pat, vars_):
    # split on {{...}} and [[...]]
    out = ''
    i = 0
    caps = []
    local = {}
    while i < len(pat):
        if pat.startswith('{{', i):
            j = pat.index('}}', i)
            out += '(?:' + pat[i+2:j] + ')'
            i = j+2
        elif (mm := re.match(r'\[\[([A-Za-z_$][A-Za-z0-9_$]*)(?::(.*?))?\]\]', pat[i:])):
            name, rx = mm.group(1), mm.group(2)
            if rx is not None:
                g = 'g%d_%s' % (len(caps), name.replace('$','_'))
                out += '(?P<%s>%s)' % (g, rx)
                caps.append((name, g)); local[name] = g
            else:
                if name in local:
                    out += r'(?P=%s)' % local[name]
                elif name in vars_:
                    out += re.escape(vars_[name])
                else:
                    out += re.escape(mm.group(0))
            i += mm.end()
        else:
            ch = pat[i]
            if ch.isspace():
                # collapse whitespace
                while i < len(pat) and pat[i].isspace(): i += 1
                out += r'\s+'
            else:
                out += re.escape(ch); i += 1
    return re.compile(out), caps

def filecheck(check_text, output, prefix='CHECK'):
    directives = []
    for line in check_text.splitlines():
        m = re.search(r'(?://|#|;)\s*(%s(?:-[A-Z]+)?):(.*)$' % re.escape(prefix), line)
        if m:
            directives.append((m.group(1)[len(prefix):].lstrip('-') or 'PLAIN', m.group(2).strip()))
    lines = [l.replace(' : ', ': ') for l in output.splitlines()]
    directives = [(k, p.replace(' : ', ': ')) for k, p in directives]
    pos = 0  # current line index (next line to search)
    col = 0
    vars_ = {}
    last_line = -1
    nots = []
    for kind, pat in directives:
        if kind == 'EMPTY':
            if last_line+1 < len(lines) and lines[last_line+1].strip()=='' :
                last_line += 1; pos = last_line+1; continue
            return False, f'CHECK-EMPTY failed after line {last_line}'
        rx, caps = compile_pat(pat, vars_)
        if kind == 'NOT':
            nots.append((rx, pat)); continue
        found = None
        if kind == 'NEXT':
            cand = [last_line+1]
        elif kind == 'SAME':
            cand = [last_line]
        else:
            cand = range(pos, len(lines))
        for li in cand:
            if li >= len(lines) or li < 0: break
            m = rx.search(lines[li], col if kind=='SAME' else 0)
            if m:
                found = (li, m); break
        if not found:
            return False, f'{prefix}-{kind}: {pat!r} not found (from line {pos}); near: {lines[last_line+1] if last_line+1 < len(lines) else None!r}'
        li, m = found
        for rxn, pn in nots:
            for lj in range(max(last_line,0), li):
                if rxn.search(lines[lj]): return False, f'CHECK-NOT {pn!r} matched line {lj}'
        nots = []
        for c, g in caps: vars_[c] = m.group(g)
        last_line = li; pos = li + (0 if kind=='DAG' else 1); col = m.end()
        if kind == 'DAG': pos = li  # loose
    for rxn, pn in nots:
        for lj in range(max(last_line,0), len(lines)):
            if rxn.search(lines[lj]): return False, f'CHECK-NOT {pn!r} matched line {lj}'
    return True, f'{len(directives)} directives'
