#!/bin/bash
# usage: seedcheck.sh <worktree> <patchdir (relative to worktree, e.g. seed/patch1)> <check id> [more check ids]
# Confirms a seeded change (clean: demo 0; patched: tests unchanged, demo 1), then runs the given checks against the patched
# worktree (VERIF_REPO) with the replay tier disabled, and restores the worktree.
WT="$1"; PD="$2"; shift 2
cd "$WT" || exit 2
git checkout -q -- snaxc 2>/dev/null
if [ -n "$(git status --short snaxc)" ]; then echo "worktree not clean"; exit 2; fi
PYTHONPATH="$WT" timeout 600 /venv/bin/python "$PD/demo.py" > /tmp/seedcheck_demo_clean.out 2>&1; C=$?
echo "demo(clean) exit=$C"
git apply "$PD/patch.diff" || { echo "patch does not apply"; exit 2; }
T=$(timeout 900 /venv/bin/python -m pytest -q -p no:cacheprovider --timeout=900 --continue-on-collection-errors 2>&1 | tail -1)
echo "tests(patched): $T"
PYTHONPATH="$WT" timeout 600 /venv/bin/python "$PD/demo.py" > /tmp/seedcheck_demo_patched.out 2>&1; P=$?
echo "demo(patched) exit=$P"; tail -3 /tmp/seedcheck_demo_patched.out
for id in "$@"; do
  ( cd /verif && VERIF_REPO="$WT" timeout 1500 ./check "$id" --no-evidence --no-replay-write --no-replays > /tmp/seedcheck_$id.out 2>&1; E=$?; \
    echo "check $id exit=$E: $(grep -m2 'violation signature' /tmp/seedcheck_$id.out | tr '\n' ' ')" )
done
cd "$WT" && git checkout -q -- snaxc && echo "restored: $(git status --short snaxc | wc -l) modified files"
