"""C12 recipes: functions over buffers, subviews, cast chains and accelerator ops (+ constants/layout recipes).

Program recipe (plain JSON)
    {"mode": "implicit" | "explicit",      implicit: no memory spaces and no casts in the input (set-memory-space creates
                                           them); explicit: every memref type carries its space, cast chains are written out
     "elt": 8|16|32, "shape": [n] | [n, m],               element width and the shape every op operand has
     "roots": [{"kind": "arg"|"alloc"|"glob"|"globu"|"const", "big": 0|1, "seed": int, "space": "L1"|"L3", "gg": 0|1, "dyn": 0|1}],
                                           gg: every access path of a global takes its own memref.get_global
                                           dyn: (arg, not big) dimension 0 is `?` in the types (no TSL casts on such a root)
     "layouts": [{"split": [inner tile per dim], "perm": int, "gap": 0|1}],      pool of target layouts of the operand shape
     "epochs": [{"paths": [path per root], "stmts": [stmt]}],
     "ret": [root ref], "vis": "public"|"none", "a2g": 0|1, "dead": 0|1, "plain": 0|1,
     "trips": [[trip count per loop], [..]]}
    path = {"sv": tile number 0..3 | "iv", "casts": [["ms", "L1"|"L3"] | ["lc", layout number | -1]], "def": "top"|"epoch"|"stmt"}
    stmt = ["op", kind, [input root refs], [output root refs]] | ["for", [stmt]]
           kind: "linalg_lib" | "linalg" | "dart_op" | "dart_sched" | "test"
A root of kind big has 4x the operand shape in dimension 0 and is only used through a subview (tile `sv`; "iv" = tile number is
the induction variable of the enclosing loop, trip counts are <= 3).

Precondition kept by construction (DESIGN C12): an *epoch* fixes ONE access path per root (the root itself, a subview, or the
end of a cast chain over it) and every op of the epoch reaches the root through that path only. Cast ops of a path are placed at
the function top ("top"), at the epoch start ("epoch") or in front of / at the top of the loop body of each statement ("stmt").
So the spans first user .. last user of two different cast buffers of one root never overlap, and the root is never accessed
directly while a cast buffer of it is in use.
"""
from __future__ import annotations

import itertools
import math

from hypothesis import strategies as st

from . import gen_tsl as T

OP_KINDS = ["linalg_lib", "linalg", "dart_op", "dart_sched", "test"]
BIG = 4


# ------------------------------------------------------------------------------------------------------------------
# layouts


def divisors(n):
    return [d for d in range(1, n + 1) if n % d == 0]


def layout_from_spec(shape, spec):
    """Dense (or, with gap, padded) static layout recipe of `shape`: every dimension d is split in an outer tile of
    shape[d]/t and an inner tile of t (t = spec.split[d] snapped to a divisor); the strides are nested in the order given by
    permutation number spec.perm (fastest first)."""
    dims_b = []
    for d, n in enumerate(shape):
        ds = divisors(n)
        t = spec["split"][d % len(spec["split"])] if spec.get("split") else n
        t = ds[t % len(ds)]
        if t == n or t == 1:
            dims_b.append([n])
        else:
            dims_b.append([n // t, t])
    pos = [(d, k) for d, bs in enumerate(dims_b) for k in range(len(bs))]
    perms_n = math.factorial(len(pos))
    order = nth_permutation(pos, spec.get("perm", 0) % perms_n)
    steps = {}
    ext = 1
    for j, (d, k) in enumerate(order):
        if spec.get("gap") and j == len(order) - 1 and len(order) > 1:
            ext *= 2
        steps[(d, k)] = ext
        ext *= dims_b[d][k]
    return T.layout([[(steps[(d, k)], b) for k, b in enumerate(bs)] for d, bs in enumerate(dims_b)])


def nth_permutation(items, n):
    items = list(items)
    out = []
    for i in range(len(items), 0, -1):
        f = math.factorial(i - 1)
        out.append(items.pop(n // f))
        n %= f
    return out


def row_major(shape):
    steps = []
    ext = 1
    for n in reversed(shape):
        steps.append(ext)
        ext *= n
    return T.layout([[(s, n)] for s, n in zip(reversed(steps), shape)])


def is_row_major(r):
    return r.get("offset", 0) in (0, None) and T.ref_dense(r) and bool((T.rel_addrs(r).reshape(-1) == list(range(T.n_elems(r)))).all())


def tsl_text(r):
    parts = []
    for dim in r["dims"]:
        parts.append("[" + ", ".join(str(b) for _, b in dim) + "] -> (" + ", ".join(str(s) for s, _ in dim) + ")")
    s = ", ".join(parts)
    if r.get("offset"):
        s += f", offset: {r['offset']}"
    return f"#tsl.tsl<{s}>"


def mtype(shape, elt, layout=None, space=None):
    s = "x".join(str(x) for x in shape) + f"xi{elt}"
    if layout:
        s += ", " + layout
    if space:
        s += f', "{space}"'
    return f"memref<{s}>"


def data_values(seed, n, elt):
    """n mostly distinct signed values of width elt."""
    m = 1 << elt
    k = 2 * (seed % 50) + 1
    c = (seed // 50) % 97
    out = []
    for i in range(n):
        v = (i * k + c) % m
        out.append(v - m if v >= m // 2 else v)
    return out


def dense_text(vals, shape):
    def rec(off, dims):
        if len(dims) == 1:
            return "[" + ", ".join(str(v) for v in vals[off:off + dims[0]]) + "]", dims[0]
        parts = []
        used = 0
        for _ in range(dims[0]):
            t, u = rec(off + used, dims[1:])
            parts.append(t)
            used += u
        return "[" + ", ".join(parts) + "]", used

    return "dense<" + rec(0, list(shape))[0] + ">"


# ------------------------------------------------------------------------------------------------------------------
# strategies


@st.composite
def layout_spec(draw, rank):
    return dict(split=[draw(st.integers(0, 5)) for _ in range(rank)], perm=draw(st.integers(0, 23)), gap=draw(st.sampled_from([0, 0, 0, 0, 1])))


_SHAPES = [[4], [8], [6], [4, 4], [2, 4], [4, 2], [2, 6], [8, 2], [3, 4], [2, 2]]


@st.composite
def _path(draw, nlay, explicit):
    sv = draw(st.sampled_from([0, 0, 1, 2, 3, "iv", "iv"]))
    casts = []
    if explicit:
        n = draw(st.sampled_from([0, 1, 1, 2, 2, 3]))
        for _ in range(n):
            if draw(st.booleans()):
                casts.append(["ms", draw(st.sampled_from(["L1", "L1", "L3"]))])
            else:
                casts.append(["lc", draw(st.integers(-1, nlay - 1))])
    return dict(sv=sv, casts=casts, **{"def": draw(st.sampled_from(["top", "epoch", "epoch", "stmt", "stmt"]))})


@st.composite
def _op(draw, nroots):
    kind = draw(st.sampled_from(OP_KINDS + ["linalg_lib", "dart_op"]))
    nin = draw(st.sampled_from([0, 1, 1, 1, 2]))
    nout = draw(st.sampled_from([0, 1, 1, 1, 2]))
    if nin + nout == 0:
        nout = 1
    return ["op", kind, [draw(st.integers(0, nroots - 1)) for _ in range(nin)], [draw(st.integers(0, nroots - 1)) for _ in range(nout)]]


@st.composite
def _stmts(draw, nroots, depth, maxn):
    n = draw(st.integers(1, maxn))
    out = []
    for _ in range(n):
        if depth > 0 and draw(st.integers(0, 3)) == 0:
            out.append(["for", draw(_stmts(nroots, depth - 1, 2))])
        else:
            out.append(draw(_op(nroots)))
    return out


def count_loops(stmts):
    return sum(1 + count_loops(s[1]) for s in stmts if s[0] == "for")


@st.composite
def program(draw, tier="quick", mode=None):
    mode = mode or draw(st.sampled_from(["implicit", "explicit", "explicit"]))
    explicit = mode == "explicit"
    shape = draw(st.sampled_from(_SHAPES))
    elt = draw(st.sampled_from([8, 16, 32]))
    nroots = draw(st.integers(1, 4))
    kinds = ["arg", "arg", "arg", "alloc", "alloc", "glob", "globu", "const"]
    roots = [dict(kind=draw(st.sampled_from(kinds)), big=draw(st.sampled_from([0, 0, 1])), seed=draw(st.integers(0, 4000)),
                  space=draw(st.sampled_from(["L3", "L3", "L3", "L1"])), gg=draw(st.sampled_from([0, 0, 0, 1])),
                  dyn=draw(st.sampled_from([0, 0, 0, 0, 1]))) for _ in range(nroots)]
    nlay = draw(st.integers(1, 3))
    layouts = [draw(layout_spec(len(shape))) for _ in range(nlay)]
    nep = draw(st.sampled_from([1, 1, 2, 2, 3]))
    epochs = []
    for _ in range(nep):
        paths = [draw(_path(nlay, explicit)) for _ in range(nroots)]
        stmts = draw(_stmts(nroots, 2 if tier == "thorough" else 1, 3))
        epochs.append(dict(paths=paths, stmts=stmts))
    nloops = sum(count_loops(e["stmts"]) for e in epochs)
    trips = [[draw(st.sampled_from([0, 1, 2, 3])) for _ in range(nloops)] for _ in range(2)]
    ret = draw(st.lists(st.integers(0, nroots - 1), max_size=2))
    return dict(mode=mode, elt=elt, shape=shape, roots=roots, layouts=layouts, epochs=epochs, ret=ret,
                vis=draw(st.sampled_from(["public", "none"])), a2g=draw(st.sampled_from([0, 0, 1])) if not explicit else 0,
                dead=draw(st.sampled_from([0, 0, 0, 1])), plain=draw(st.sampled_from([0, 0, 0, 0, 0, 1])), trips=trips)


# ------------------------------------------------------------------------------------------------------------------
# builder


class Built:
    def __init__(self):
        self.text = ""
        self.arg_spec: list = []  # ("mem", shape) | ("loop", loop number)
        self.nloops = 0
        self.features: set[str] = set()
        self.ntags = 0
        self.root_names: list[str] = []
        self.max_chain = 0
        self.shared_rw = False  # one cast value used by a reader and by a writer
        self.shared_multi = False  # one cast value used by >= 2 ops
        self.global_names: list[str] = []


def _identity_map(rank):
    d = ", ".join(f"d{i}" for i in range(rank))
    return f"affine_map<({d}) -> ({d})>"


def build(r) -> Built:
    b = Built()
    explicit = r["mode"] == "explicit"
    shape = list(r["shape"])
    rank = len(shape)
    elt = r["elt"]
    big_shape = [shape[0] * BIG] + shape[1:]
    roots = r["roots"]
    nroots = len(roots)
    lay_recipes = [layout_from_spec(shape, s) for s in r["layouts"]]
    lay_texts = [tsl_text(l) for l in lay_recipes]

    def is_dyn(i):
        return bool(roots[i].get("dyn")) and roots[i]["kind"] == "arg" and not roots[i].get("big")

    def casts_of(i, path):
        """Casts of a path as emitted. A root with a dynamic dimension takes no static TSL layout: its layout casts are dropped
        and, in explicit mode, it is always reached through at least one memory-space cast."""
        cs = [list(c) for c in path.get("casts", [])[:3]] if explicit else []
        if is_dyn(i):
            cs = [c for c in cs if c[0] == "ms"]
            if explicit and not cs:
                cs = [["ms", "L1"]]
        return cs

    counter = [0]

    def fresh(p="v"):
        counter[0] += 1
        return f"%{p}{counter[0]}"

    globals_txt: list[str] = []
    top: list[str] = []
    args: list[tuple[str, str]] = []
    root_val: list[tuple[str, list, str | None]] = []  # (ssa, shape, space)
    for i, rt in enumerate(roots):
        rshape = big_shape if rt.get("big") else shape
        kind = rt["kind"]
        if kind == "arg":
            sp = (rt.get("space") or "L3") if explicit else None
            nm = f"%A{i}"
            b.arg_spec.append(("mem", rshape))
            if is_dyn(i):
                rshape = ["?"] + list(rshape[1:])  # run-time size = the operand shape
                b.features.add("dynamic-dim")
            args.append((nm, mtype(rshape, elt, None, sp)))
        elif kind == "alloc":
            sp = "L1" if explicit else None
            nm = f"%M{i}"
            top.append(f'    {nm} = "memref.alloc"() <{{operandSegmentSizes = array<i32: 0, 0>, alignment = 64 : i64}}> : () -> {mtype(rshape, elt, None, sp)}')
        elif kind in ("glob", "globu"):
            sp = "L3" if explicit else None
            nm = f"%G{i}"
            gname = f"g{i}"
            n = math.prod(rshape)
            if kind == "glob":
                iv = dense_text(data_values(rt.get("seed", 0), n, elt), rshape) + f" : tensor<{'x'.join(map(str, rshape))}xi{elt}>"
                globals_txt.append(f'  "memref.global"() <{{sym_name = "{gname}", type = {mtype(rshape, elt)}, initial_value = {iv}, sym_visibility = "private", constant, alignment = 64 : i64}}> : () -> ()')
            else:
                globals_txt.append(f'  "memref.global"() <{{sym_name = "{gname}", type = {mtype(rshape, elt)}, initial_value, sym_visibility = "private", alignment = 64 : i64}}> : () -> ()')
            b.global_names.append(gname)
            if rt.get("gg"):
                nm = None  # every access path takes its own memref.get_global
                b.features.add("get_global-per-path")
            else:
                top.append(f'    {nm} = "memref.get_global"() <{{name = @{gname}}}> : () -> {mtype(rshape, elt, None, sp)}')
        else:  # const
            sp = (rt.get("space") or "L1") if explicit else None
            nm = f"%K{i}"
            n = math.prod(rshape)
            ty = mtype(rshape, elt, None, sp)
            top.append(f'    {nm} = "arith.constant"() <{{value = {dense_text(data_values(rt.get("seed", 0), n, elt), rshape)} : {ty}}}> {{"c12.tag" = {100 + i} : i64}} : () -> {ty}')
        root_val.append((nm, rshape, sp))
        b.features.add("root:" + kind + ("+big" if rt.get("big") else ""))

    loop_args: list[str] = []
    use_count: dict[str, list] = {}  # cast value -> [readers, writers]

    # A root that is used without any cast by a linalg.generic / dart.operation gets ONE shared L1 cast from
    # set-memory-space, whatever lies between the users. To keep "one access path at a time", a root that is reached through
    # explicit casts somewhere is never used as the bare root value elsewhere: those epochs go through a full-size subview.
    needs_fresh = [False] * nroots
    if explicit:
        for ep in r["epochs"]:
            for i in range(nroots):
                if casts_of(i, ep["paths"][i % len(ep["paths"])]):
                    needs_fresh[i] = True

    def emit_path(i, path, out, pad, iv):
        """Emit subview + casts of root i; returns (ssa, type text, number of casts, memory space)."""
        nm, rshape, sp = root_val[i]
        layout = None
        if nm is None:
            nm = fresh("gg")
            out.append(f'{pad}{nm} = "memref.get_global"() <{{name = @g{i}}}> : () -> {mtype(rshape, elt, None, sp)}')
        cur = nm
        casts = casts_of(i, path)
        oshape = (["?"] + list(shape[1:])) if is_dyn(i) else shape
        if not roots[i].get("big") and needs_fresh[i] and not casts:
            strides_txt = ", ".join(str(math.prod(rshape[d + 1:])) for d in range(rank))
            layout = f"strided<[{strides_txt}], offset: 0>"
            new = fresh("s")
            out.append(f'{pad}{new} = "memref.subview"({cur}) <{{operandSegmentSizes = array<i32: 1, 0, 0, 0>, static_offsets = array<i64: {", ".join(["0"] * rank)}>, '
                       f'static_sizes = array<i64: {", ".join(map(str, shape))}>, static_strides = array<i64: {", ".join(["1"] * rank)}>}}> : ({mtype(rshape, elt, None, sp)}) -> {mtype(shape, elt, layout, sp)}')
            b.features.add("subview:full")
            cur = new
        if roots[i].get("big"):
            sv = path.get("sv", 0)
            row_stride = math.prod(shape[1:]) if rank > 1 else 1
            strides_txt = ", ".join(str(math.prod(rshape[d + 1:])) for d in range(rank))
            src_t = mtype(rshape, elt, None, sp)
            if sv == "iv" and iv is not None:
                off = fresh("o")
                cn = fresh("cn")
                out.append(f'{pad}{cn} = "arith.constant"() <{{value = {shape[0]} : index}}> : () -> index')
                out.append(f'{pad}{off} = "arith.muli"({iv}, {cn}) : (index, index) -> index')
                layout = f"strided<[{strides_txt}], offset: ?>"
                res_t = mtype(shape, elt, layout, sp)
                new = fresh("s")
                so = ", ".join([str(-9223372036854775808)] + ["0"] * (rank - 1))
                out.append(f'{pad}{new} = "memref.subview"({cur}, {off}) <{{operandSegmentSizes = array<i32: 1, 1, 0, 0>, static_offsets = array<i64: {so}>, '
                           f'static_sizes = array<i64: {", ".join(map(str, shape))}>, static_strides = array<i64: {", ".join(["1"] * rank)}>}}> : ({src_t}, index) -> {res_t}')
                b.features.add("subview:iv")
            else:
                t = (sv if isinstance(sv, int) else 0) % BIG
                offset = t * shape[0] * row_stride
                layout = f"strided<[{strides_txt}], offset: {offset}>"
                res_t = mtype(shape, elt, layout, sp)
                new = fresh("s")
                so = ", ".join([str(t * shape[0])] + ["0"] * (rank - 1))
                out.append(f'{pad}{new} = "memref.subview"({cur}) <{{operandSegmentSizes = array<i32: 1, 0, 0, 0>, static_offsets = array<i64: {so}>, '
                           f'static_sizes = array<i64: {", ".join(map(str, shape))}>, static_strides = array<i64: {", ".join(["1"] * rank)}>}}> : ({src_t}) -> {res_t}')
                b.features.add("subview:static")
            cur = new
        cur_t = mtype(oshape, elt, layout, sp)
        nc = 0
        if explicit:
            for c in casts:
                if c[0] == "ms":
                    nsp, nl = c[1], layout
                    opn = "memref.memory_space_cast"
                else:
                    k = c[1]
                    nl = None if k < 0 else lay_texts[k % len(lay_texts)]
                    nsp = sp
                    opn = "snax.layout_cast"
                new_t = mtype(oshape, elt, nl, nsp)
                new = fresh("c")
                out.append(f'{pad}{new} = "{opn}"({cur}) : ({cur_t}) -> {new_t}')
                cur, cur_t, layout, sp = new, new_t, nl, nsp
                nc += 1
                b.features.add("cast:" + c[0])
        return cur, cur_t, nc, sp

    def used_roots(stmts):
        s = set()
        for x in stmts:
            if x[0] == "op":
                s.update(v % nroots for v in x[2] + x[3])
            else:
                s |= used_roots(x[1])
        return s

    def emit_op(s, vals, out, pad, in_loop):
        _, kind, ins, outs = s
        iv_ = [vals[v % nroots][:3] for v in ins]
        ov_ = [vals[v % nroots][:3] for v in outs]
        if any(vals[v % nroots][3] != "L1" for v in ins + outs):
            # set-memory-space gives linalg.generic / dart.operation operands an L1 cast and leaves other ops alone. To keep ONE
            # access path per buffer, all ops that consume a value outside L1 are of one class per program (recipe.plain).
            if r.get("plain"):
                kind = {"linalg": "test", "linalg_lib": "test", "dart_op": "dart_sched"}.get(kind, kind)
            else:
                kind = {"test": "linalg", "dart_sched": "dart_op"}.get(kind, kind)
        tag = b.ntags
        b.ntags += 1
        for v, _, nc in iv_:
            use_count.setdefault(v, [0, 0, nc])[0] += 1
        for v, _, nc in ov_:
            use_count.setdefault(v, [0, 0, nc])[1] += 1
        names = ", ".join(v for v, _, _ in iv_ + ov_)
        types = ", ".join(t for _, t, _ in iv_ + ov_)
        n_in, n_out = len(iv_), len(ov_)
        b.features.add("op:" + kind + (":loop" if in_loop else ""))
        if kind in ("linalg", "linalg_lib"):
            maps = ", ".join([_identity_map(rank)] * (n_in + n_out))
            its = ", ".join(["#linalg.iterator_type<parallel>"] * rank)
            lib = f', library_call = "snax_acc{tag}"' if kind == "linalg_lib" else ""
            bargs = [f"%b{tag}_{k}" for k in range(n_in + n_out)]
            out.append(f'{pad}"linalg.generic"({names}) <{{indexing_maps = [{maps}], iterator_types = [{its}], operandSegmentSizes = array<i32: {n_in}, {n_out}>{lib}}}> ({{')
            out.append(f'{pad}^bb0({", ".join(f"{a}: i{elt}" for a in bargs)}):')
            out.append(f'{pad}  "linalg.yield"({", ".join(bargs[n_in:])}) : ({", ".join([f"i{elt}"] * n_out)}) -> ()')
            out.append(f'{pad}}}) {{"c12.tag" = {tag} : i64}} : ({types}) -> ()')
        elif kind in ("dart_op", "dart_sched"):
            maps = ", ".join([_identity_map(rank)] * (n_in + n_out))
            extra = ""
            opn = "dart.operation"
            if kind == "dart_sched":
                opn = "dart.schedule"
                bnds = ", ".join(f"{x} : index" for x in shape)
                tiles = ", ".join("[" + ", ".join(["1 : index"] * rank) + "]" for _ in range(n_in + n_out))
                extra = f", bounds = [{bnds}], tiles = [{tiles}]"
            bargs = [f"%b{tag}_{k}" for k in range(n_in + n_out)]
            st_t = f"!dart.stream<i{elt}>"
            out.append(f'{pad}"{opn}"({names}) <{{operandSegmentSizes = array<i32: {n_in}, {n_out}>, patterns = [{maps}]{extra}}}> ({{')
            out.append(f'{pad}^bb0({", ".join(f"{a}: {st_t}" for a in bargs)}):')
            if n_out:
                rs = [f"%y{tag}_{k}" for k in range(n_out)]
                out.append(f'{pad}  {", ".join(rs)} = "test.op"({", ".join(bargs[:n_in])}) : ({", ".join([st_t] * n_in)}) -> ({", ".join([st_t] * n_out)})')
                out.append(f'{pad}  "dart.yield"({", ".join(rs)}) : ({", ".join([st_t] * n_out)}) -> ()')
            else:
                out.append(f'{pad}  "dart.yield"() : () -> ()')
            out.append(f'{pad}}}) {{"c12.tag" = {tag} : i64}} : ({types}) -> ()')
        else:
            out.append(f'{pad}"test.op"({names}) {{"c12.tag" = {tag} : i64}} : ({types}) -> ()')
            for v, _, nc in iv_:  # an opaque op reads and writes every operand
                use_count[v][1] += 1
            for v, _, nc in ov_:
                use_count[v][0] += 1

    def emit_stmts(stmts, vals, paths, out, ind, iv, stmt_def_done):
        pad = "  " * ind
        for s in stmts:
            local = dict(vals)
            if not stmt_def_done:
                # paths with def = "stmt": (re)defined in front of this op / at the top of this loop's body
                need = sorted(i for i in used_roots([s]) if paths[i % len(paths)].get("def") == "stmt")
            else:
                need = []
            if s[0] == "op":
                for i in need:
                    local[i] = emit_path(i, paths[i % len(paths)], out, pad, iv)
                emit_op(s, local, out, pad, iv is not None)
            else:
                lid = b.nloops
                b.nloops += 1
                ub = f"%n{lid}"
                loop_args.append(ub)
                b.arg_spec.append(("loop", lid))
                niv = fresh("i")
                body: list[str] = []
                for i in need:
                    local[i] = emit_path(i, paths[i % len(paths)], body, pad + "  ", niv)
                emit_stmts(s[1], local, paths, body, ind + 1, niv, True)
                out.append(f'{pad}"scf.for"(%zero, {ub}, %one) ({{')
                out.append(f"{pad}^bb0({niv}: index):")
                out.extend(body)
                out.append(f'{pad}  "scf.yield"() : () -> ()')
                out.append(f"{pad}}}) : (index, index, index) -> ()")
                b.features.add("loop" + (":nested" if iv is not None else ""))

    body: list[str] = []
    top_paths: list[str] = []
    if r.get("dead") and explicit:
        nm, rshape, sp = root_val[0]
        if not roots[0].get("big") and nm is not None and not is_dyn(0):
            t0 = mtype(shape, elt, None, sp)
            d1 = fresh("d")
            top_paths.append(f'    {d1} = "memref.memory_space_cast"({nm}) : ({t0}) -> {mtype(shape, elt, None, "L1")}')
            top_paths.append(f'    {fresh("d")} = "snax.layout_cast"({d1}) : ({mtype(shape, elt, None, "L1")}) -> {mtype(shape, elt, lay_texts[0], "L1")}')
            b.features.add("dead-casts")
    for ep in r["epochs"]:
        paths = ep["paths"]
        used = used_roots(ep["stmts"])
        vals = {}
        for i in sorted(used):
            p = paths[i % len(paths)]
            d = p.get("def", "epoch")
            if d == "top":
                vals[i] = emit_path(i, p, top_paths, "    ", None)
            elif d == "epoch":
                vals[i] = emit_path(i, p, body, "    ", None)
            else:
                vals[i] = None  # defined per statement
        emit_stmts(ep["stmts"], vals, paths, body, 2, None, False)

    for v, (nr, nw, nc) in use_count.items():
        b.max_chain = max(b.max_chain, nc)
        if nc >= 1 and nr >= 1 and nw >= 1:
            b.shared_rw = True
        if nc >= 1 and nr + nw >= 2:
            b.shared_multi = True

    rets = []
    for v in r.get("ret", []):
        nm, rshape, sp = root_val[v % nroots]
        if nm is None:
            nm = fresh("gg")
            body.append(f'    {nm} = "memref.get_global"() <{{name = @g{v % nroots}}}> : () -> {mtype(rshape, elt, None, sp)}')
        rets.append((nm, rshape, sp))
    ret_names = ", ".join(v for v, _, _ in rets)
    ret_types = ", ".join(mtype(s, elt, None, sp) for _, s, sp in rets)
    all_args = args + [(a, "index") for a in loop_args]
    # argument order: memref arguments first, then loop bounds
    b.arg_spec = [a for a in b.arg_spec if a[0] == "mem"] + [a for a in b.arg_spec if a[0] == "loop"]
    sig = ", ".join(t for _, t in all_args)
    vis = ', sym_visibility = "public"' if r.get("vis") == "public" else ""
    lines = ["builtin.module {"]
    lines += globals_txt
    lines.append(f'  "func.func"() <{{sym_name = "main", function_type = ({sig}) -> ({ret_types}){vis}}}> ({{')
    lines.append(f'  ^bb0({", ".join(f"{a}: {t}" for a, t in all_args)}):')
    lines.append('    %zero = "arith.constant"() <{value = 0 : index}> : () -> index')
    lines.append('    %one = "arith.constant"() <{value = 1 : index}> : () -> index')
    lines += top
    lines += top_paths
    lines += body
    lines.append(f'    "func.return"({ret_names}) : ({ret_types}) -> ()')
    lines.append("  }) : () -> ()")
    lines.append("}")
    b.text = "\n".join(lines)
    if rets:
        b.features.add("returns-memref")
    return b


def run_args(r, built: Built, k: int):
    """arg_spec for machine_c12.run for input vector k."""
    trips = r.get("trips") or [[1]]
    tv = trips[k % len(trips)] or [1]
    out = []
    for a in built.arg_spec:
        if a[0] == "mem":
            out.append(("mem", a[1]))
        else:
            out.append(("int", tv[a[1] % len(tv)] % 4))
    return out


# ------------------------------------------------------------------------------------------------------------------
# constants


def tile_splits(shape, max_depth=3):
    """All ways to write every dimension as a product of 1..max_depth tile bounds > 1 (outermost first); [n] always."""
    def splits(n, depth):
        out = [[n]]
        if depth > 1:
            for d in divisors(n):
                if 1 < d < n:
                    for rest in splits(n // d, depth - 1):
                        out.append([d] + rest)
        return out

    per_dim = [splits(n, max_depth) for n in shape]
    return [list(c) for c in itertools.product(*per_dim)]


def layout_from_order(tb, order, offset=0):
    """Dense layout with tile bounds tb whose strides are nested in `order` (list of [dim, depth], fastest first)."""
    steps = {}
    ext = 1
    for d, k in order:
        steps[(d, k)] = ext
        ext *= tb[d][k]
    return T.layout([[(steps[(d, k)], b) for k, b in enumerate(bs)] for d, bs in enumerate(tb)], offset)


CONST_KINDS = ["direct_memref", "direct_tensor", "arith", "global", "subview_global", "alloc", "global_uninit"]


@st.composite
def constant_case(draw, tier="quick"):
    rank = draw(st.sampled_from([1, 2, 2, 2, 3]))
    tb = []
    total = 1
    for _ in range(rank):
        depth = draw(st.sampled_from([1, 1, 2, 2, 3]))
        bs = []
        for _ in range(depth):
            bnd = draw(st.sampled_from([1, 2, 2, 2, 3, 3, 4, 4, 5, 8]))
            if total * bnd > (256 if tier == "quick" else 2048):
                bnd = 1
            bs.append(bnd)
            total *= bnd
        tb.append(bs)
    pos = [[d, k] for d, bs in enumerate(tb) for k in range(len(bs))]
    order = list(draw(st.permutations(pos)))
    return dict(kind=draw(st.sampled_from(CONST_KINDS[:5] * 3 + CONST_KINDS[5:])), tb=tb, order=order, elt=draw(st.sampled_from([8, 16, 32])),
                seed=draw(st.integers(0, 4000)), unit_step=draw(st.sampled_from([0, 0, 1, 7])),
                sub=dict(mult=[draw(st.sampled_from([1, 2, 2, 3])) for _ in range(rank)], tile=[draw(st.integers(0, 2)) for _ in range(rank)]),
                space=draw(st.sampled_from(["L1", "L3", None])))


def constant_exhaustive(tier="quick"):
    """All permutations for every tile split with <= 4 strides of a list of small shapes, all kinds, widths rotate."""
    shapes = [[4], [8], [6], [12], [2, 2], [4, 4], [2, 4], [4, 2], [3, 4], [6, 2], [4, 6], [2, 2, 2], [2, 3, 2], [4, 2, 2]]
    if tier == "thorough":
        shapes += [[16], [8, 4], [4, 8], [6, 6], [8, 8], [12, 2], [2, 12], [3, 2, 4], [4, 4, 2], [2, 2, 2, 2], [4, 2, 2, 3]]
    n = 0
    for shape in shapes:
        for tb in tile_splits(shape):
            pos = [[d, k] for d, bs in enumerate(tb) for k in range(len(bs))]
            if len(pos) > 4:
                continue
            for order in itertools.permutations(pos):
                for kind in CONST_KINDS[:5]:
                    n += 1
                    yield dict(kind=kind, tb=tb, order=[list(p) for p in order], elt=[8, 16, 32][n % 3], seed=n % 997, unit_step=0,
                               sub=dict(mult=[2] + [1] * (len(shape) - 1), tile=[(n // 3) % 2] + [0] * (len(shape) - 1)), space=["L1", "L3", None][n % 3])
