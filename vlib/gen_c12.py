"""C12 recipes: functions over buffers, subviews, cast chains and accelerator ops (+ constants/layout recipes).

Program recipe (plain JSON)
    {"mode": "implicit" | "explicit",      implicit: no memory spaces and no casts in the input (set-memory-space creates
                                           them); explicit: every memref type carries its space, cast chains are written out
     "elt": 8|16|32, "shape": [n] | [n, m],               element width and the shape every op operand has
     "roots": [{"kind": "arg"|"alloc"|"glob"|"globu"|"const", "big": 0|1, "seed": int, "space": "L1"|"L3", "gg": 0|1, "dyn": bit mask,
                "ispace": null|"L1"|"L3", "glayout": null|layout number}],
                                           gg: every access path of a global takes its own memref.get_global
                                           dyn: (arg / alloc, not big) bit d set = dimension d is `?` in the types (no TSL casts on
                                           such a root); a dynamic alloc takes its sizes from index constants
                                           glayout: (glob / globu, not big) the memref.global and its get_global already carry
                                           this dense TSL layout (as after an earlier realize-memref-casts run); the initial
                                           value is then the raw storage under that layout
                                           ispace: (arg, implicit mode) memory space written on this argument although the
                                           others have none: mixed public signatures
     "layouts": [{"split": [inner tile per dim], "perm": int, "gap": 0|1}],      pool of target layouts of the operand shape
     "epochs": [{"paths": [path per root], "stmts": [stmt]}],
     "ret": [root ref], "vis": "public"|"none", "a2g": 0|1, "dead": 0|1, "plain": 0|1, "bare_ok": 0|1,
     "trips": [[trip count per loop], [..]]}
    path = {"sv": tile number 0..3 | "iv", "casts": [["ms", "L1"|"L3"] | ["lc", layout number | -1]], "def": "top"|"epoch"|"stmt",
            "base": null | n}      base (explicit mode): the casts are chained on the END of the path an earlier epoch used for this root
                                   (n picks which), i.e. derived views of an existing cast value that are read and written later
    subview_mix (implicit mode, 1|2): whole-buffer uses of a bare root are mixed freely with uses through a plain full-size
                                   subview of it (["alt", ..] refs, then also allowed as OUTPUTS and after/before writers; 2: the root
                                   also has a memref.dim user). The subview makes the root's L1 cast unshareable, so set-memory-space
                                   gives every op its own cast and any interleaving is sound.
    bare_ok (explicit mode): a path without casts uses the bare root even if other epochs reach the root through explicit casts
                                   (set-memory-space then decides per op whether an existing L1 cast may be shared)
    stmt = ["op", kind, [input refs], [output root refs]] | ["for", [stmt]] | ["for", [stmt], {"ub": n}]
           a loop without header takes its trip count from a function argument (run-time, `trips`); with {"ub": n} its bounds are
           the arith.constants 0 and n (n = 0: constant empty range)
           kind: "linalg_lib" | "linalg" | "dart_op" | "dart_sched" | "test"
           input ref: root number (read through the epoch's path A of that root) | ["alt", root number, variant] (read-only
           access through ANOTHER path B of the root, made right in front of the op: a (tile / full-size) subview of the root
           with 0-2 casts of its own, a cast chained on the end of path A, or the bare root, which set-memory-space gives its
           own cast). An alt ref is honoured only where it is sound, otherwise it means the plain root ref (see below).
A root of kind big has 4x the operand shape in dimension 0 and is only used through a subview (tile `sv`; "iv" = tile number is
the induction variable of the enclosing loop, trip counts are <= 3).

Precondition kept by construction (DESIGN C12): an *epoch* fixes ONE access path per root (the root itself, a subview, or the
end of a cast chain over it) and every op of the epoch reaches the root through that path only. Cast ops of a path are placed at
the function top ("top"), at the epoch start ("epoch") or in front of / at the top of the loop body of each statement ("stmt").
So the spans first WRITER-relevant use .. last writer of two different cast buffers of one root never overlap, and the root is
never written, nor read before the write-back, through another path while a cast buffer of it holds newer data.
Relaxation (read-only sharing): once the last writer through path A has run - it sits in an EARLIER top-level statement than
the alt read, over the whole life of A's SSA value: the epoch, or the whole program when A is the bare root, whose L1 cast
set-memory-space shares between all users - the original is up to date again, so reads through a fresh path B may be
interleaved with later reads through A in any order, also inside loops. B is never written (an op that would end up as an
opaque test.op drops its alt refs) and B's value is made for that one op. Two sub-classes are counted separately because
set-memory-space / realize-memref-casts mishandled them when they were re-admitted (proposed repairs in
/var/tmp/c12/proposed_fix_*.diff): alt-read:chain:dead-tail (the tail chained on A leaves a cast dead in place on A's end value)
and alt-read:bare:beside-explicit-L1-cast / alt-read:bare:repeated (the bare root is read while explicit casts of it exist).
"""
from __future__ import annotations

import itertools
import math

from hypothesis import strategies as st

from . import gen_tsl as T

OP_KINDS = ["linalg_lib", "linalg", "dart_op", "dart_sched", "test"]
BIG = 4


# ------------------------------------------------------------------------------------------------------------------
# layouts


def divisors(n):
    return [d for d in range(1, n + 1) if n % d == 0]


def layout_from_spec(shape, spec):
    """Dense (or, with gap, padded) static layout recipe of `shape`: every dimension d is split in an outer tile of
    shape[d]/t and an inner tile of t (t = spec.split[d] snapped to a divisor); the strides are nested in the order given by
    permutation number spec.perm (fastest first)."""
    dims_b = []
    for d, n in enumerate(shape):
        ds = divisors(n)
        t = spec["split"][d % len(spec["split"])] if spec.get("split") else n
        t = ds[t % len(ds)]
        if t == n or t == 1:
            dims_b.append([n])
        else:
            dims_b.append([n // t, t])
    pos = [(d, k) for d, bs in enumerate(dims_b) for k in range(len(bs))]
    perms_n = math.factorial(len(pos))
    order = nth_permutation(pos, spec.get("perm", 0) % perms_n)
    steps = {}
    ext = 1
    for j, (d, k) in enumerate(order):
        if spec.get("gap") and j == len(order) - 1 and len(order) > 1:
            ext *= 2
        steps[(d, k)] = ext
        ext *= dims_b[d][k]
    return T.layout([[(steps[(d, k)], b) for k, b in enumerate(bs)] for d, bs in enumerate(dims_b)])


def nth_permutation(items, n):
    items = list(items)
    out = []
    for i in range(len(items), 0, -1):
        f = math.factorial(i - 1)
        out.append(items.pop(n // f))
        n %= f
    return out


def row_major(shape):
    steps = []
    ext = 1
    for n in reversed(shape):
        steps.append(ext)
        ext *= n
    return T.layout([[(s, n)] for s, n in zip(reversed(steps), shape)])


def is_row_major(r):
    return r.get("offset", 0) in (0, None) and T.ref_dense(r) and bool((T.rel_addrs(r).reshape(-1) == list(range(T.n_elems(r)))).all())


def tsl_text(r):
    parts = []
    for dim in r["dims"]:
        parts.append("[" + ", ".join(str(b) for _, b in dim) + "] -> (" + ", ".join(str(s) for s, _ in dim) + ")")
    s = ", ".join(parts)
    if r.get("offset"):
        s += f", offset: {r['offset']}"
    return f"#tsl.tsl<{s}>"


def mtype(shape, elt, layout=None, space=None):
    s = "x".join(str(x) for x in shape) + f"xi{elt}"
    if layout:
        s += ", " + layout
    if space:
        s += f', "{space}"'
    return f"memref<{s}>"


def data_values(seed, n, elt):
    """n mostly distinct signed values of width elt."""
    m = 1 << elt
    k = 2 * (seed % 50) + 1
    c = (seed // 50) % 97
    out = []
    for i in range(n):
        v = (i * k + c) % m
        out.append(v - m if v >= m // 2 else v)
    return out


def dense_text(vals, shape):
    def rec(off, dims):
        if len(dims) == 1:
            return "[" + ", ".join(str(v) for v in vals[off:off + dims[0]]) + "]", dims[0]
        parts = []
        used = 0
        for _ in range(dims[0]):
            t, u = rec(off + used, dims[1:])
            parts.append(t)
            used += u
        return "[" + ", ".join(parts) + "]", used

    return "dense<" + rec(0, list(shape))[0] + ">"


# ------------------------------------------------------------------------------------------------------------------
# strategies


@st.composite
def layout_spec(draw, rank):
    return dict(split=[draw(st.integers(0, 5)) for _ in range(rank)], perm=draw(st.integers(0, 23)), gap=draw(st.sampled_from([0, 0, 0, 0, 1])))


_SHAPES = [[4], [8], [6], [4, 4], [2, 4], [4, 2], [2, 6], [8, 2], [3, 4], [2, 2], [2, 3, 4], [4, 2, 3], [3, 2, 2], [2, 4, 3]]


@st.composite
def _path(draw, nlay, explicit):
    sv = draw(st.sampled_from([0, 0, 1, 2, 3, "iv", "iv"]))
    casts = []
    if explicit:
        n = draw(st.sampled_from([0, 1, 1, 2, 2, 3]))
        for _ in range(n):
            if draw(st.booleans()):
                casts.append(["ms", draw(st.sampled_from(["L1", "L1", "L3"]))])
            else:
                casts.append(["lc", draw(st.integers(-1, nlay - 1))])
    return dict(sv=sv, casts=casts, base=draw(st.sampled_from([None, None, None, None, 0, 1])) if explicit else None,
                **{"def": draw(st.sampled_from(["top", "epoch", "epoch", "stmt", "stmt"]))})


@st.composite
def _op(draw, nroots):
    kind = draw(st.sampled_from(OP_KINDS + ["linalg_lib", "dart_op"]))
    nin = draw(st.sampled_from([0, 1, 1, 1, 2]))
    nout = draw(st.sampled_from([0, 1, 1, 1, 2]))
    if nin + nout == 0:
        nout = 1
    ins = []
    for _ in range(nin):
        v = draw(st.integers(0, nroots - 1))
        if draw(st.integers(0, 3)) == 0:
            ins.append(["alt", v, draw(st.integers(0, 35))])
        else:
            ins.append(v)
    return ["op", kind, ins, [draw(st.integers(0, nroots - 1)) for _ in range(nout)]]


@st.composite
def _wra_stmts(draw, nroots):
    """Template: a writer of root i through path A, then a read through another path and a read through A (both orders),
    each optionally inside a loop, optionally both in one loop."""
    i = draw(st.integers(0, nroots - 1))
    j = draw(st.integers(0, nroots - 1))
    acc = ["linalg_lib", "linalg", "dart_op", "dart_sched"]
    w = ["op", draw(st.sampled_from(acc)), [j] if (j != i and draw(st.booleans())) else [], [i]]
    outs = [j] if j != i and draw(st.booleans()) else []
    rb = ["op", draw(st.sampled_from(acc)), [["alt", i, draw(st.integers(0, 35))]], outs]
    ra = ["op", draw(st.sampled_from(acc)), [i], [j] if j != i and draw(st.booleans()) else []]
    pair = [rb, ra] if draw(st.booleans()) else [ra, rb]
    shape_ = draw(st.sampled_from(["flat", "flat", "loop-each", "loop-both", "loop-first"]))
    if shape_ == "loop-each":
        pair = [["for", [pair[0]]], ["for", [pair[1]]]]
    elif shape_ == "loop-both":
        pair = [["for", pair]]
    elif shape_ == "loop-first":
        pair = [["for", [pair[0]]], pair[1]]
    if draw(st.integers(0, 3)) == 0:
        w = ["for", [w]]
    mid = [draw(_op(nroots))] if draw(st.integers(0, 3)) == 0 else []
    return [w] + mid + pair


@st.composite
def _stmts(draw, nroots, depth, maxn):
    n = draw(st.integers(1, maxn))
    out = []
    for _ in range(n):
        if depth > 0 and draw(st.integers(0, 3)) == 0:
            body_ = draw(_stmts(nroots, depth - 1, 2))
            ub_ = draw(st.sampled_from([None, None, None, 0, 1, 2, 3]))
            out.append(["for", body_] if ub_ is None else ["for", body_, {"ub": ub_}])
        else:
            out.append(draw(_op(nroots)))
    return out


def count_loops(stmts):
    return sum(1 + count_loops(s[1]) for s in stmts if s[0] == "for")


@st.composite
def program(draw, tier="quick", mode=None):
    mode = mode or draw(st.sampled_from(["implicit", "explicit", "explicit"]))
    explicit = mode == "explicit"
    shape = draw(st.sampled_from(_SHAPES))
    elt = draw(st.sampled_from([8, 16, 32]))
    nroots = draw(st.integers(1, 4))
    kinds = ["arg", "arg", "arg", "alloc", "alloc", "glob", "globu", "const"]
    roots = [dict(kind=draw(st.sampled_from(kinds)), big=draw(st.sampled_from([0, 0, 1])), seed=draw(st.integers(0, 4000)),
                  space=draw(st.sampled_from(["L3", "L3", "L3", "L1"])), gg=draw(st.sampled_from([0, 0, 0, 1])),
                  dyn=draw(st.sampled_from([0] * 12 + [1, 2, 2, 3, 4, 5, 6, 6, 7])),
                  ispace=draw(st.sampled_from([None, None, None, "L1", "L1", "L3"])),
                  glayout=draw(st.sampled_from([None, None, 0, 1, 2]))) for _ in range(nroots)]
    nlay = draw(st.integers(1, 3))
    layouts = [draw(layout_spec(len(shape))) for _ in range(nlay)]
    nep = draw(st.sampled_from([1, 1, 2, 2, 3]))
    epochs = []
    for _ in range(nep):
        paths = [draw(_path(nlay, explicit)) for _ in range(nroots)]
        if draw(st.integers(0, 3)) == 0:
            stmts = draw(_wra_stmts(nroots))
        else:
            stmts = draw(_stmts(nroots, 2 if tier == "thorough" else 1, 3))
        epochs.append(dict(paths=paths, stmts=stmts))
    nest_tpl = 0
    if explicit and draw(st.integers(0, 5)) == 0:
        nest_tpl = 1 + int(False)
        j = draw(st.integers(0, nroots - 1))
        roots[j].update(kind=draw(st.sampled_from(["arg", "arg", "globu"])), big=draw(st.sampled_from([0, 0, 1])), gg=0, glayout=None, space="L3")
        kx = draw(st.integers(0, nlay - 1))
        pc = draw(st.sampled_from([[["ms", "L1"]], [["ms", "L1"], ["lc", kx]], [["lc", kx], ["ms", "L1"]], [["lc", kx]]]))
        ins_ = [draw(st.integers(0, nroots - 1))] if nroots > 1 and draw(st.booleans()) else []
        ins_ = [x for x in ins_ if x != j]
        w_ = ["op", draw(st.sampled_from(["linalg_lib", "linalg", "dart_op", "dart_sched"])), ins_, [j]]
        inner_ub = draw(st.sampled_from([None, None, 0, 0, 1]))
        inner = ["for", [w_]] if inner_ub is None else ["for", [w_], {"ub": inner_ub}]
        outer_ub = draw(st.sampled_from([1, 1, 2, None, 3]))
        outer = ["for", [inner]] if outer_ub is None else ["for", [inner], {"ub": outer_ub}]
        paths_ = [draw(_path(nlay, explicit)) for _ in range(nroots)]
        paths_[j] = dict(sv=draw(st.sampled_from([0, 1, 2])), casts=pc, base=None, **{"def": draw(st.sampled_from(["top", "epoch"]))})
        epochs.append(dict(paths=paths_, stmts=[outer]))
    mix = 0
    if not explicit and draw(st.integers(0, 2)) == 0:
        mix = draw(st.sampled_from([1, 1, 2]))
        if draw(st.booleans()):
            # whole / through-subview / whole on root 0, and the mirrored form
            roots[0].update(big=0, dyn=0, gg=0, glayout=None, ispace=draw(st.sampled_from([None, None, "L3"])),
                            kind=draw(st.sampled_from(["arg", "arg", "globu", "glob"])))
            acc = ["linalg_lib", "linalg", "dart_op"]
            k_ = lambda: draw(st.sampled_from(acc))  # noqa: E731
            o_ = [draw(st.integers(1, nroots - 1))] if nroots > 1 else []
            if draw(st.booleans()):
                tri = [["op", k_(), o_[:1], [0]], ["op", k_(), [["alt", 0, 0]], o_[:1]], ["op", k_(), o_[:1], [0]]]
            else:
                tri = [["op", k_(), [0], o_[:1]], ["op", k_(), o_[:1], [["alt", 0, 0]]], ["op", k_(), [0], o_[:1]]]
            if draw(st.integers(0, 3)) == 0:
                tri = [["for", tri]]
            elif draw(st.integers(0, 3)) == 0:
                tri[1] = ["for", [tri[1]]]
            epochs[0] = dict(paths=epochs[0]["paths"], stmts=tri)
    template = explicit and draw(st.integers(0, 5)) == 0
    if template:
        # an explicit L1 cast X of root 0 that an accelerator op uses, then views derived from X that are written through,
        # then the bare root again: set-memory-space must not route the bare use through X's (stale) buffer
        roots[0].update(kind=draw(st.sampled_from(["arg", "arg", "glob", "globu"])), big=0, dyn=0, space="L3", gg=0,
                        glayout=draw(st.sampled_from([None, None, 0])))
        acc = ["linalg_lib", "linalg", "dart_op"]
        others = [j for j in range(1, nroots)]
        def opnd():
            return [draw(st.sampled_from(others))] if others and draw(st.booleans()) else []
        k1 = draw(st.integers(0, nlay - 1))
        dcasts = draw(st.sampled_from([[["lc", k1]], [["lc", k1]], [["lc", k1], ["lc", -1]], [["ms", "L3"], ["lc", k1]]]))
        tp = lambda c, d, base=None: [dict(sv=0, casts=c, base=base, **{"def": d})] + [draw(_path(nlay, explicit)) for _ in range(nroots - 1)]  # noqa: E731
        e0 = [["op", draw(st.sampled_from(acc)), [0], opnd()]]
        if draw(st.booleans()):
            e0.insert(0, ["op", draw(st.sampled_from(acc)), opnd(), [0]])
        w = ["op", draw(st.sampled_from(acc + ["test", "dart_sched"])), opnd(), [0]]
        e1 = [["for", [w]]] if draw(st.integers(0, 3)) == 0 else [w]
        rd = ["op", draw(st.sampled_from(acc)), [0], opnd()]
        e2 = [["for", [rd]]] if draw(st.integers(0, 3)) == 0 else [rd]
        if draw(st.booleans()):
            e2.append(["op", draw(st.sampled_from(acc)), opnd(), [0]])
        epochs = [dict(paths=tp([["ms", "L1"]], draw(st.sampled_from(["top", "epoch"]))), stmts=e0),
                  dict(paths=tp(dcasts, "epoch", 0), stmts=e1),
                  dict(paths=tp([], "epoch"), stmts=e2)]
        if draw(st.integers(0, 2)) == 0:
            epochs.insert(2, dict(paths=tp(draw(st.sampled_from([[["lc", -1]], [["ms", "L3"]], [["lc", k1], ["ms", "L3"]]])), "epoch", 1),
                                  stmts=[draw(st.sampled_from([rd, w]))]))
    nloops = sum(count_loops(e["stmts"]) for e in epochs)
    trips = [[draw(st.sampled_from([0, 1, 2, 3])) for _ in range(nloops)] for _ in range(2)]
    ret = draw(st.lists(st.integers(0, nroots - 1), max_size=2))
    return dict(mode=mode, elt=elt, shape=shape, roots=roots, layouts=layouts, epochs=epochs, ret=ret,
                vis=draw(st.sampled_from(["public", "none"])), a2g=draw(st.sampled_from([0, 0, 1])) if not explicit else 0,
                dead=0 if template else draw(st.sampled_from([0, 0, 0, 1])),
                plain=0 if template else draw(st.sampled_from([0, 0, 0, 0, 0, 1])),
                bare_ok=1 if template else draw(st.sampled_from([0, 0, 1])), subview_mix=mix, nest_tpl=nest_tpl, trips=trips)


# ------------------------------------------------------------------------------------------------------------------
# builder


class Built:
    def __init__(self):
        self.text = ""
        self.arg_spec: list = []  # ("mem", shape) | ("loop", loop number)
        self.nloops = 0
        self.features: set[str] = set()
        self.ntags = 0
        self.root_names: list[str] = []
        self.max_chain = 0
        self.shared_rw = False  # one cast value used by a reader and by a writer
        self.shared_multi = False  # one cast value used by >= 2 ops
        self.global_names: list[str] = []
        self.alt_reads = 0  # honoured reads through another path
        self.alt_between = 0  # ... that lie after a writer through path A and not after the last reader through A


def _identity_map(rank):
    d = ", ".join(f"d{i}" for i in range(rank))
    return f"affine_map<({d}) -> ({d})>"


def build(r) -> Built:
    b = Built()
    explicit = r["mode"] == "explicit"
    shape = list(r["shape"])
    rank = len(shape)
    elt = r["elt"]
    big_shape = [shape[0] * BIG] + shape[1:]
    roots = r["roots"]
    nroots = len(roots)
    lay_recipes = [layout_from_spec(shape, s) for s in r["layouts"]]
    lay_texts = [tsl_text(l) for l in lay_recipes]

    def dyn_mask(i):
        rt = roots[i]
        if rt.get("big") or rt["kind"] not in ("arg", "alloc") or (rt["kind"] == "alloc" and r.get("a2g")):
            return [False] * rank
        m = int(rt.get("dyn") or 0)
        return [bool((m >> d) & 1) for d in range(rank)]

    def is_dyn(i):
        return any(dyn_mask(i))

    def dshape(i, sh):
        """Shape as written in the types of root i: `?` where the dimension is dynamic (run-time size = sh)."""
        return ["?" if m else n for m, n in zip(dyn_mask(i), sh)]

    def casts_of(i, path):
        """Casts of a path as emitted. A root with a dynamic dimension takes no static TSL layout: its layout casts are dropped
        and, in explicit mode, it is always reached through at least one memory-space cast."""
        cs = [list(c) for c in path.get("casts", [])[:3]] if explicit else []
        if is_dyn(i):
            cs = [c for c in cs if c[0] == "ms"]
            if explicit and not cs:
                cs = [["ms", "L1"]]
        return cs

    counter = [0]

    def fresh(p="v"):
        counter[0] += 1
        return f"%{p}{counter[0]}"

    # roots whose type already carries a (dense) TSL layout
    rlay: list = [None] * nroots
    for i, rt in enumerate(roots):
        if rt["kind"] in ("glob", "globu") and not rt.get("big") and rt.get("glayout") is not None and r["layouts"]:
            spec = dict(r["layouts"][int(rt["glayout"]) % len(r["layouts"])], gap=0)
            lr = layout_from_spec(shape, spec)
            if not is_row_major(lr) or rt["glayout"] % 2 == 0:
                rlay[i] = tsl_text(lr)
    bare_ok = bool(r.get("bare_ok")) and explicit
    if r.get("nest_tpl"):
        b.features.add("template:output-only-use-two-loops-deep-cast-outside")

    globals_txt: list[str] = []
    top: list[str] = []
    args: list[tuple[str, str]] = []
    root_val: list[tuple[str, list, str | None]] = []  # (ssa, shape, space)
    for i, rt in enumerate(roots):
        rshape = big_shape if rt.get("big") else shape
        kind = rt["kind"]
        if kind == "arg":
            sp = (rt.get("space") or "L3") if explicit else rt.get("ispace")
            nm = f"%A{i}"
            b.arg_spec.append(("mem", rshape))
            rshape = dshape(i, rshape)  # run-time size = the operand shape
            args.append((nm, mtype(rshape, elt, None, sp)))
            if sp is not None and not explicit:
                b.features.add("sig:annotated-arg:" + sp)
        elif kind == "alloc":
            sp = "L1" if explicit else None
            nm = f"%M{i}"
            dyn_ops = []
            for d, m in enumerate(dyn_mask(i)):
                if m:
                    dn = f"%dn{i}_{d}"
                    top.append(f'    {dn} = "arith.constant"() <{{value = {rshape[d]} : index}}> : () -> index')
                    dyn_ops.append(dn)
            rshape = dshape(i, rshape)
            top.append(f'    {nm} = "memref.alloc"({", ".join(dyn_ops)}) <{{operandSegmentSizes = array<i32: {len(dyn_ops)}, 0>, alignment = 64 : i64}}> : '
                       f'({", ".join(["index"] * len(dyn_ops))}) -> {mtype(rshape, elt, None, sp)}')
        elif kind in ("glob", "globu"):
            sp = "L3" if explicit else None
            nm = f"%G{i}"
            gname = f"g{i}"
            n = math.prod(rshape)
            if kind == "glob":
                iv = dense_text(data_values(rt.get("seed", 0), n, elt), rshape) + f" : tensor<{'x'.join(map(str, rshape))}xi{elt}>"
                globals_txt.append(f'  "memref.global"() <{{sym_name = "{gname}", type = {mtype(rshape, elt, rlay[i])}, initial_value = {iv}, sym_visibility = "private", constant, alignment = 64 : i64}}> : () -> ()')
            else:
                globals_txt.append(f'  "memref.global"() <{{sym_name = "{gname}", type = {mtype(rshape, elt, rlay[i])}, initial_value, sym_visibility = "private", alignment = 64 : i64}}> : () -> ()')
            b.global_names.append(gname)
            if rt.get("gg"):
                nm = None  # every access path takes its own memref.get_global
                b.features.add("get_global-per-path")
            else:
                top.append(f'    {nm} = "memref.get_global"() <{{name = @{gname}}}> : () -> {mtype(rshape, elt, rlay[i], sp)}')
            if rlay[i]:
                b.features.add("global-with-layout" + (":initialised" if kind == "glob" else ""))
        else:  # const
            sp = (rt.get("space") or "L1") if explicit else None
            nm = f"%K{i}"
            n = math.prod(rshape)
            ty = mtype(rshape, elt, None, sp)
            top.append(f'    {nm} = "arith.constant"() <{{value = {dense_text(data_values(rt.get("seed", 0), n, elt), rshape)} : {ty}}}> {{"c12.tag" = {100 + i} : i64}} : () -> {ty}')
        root_val.append((nm, rshape, sp))
        b.features.add("root:" + kind + ("+big" if rt.get("big") else ""))
        if is_dyn(i):
            mk = dyn_mask(i)
            b.features.add("dynamic-dim")
            if any(mk[d] and not all(mk[:d]) for d in range(rank)):
                b.features.add("dynamic-dim:static-before-dynamic")
            if sum(mk) >= 2:
                b.features.add("dynamic-dim:several")

    if r.get("subview_mix") == 2 and not explicit:
        for i in range(nroots):
            nm, rshape, sp = root_val[i]
            if nm is not None and not roots[i].get("big"):
                top.append(f'    %dd{i} = "memref.dim"({nm}, %zero) : ({mtype(rshape, elt, rlay[i], sp)}, index) -> index')
                b.features.add("subview-mix:dim-user")
    loop_args: list[str] = []
    use_count: dict[str, list] = {}  # cast value -> [readers, writers]

    # A root that is used without any cast by a linalg.generic / dart.operation gets ONE shared L1 cast from
    # set-memory-space, whatever lies between the users. To keep "one access path at a time", a root that is reached through
    # explicit casts somewhere is never used as the bare root value elsewhere: those epochs go through a full-size subview.
    needs_fresh = [False] * nroots
    if explicit:
        for ep in r["epochs"]:
            for i in range(nroots):
                if casts_of(i, ep["paths"][i % len(ep["paths"])]):
                    needs_fresh[i] = True

    def emit_path(i, path, out, pad, iv, force_full=False, start=None):
        """Emit subview + casts of root i; returns (ssa, type text, number of casts, memory space, layout text).
        start: chain the casts on this value (the end of an earlier epoch's path) instead of starting at the root."""
        if start is not None:
            cur, cur_t, nc, sp, layout = start
            for c in derived_casts(i, path):
                if c[0] == "ms":
                    nsp, nl, opn = c[1], layout, "memref.memory_space_cast"
                else:
                    nl = None if c[1] < 0 else lay_texts[c[1] % len(lay_texts)]
                    nsp, opn = sp, "snax.layout_cast"
                new_t = mtype(shape, elt, nl, nsp)
                new = fresh("c")
                out.append(f'{pad}{new} = "{opn}"({cur}) {{"c12.x"}} : ({cur_t}) -> {new_t}')
                cur, cur_t, layout, sp = new, new_t, nl, nsp
                nc += 1
                b.features.add("cast:" + c[0])
            b.features.add("derived-path")
            return cur, cur_t, nc, sp, layout
        nm, rshape, sp = root_val[i]
        layout = None
        if nm is None:
            nm = fresh("gg")
            out.append(f'{pad}{nm} = "memref.get_global"() <{{name = @g{i}}}> : () -> {mtype(rshape, elt, rlay[i], sp)}')
        cur = nm
        layout = rlay[i]
        casts = casts_of(i, path)
        oshape = dshape(i, shape)
        if not roots[i].get("big") and rlay[i] is None and (force_full or (needs_fresh[i] and not casts and not bare_ok)):
            strides_txt = ", ".join(str(math.prod(rshape[d + 1:])) for d in range(rank))
            layout = f"strided<[{strides_txt}], offset: 0>"
            new = fresh("s")
            out.append(f'{pad}{new} = "memref.subview"({cur}) <{{operandSegmentSizes = array<i32: 1, 0, 0, 0>, static_offsets = array<i64: {", ".join(["0"] * rank)}>, '
                       f'static_sizes = array<i64: {", ".join(map(str, shape))}>, static_strides = array<i64: {", ".join(["1"] * rank)}>}}> : ({mtype(rshape, elt, None, sp)}) -> {mtype(shape, elt, layout, sp)}')
            b.features.add("subview:full")
            cur = new
        if roots[i].get("big"):
            sv = path.get("sv", 0)
            row_stride = math.prod(shape[1:]) if rank > 1 else 1
            strides_txt = ", ".join(str(math.prod(rshape[d + 1:])) for d in range(rank))
            src_t = mtype(rshape, elt, None, sp)
            if sv == "iv" and iv is not None:
                off = fresh("o")
                cn = fresh("cn")
                out.append(f'{pad}{cn} = "arith.constant"() <{{value = {shape[0]} : index}}> : () -> index')
                out.append(f'{pad}{off} = "arith.muli"({iv}, {cn}) : (index, index) -> index')
                layout = f"strided<[{strides_txt}], offset: ?>"
                res_t = mtype(shape, elt, layout, sp)
                new = fresh("s")
                so = ", ".join([str(-9223372036854775808)] + ["0"] * (rank - 1))
                out.append(f'{pad}{new} = "memref.subview"({cur}, {off}) <{{operandSegmentSizes = array<i32: 1, 1, 0, 0>, static_offsets = array<i64: {so}>, '
                           f'static_sizes = array<i64: {", ".join(map(str, shape))}>, static_strides = array<i64: {", ".join(["1"] * rank)}>}}> : ({src_t}, index) -> {res_t}')
                b.features.add("subview:iv")
            else:
                t = (sv if isinstance(sv, int) else 0) % BIG
                offset = t * shape[0] * row_stride
                layout = f"strided<[{strides_txt}], offset: {offset}>"
                res_t = mtype(shape, elt, layout, sp)
                new = fresh("s")
                so = ", ".join([str(t * shape[0])] + ["0"] * (rank - 1))
                out.append(f'{pad}{new} = "memref.subview"({cur}) <{{operandSegmentSizes = array<i32: 1, 0, 0, 0>, static_offsets = array<i64: {so}>, '
                           f'static_sizes = array<i64: {", ".join(map(str, shape))}>, static_strides = array<i64: {", ".join(["1"] * rank)}>}}> : ({src_t}) -> {res_t}')
                b.features.add("subview:static")
            cur = new
        cur_t = mtype(oshape, elt, layout, sp)
        nc = 0
        if explicit:
            for c in casts:
                if c[0] == "ms":
                    nsp, nl = c[1], layout
                    opn = "memref.memory_space_cast"
                else:
                    k = c[1]
                    nl = None if k < 0 else lay_texts[k % len(lay_texts)]
                    nsp = sp
                    opn = "snax.layout_cast"
                new_t = mtype(oshape, elt, nl, nsp)
                new = fresh("c")
                out.append(f'{pad}{new} = "{opn}"({cur}) {{"c12.x"}} : ({cur_t}) -> {new_t}')
                cur, cur_t, layout, sp = new, new_t, nl, nsp
                nc += 1
                b.features.add("cast:" + c[0])
        return cur, cur_t, nc, sp, layout

    def ref_root(x):
        return (x[1] if isinstance(x, list) else x) % nroots

    def used_roots(stmts):
        s = set()
        for x in stmts:
            if x[0] == "op":
                s.update(ref_root(v) for v in x[2] + x[3])
            else:
                s |= used_roots(x[1])
        return s

    # ---- static facts about path A of every (epoch, root): final memory space, is it the bare root, how long its value lives
    def path_info(i, path):
        sp = root_val[i][2]
        cs = casts_of(i, path)
        for c in cs:
            if c[0] == "ms":
                sp = c[1]
        bare = not roots[i].get("big") and root_val[i][0] is not None and not cs and (not needs_fresh[i] or bare_ok or rlay[i] is not None)
        life = "prog" if bare else ("stmt" if path.get("def") == "stmt" else "epoch")
        return dict(space=sp, bare=bare, life=life)

    def derived_casts(i, path):
        return casts_of(i, path) or [["lc", 0]]

    # derive_from[e][i]: the earlier epoch whose path end the path of (e, i) is chained on, or None. Only ends that are cast
    # results, exist (root used in that epoch) and are defined at the function's top level qualify.
    # A view derived from a cast value denotes that cast value's buffer (realize-memref-casts may even merge the two: the
    # ApplyLayoutCast* patterns erase a layout cast and hand its users the value it was chained on). So the epochs of one
    # derivation FAMILY (fam) count as ONE use span of the base cast buffer: no epoch in between may touch the root through a
    # path outside the family, and a read through another path must come after the last writer of the whole family.
    used_e = [used_roots(ep["stmts"]) for ep in r["epochs"]]
    fam: list = []
    derive_from: list = []
    for e, ep in enumerate(r["epochs"]):
        row = []
        for i in range(nroots):
            path = ep["paths"][i % len(ep["paths"])]
            src = None
            if explicit and path.get("base") is not None and not is_dyn(i) and i in used_e[e]:
                cands = []
                for e2 in range(e):
                    p2 = r["epochs"][e2]["paths"][i % len(r["epochs"][e2]["paths"])]
                    if i in used_e[e2] and (derive_from[e2][i] is not None or (casts_of(i, p2) and p2.get("def") != "stmt")) \
                            and all(i not in used_e[e3] or fam[e3][i] == fam[e2][i] for e3 in range(e2 + 1, e)):
                        cands.append(e2)
                if cands:
                    src = cands[int(path["base"]) % len(cands)]
            row.append(src)
        derive_from.append(row)
        fam.append([fam[row[i]][i] if row[i] is not None else e for i in range(nroots)])

    pinfo: list = []
    for e, ep in enumerate(r["epochs"]):
        row = []
        for i in range(nroots):
            path = ep["paths"][i % len(ep["paths"])]
            if derive_from[e][i] is None:
                row.append(path_info(i, path))
            else:
                sp = pinfo[derive_from[e][i]][i]["space"]
                for c in derived_casts(i, path):
                    if c[0] == "ms":
                        sp = c[1]
                row.append(dict(space=sp, bare=False, life="epoch"))
        pinfo.append(row)

    def coerce(kind, spaces):
        # set-memory-space gives linalg.generic / dart.operation operands an L1 cast and leaves other ops alone. To keep the
        # access paths under the generator's control, all ops that consume a value outside L1 are of one class per program.
        if any(sp != "L1" for sp in spaces):
            if r.get("plain"):
                return {"linalg": "test", "linalg_lib": "test", "dart_op": "dart_sched"}.get(kind, kind)
            return {"test": "linalg", "dart_sched": "dart_op"}.get(kind, kind)
        return kind

    # Roots with an explicit L1 cast directly on them (any epoch). set-memory-space (before the repair proposed in
    # /var/tmp/c12/proposed_fix_*.diff) routes a bare read through such a cast - another epoch's cast buffer - instead of giving it a
    # cast of its own. The class is generated and counted (alt-read:bare:beside-explicit-L1-cast).
    l1_chain_on_root = [False] * nroots
    for ep in r["epochs"]:
        for i in range(nroots):
            cs = casts_of(i, ep["paths"][i % len(ep["paths"])])
            if cs and cs[0] == ["ms", "L1"] and not roots[i].get("big"):
                l1_chain_on_root[i] = True

    def alt_plan(e, i, variant):
        """How ["alt", i, variant] is realised in epoch e: dict(how, casts, space) or None (not expressible here)."""
        info = pinfo[e][i]
        rsp = root_val[i][2]
        how = ["sub", "chain", "bare"][variant % 3]
        v2 = variant // 3
        k = v2 // 4
        if how == "bare" and not (explicit and needs_fresh[i] and not roots[i].get("big") and not info["bare"]):
            how = "sub"
        if how == "chain" and not (explicit and info["life"] == "epoch"):
            how = "sub"
        if how == "sub" and (is_dyn(i) or rlay[i] is not None):
            how = "chain" if explicit and info["life"] == "epoch" else None
        if how is None:
            return None
        if how == "bare":
            return dict(how=how, casts=[], space=rsp)
        if how == "sub":
            cs = [[], [["ms", "L1"]], [["lc", k - 1]], [["ms", "L1"], ["lc", k - 1]]][v2 % 4] if explicit else []
            sp = rsp
            for c in cs:
                if c[0] == "ms":
                    sp = c[1]
            return dict(how=how, casts=cs, space=sp)
        # casts chained on the end of path A. A tail of two casts, or one that ends outside L1 (set-memory-space then adds the L1
        # cast), leaves a cast dead IN PLACE on A's end value once the end of the tail is materialised (class chain:dead-tail).
        other = "L3" if info["space"] == "L1" else "L1"
        single = [["lc", k - 1]] if info["space"] == "L1" else [["ms", "L1"]]
        cs = [single, [["ms", other]], [["lc", k - 1], ["ms", other]], [["ms", other], ["lc", k - 1]], single, [["lc", k - 1]]][v2 % 6]
        if is_dyn(i):
            cs = [c for c in cs if c[0] == "ms"] or [["ms", other]]
        sp = info["space"]
        for c in cs:
            if c[0] == "ms":
                sp = c[1]
        return dict(how=how, casts=cs, space=sp, dead_tail=len(cs) >= 2 or sp != "L1")

    def resolve(e, s):
        """Final kind of op statement s in epoch e and, per input, the alt plan that is expressible (None = plain ref).
        An op that would be an opaque test.op with or without its alt refs writes all operands: it keeps no alt ref."""
        _, kind, ins, outs = s
        plans = [alt_plan(e, ref_root(x), x[2]) if isinstance(x, list) else None for x in ins]
        sp_a = [pinfo[e][ref_root(x)]["space"] for x in ins + outs]
        sp_b = [(pl["space"] if pl else pinfo[e][ref_root(x)]["space"]) for x, pl in zip(ins, plans)] + [pinfo[e][ref_root(x)]["space"] for x in outs]
        ka, kb = coerce(kind, sp_a), coerce(kind, sp_b)
        if ka == "test" or kb == "test":
            return ka, kb, [None] * len(ins)
        return ka, kb, plans

    def writes_of(e, stmts):
        w = set()
        for s in stmts:
            if s[0] == "op":
                ka, _, _ = resolve(e, s)
                w.update(ref_root(x) for x in s[3])
                if ka == "test":
                    w.update(ref_root(x) for x in s[2])
            else:
                w |= writes_of(e, s[1])
        return w

    # last top-level statement of each epoch that writes root i through path A (-1: none)
    lastw = []
    for e, ep in enumerate(r["epochs"]):
        lw = [-1] * nroots
        for t, s in enumerate(ep["stmts"]):
            for i in writes_of(e, [s]):
                lw[i] = t
        lastw.append(lw)

    def mix_ok(e, i):
        return (bool(r.get("subview_mix")) and not explicit and pinfo[e][i]["bare"] and not is_dyn(i) and rlay[i] is None
                and not r.get("plain"))

    def alt_ok(e, t, i):
        """May root i be read through another path in top-level statement t of epoch e? Every writer through path A must lie
        in an earlier top-level statement, over the whole life of A's value."""
        if mix_ok(e, i):
            return True
        life = pinfo[e][i]["life"]
        if life == "stmt" or lastw[e][i] >= t:
            return False
        if life == "prog":
            return all(lastw[e2][i] < 0 for e2 in range(e + 1, len(lastw)))
        # later epochs of the same derivation family use (possibly) the same buffer
        return all(lastw[e2][i] < 0 for e2 in range(e + 1, len(lastw)) if fam[e2][i] == fam[e][i])

    bare_used = [False] * nroots
    gstmt = [0]  # number of the current top-level statement, counted over all epochs
    a_reads: dict[str, list] = {}
    a_writes: dict[str, list] = {}
    alts: list = []

    def emit_alt(i, plan, a_val, path, out, pad, iv):
        if plan["how"] == "bare":
            nm, rshape, sp = root_val[i]
            if nm is None:
                nm = fresh("gg")
                out.append(f'{pad}{nm} = "memref.get_global"() <{{name = @g{i}}}> : () -> {mtype(rshape, elt, rlay[i], sp)}')
            return nm, mtype(rshape, elt, rlay[i], sp), 0, sp, rlay[i]
        if plan["how"] == "sub":
            return emit_path(i, dict(sv=path.get("sv", 0), casts=plan["casts"]), out, pad, iv, force_full=True)
        cur, cur_t, nc, sp, layout = a_val
        oshape = dshape(i, shape)
        for c in plan["casts"]:
            if c[0] == "ms":
                nsp, nl, opn = c[1], layout, "memref.memory_space_cast"
            else:
                nl = None if c[1] < 0 else lay_texts[c[1] % len(lay_texts)]
                nsp, opn = sp, "snax.layout_cast"
            new_t = mtype(oshape, elt, nl, nsp)
            new = fresh("c")
            out.append(f'{pad}{new} = "{opn}"({cur}) {{"c12.x"}} : ({cur_t}) -> {new_t}')
            cur, cur_t, layout, sp = new, new_t, nl, nsp
            nc += 1
        return cur, cur_t, nc, sp, layout

    def emit_op(s, vals, out, pad, in_loop, e=0, t=0, paths=None, iv=None):
        _, kind, ins, outs = s
        ka, kb, plans = resolve(e, s)
        chosen = []
        for x, pl in zip(ins, plans):
            i = ref_root(x)
            ok = pl is not None and alt_ok(e, t, i)
            if ok and pl["how"] == "bare" and root_val[i][0] is not None:
                if bare_used[i]:
                    b.features.add("alt-read:bare:repeated")
                bare_used[i] = True
            chosen.append(pl if ok else None)
        honoured = any(c is not None for c in chosen)
        # the kind is fixed by the spaces of the operands really used (neither variant is an opaque op if an alt ref survives)
        kind = coerce(kind, [(c["space"] if c else pinfo[e][ref_root(x)]["space"]) for x, c in zip(ins, chosen)]
                      + [pinfo[e][ref_root(x)]["space"] for x in outs]) if honoured else ka
        iv_ = []
        for x, c in zip(ins, chosen):
            i = ref_root(x)
            if c is None:
                iv_.append(vals[i][:3])
                a_reads.setdefault(vals[i][0], []).append(gstmt[0])
            else:
                bv = emit_alt(i, c, vals[i], paths[i % len(paths)], out, pad, iv)
                iv_.append(bv[:3])
                alts.append((vals[i][0], gstmt[0]))
                b.alt_reads += 1
                b.features.add("alt-read:" + c["how"] + (":loop" if in_loop else ""))
                if c.get("dead_tail"):
                    b.features.add("alt-read:chain:dead-tail")
                if c["how"] == "bare" and l1_chain_on_root[i]:
                    b.features.add("alt-read:bare:beside-explicit-L1-cast")
        ov_ = []
        for v in outs:
            i = ref_root(v)
            if isinstance(v, list) and kind != "test" and mix_ok(e, i):
                ov_.append(emit_path(i, dict(sv=0, casts=[]), out, pad, iv, force_full=True)[:3])
                b.features.add("subview-mix:write")
            else:
                ov_.append(vals[i][:3])
        if any(isinstance(x, list) and c is not None and mix_ok(e, ref_root(x)) for x, c in zip(ins, chosen)):
            b.features.add("subview-mix:read")
        for v in outs:
            a_writes.setdefault(vals[ref_root(v)][0], []).append(gstmt[0])
        if kind == "test":
            for x in ins:
                a_writes.setdefault(vals[ref_root(x)][0], []).append(gstmt[0])
            for v in outs:
                a_reads.setdefault(vals[ref_root(v)][0], []).append(gstmt[0])
        tag = b.ntags
        b.ntags += 1
        for v, _, nc in iv_:
            use_count.setdefault(v, [0, 0, nc])[0] += 1
        for v, _, nc in ov_:
            use_count.setdefault(v, [0, 0, nc])[1] += 1
        names = ", ".join(v for v, _, _ in iv_ + ov_)
        types = ", ".join(t for _, t, _ in iv_ + ov_)
        n_in, n_out = len(iv_), len(ov_)
        b.features.add("op:" + kind + (":loop" if in_loop else ""))
        if kind in ("linalg", "linalg_lib"):
            maps = ", ".join([_identity_map(rank)] * (n_in + n_out))
            its = ", ".join(["#linalg.iterator_type<parallel>"] * rank)
            lib = f', library_call = "snax_acc{tag}"' if kind == "linalg_lib" else ""
            bargs = [f"%b{tag}_{k}" for k in range(n_in + n_out)]
            out.append(f'{pad}"linalg.generic"({names}) <{{indexing_maps = [{maps}], iterator_types = [{its}], operandSegmentSizes = array<i32: {n_in}, {n_out}>{lib}}}> ({{')
            out.append(f'{pad}^bb0({", ".join(f"{a}: i{elt}" for a in bargs)}):')
            out.append(f'{pad}  "linalg.yield"({", ".join(bargs[n_in:])}) : ({", ".join([f"i{elt}"] * n_out)}) -> ()')
            out.append(f'{pad}}}) {{"c12.tag" = {tag} : i64}} : ({types}) -> ()')
        elif kind in ("dart_op", "dart_sched"):
            maps = ", ".join([_identity_map(rank)] * (n_in + n_out))
            extra = ""
            opn = "dart.operation"
            if kind == "dart_sched":
                opn = "dart.schedule"
                bnds = ", ".join(f"{x} : index" for x in shape)
                tiles = ", ".join("[" + ", ".join(["1 : index"] * rank) + "]" for _ in range(n_in + n_out))
                extra = f", bounds = [{bnds}], tiles = [{tiles}]"
            bargs = [f"%b{tag}_{k}" for k in range(n_in + n_out)]
            st_t = f"!dart.stream<i{elt}>"
            out.append(f'{pad}"{opn}"({names}) <{{operandSegmentSizes = array<i32: {n_in}, {n_out}>, patterns = [{maps}]{extra}}}> ({{')
            out.append(f'{pad}^bb0({", ".join(f"{a}: {st_t}" for a in bargs)}):')
            if n_out:
                rs = [f"%y{tag}_{k}" for k in range(n_out)]
                out.append(f'{pad}  {", ".join(rs)} = "test.op"({", ".join(bargs[:n_in])}) : ({", ".join([st_t] * n_in)}) -> ({", ".join([st_t] * n_out)})')
                out.append(f'{pad}  "dart.yield"({", ".join(rs)}) : ({", ".join([st_t] * n_out)}) -> ()')
            else:
                out.append(f'{pad}  "dart.yield"() : () -> ()')
            out.append(f'{pad}}}) {{"c12.tag" = {tag} : i64}} : ({types}) -> ()')
        else:
            out.append(f'{pad}"test.op"({names}) {{"c12.tag" = {tag} : i64}} : ({types}) -> ()')
            for v, _, nc in iv_:  # an opaque op reads and writes every operand
                use_count[v][1] += 1
            for v, _, nc in ov_:
                use_count[v][0] += 1

    def emit_stmts(stmts, vals, paths, out, ind, iv, stmt_def_done, e=0, t=None):
        pad = "  " * ind
        for k_, s in enumerate(stmts):
            tt = k_ if t is None else t  # number of the enclosing top-level statement of the epoch
            local = dict(vals)
            if not stmt_def_done:
                # paths with def = "stmt": (re)defined in front of this op / at the top of this loop's body
                need = sorted(i for i in used_roots([s]) if paths[i % len(paths)].get("def") == "stmt" and derive_from[e][i] is None)
            else:
                need = []
            if s[0] == "op":
                for i in need:
                    local[i] = emit_path(i, paths[i % len(paths)], out, pad, iv)
                emit_op(s, local, out, pad, iv is not None, e, tt, paths, iv)
            else:
                lid = b.nloops
                b.nloops += 1
                cub = s[2].get("ub") if len(s) > 2 and isinstance(s[2], dict) else None
                if cub is None:
                    ub = f"%n{lid}"
                    loop_args.append(ub)
                    b.arg_spec.append(("loop", lid))
                else:
                    ub = f"%cub{lid}"
                    out.append(f'{pad}{ub} = "arith.constant"() <{{value = {int(cub) % 4} : index}}> : () -> index')
                    b.features.add("loop:constant-bounds" + (":empty" if int(cub) % 4 == 0 else ""))
                niv = fresh("i")
                body: list[str] = []
                for i in need:
                    local[i] = emit_path(i, paths[i % len(paths)], body, pad + "  ", niv)
                emit_stmts(s[1], local, paths, body, ind + 1, niv, True, e, tt)
                out.append(f'{pad}"scf.for"(%zero, {ub}, %one) ({{')
                out.append(f"{pad}^bb0({niv}: index):")
                out.extend(body)
                out.append(f'{pad}  "scf.yield"() : () -> ()')
                out.append(f"{pad}}}) : (index, index, index) -> ()")
                b.features.add("loop" + (":nested" if iv is not None else ""))
            if t is None:
                gstmt[0] += 1

    body: list[str] = []
    top_paths: list[str] = []
    end_vals: list = []
    if r.get("dead") and explicit:
        nm, rshape, sp = root_val[0]
        if not roots[0].get("big") and nm is not None and not is_dyn(0) and rlay[0] is None:
            t0 = mtype(shape, elt, None, sp)
            d1 = fresh("d")
            top_paths.append(f'    {d1} = "memref.memory_space_cast"({nm}) {{"c12.x"}} : ({t0}) -> {mtype(shape, elt, None, "L1")}')
            top_paths.append(f'    {fresh("d")} = "snax.layout_cast"({d1}) {{"c12.x"}} : ({mtype(shape, elt, None, "L1")}) -> {mtype(shape, elt, lay_texts[0], "L1")}')
            b.features.add("dead-casts")
    for e_, ep in enumerate(r["epochs"]):
        paths = ep["paths"]
        used = used_roots(ep["stmts"])
        vals = {}
        for i in sorted(used):
            p = paths[i % len(paths)]
            d = p.get("def", "epoch")
            if derive_from[e_][i] is not None:
                vals[i] = emit_path(i, p, body, "    ", None, start=end_vals[derive_from[e_][i]][i])
                continue
            if d == "top":
                vals[i] = emit_path(i, p, top_paths, "    ", None)
            elif d == "epoch":
                vals[i] = emit_path(i, p, body, "    ", None)
            else:
                vals[i] = None  # defined per statement
        end_vals.append(dict(vals))
        emit_stmts(ep["stmts"], vals, paths, body, 2, None, False, e_)

    for a_ssa, g in alts:
        if any(w < g for w in a_writes.get(a_ssa, [])) and any(rd >= g for rd in a_reads.get(a_ssa, [])):
            b.alt_between += 1
    if b.alt_between:
        b.features.add("alt-read:after-writer-and-not-after-last-reader-of-the-first-path")

    for v, (nr, nw, nc) in use_count.items():
        b.max_chain = max(b.max_chain, nc)
        if nc >= 1 and nr >= 1 and nw >= 1:
            b.shared_rw = True
        if nc >= 1 and nr + nw >= 2:
            b.shared_multi = True

    rets = []
    for v in r.get("ret", []):
        nm, rshape, sp = root_val[v % nroots]
        if nm is None:
            nm = fresh("gg")
            body.append(f'    {nm} = "memref.get_global"() <{{name = @g{v % nroots}}}> : () -> {mtype(rshape, elt, rlay[v % nroots], sp)}')
        rets.append((nm, rshape, sp, rlay[v % nroots]))
    ret_names = ", ".join(v for v, _, _, _ in rets)
    ret_types = ", ".join(mtype(s, elt, ly, sp) for _, s, sp, ly in rets)
    all_args = args + [(a, "index") for a in loop_args]
    # argument order: memref arguments first, then loop bounds
    b.arg_spec = [a for a in b.arg_spec if a[0] == "mem"] + [a for a in b.arg_spec if a[0] == "loop"]
    sig = ", ".join(t for _, t in all_args)
    vis = ', sym_visibility = "public"' if r.get("vis") == "public" else ""
    lines = ["builtin.module {"]
    lines += globals_txt
    lines.append(f'  "func.func"() <{{sym_name = "main", function_type = ({sig}) -> ({ret_types}){vis}}}> ({{')
    lines.append(f'  ^bb0({", ".join(f"{a}: {t}" for a, t in all_args)}):')
    lines.append('    %zero = "arith.constant"() <{value = 0 : index}> : () -> index')
    lines.append('    %one = "arith.constant"() <{value = 1 : index}> : () -> index')
    lines += top
    lines += top_paths
    lines += body
    lines.append(f'    "func.return"({ret_names}) : ({ret_types}) -> ()')
    lines.append("  }) : () -> ()")
    lines.append("}")
    b.text = "\n".join(lines)
    if rets:
        b.features.add("returns-memref")
    return b


def run_args(r, built: Built, k: int):
    """arg_spec for machine_c12.run for input vector k."""
    trips = r.get("trips") or [[1]]
    tv = trips[k % len(trips)] or [1]
    out = []
    for a in built.arg_spec:
        if a[0] == "mem":
            out.append(("mem", a[1]))
        else:
            out.append(("int", tv[a[1] % len(tv)] % 4))
    return out


# ------------------------------------------------------------------------------------------------------------------
# constants


def tile_splits(shape, max_depth=3):
    """All ways to write every dimension as a product of 1..max_depth tile bounds > 1 (outermost first); [n] always."""
    def splits(n, depth):
        out = [[n]]
        if depth > 1:
            for d in divisors(n):
                if 1 < d < n:
                    for rest in splits(n // d, depth - 1):
                        out.append([d] + rest)
        return out

    per_dim = [splits(n, max_depth) for n in shape]
    return [list(c) for c in itertools.product(*per_dim)]


def layout_from_order(tb, order, offset=0):
    """Dense layout with tile bounds tb whose strides are nested in `order` (list of [dim, depth], fastest first)."""
    steps = {}
    ext = 1
    for d, k in order:
        steps[(d, k)] = ext
        ext *= tb[d][k]
    return T.layout([[(steps[(d, k)], b) for k, b in enumerate(bs)] for d, bs in enumerate(tb)], offset)


CONST_KINDS = ["direct_memref", "direct_tensor", "arith", "global", "subview_global", "alloc", "global_uninit"]


@st.composite
def constant_case(draw, tier="quick"):
    rank = draw(st.sampled_from([1, 2, 2, 2, 3]))
    tb = []
    total = 1
    for _ in range(rank):
        depth = draw(st.sampled_from([1, 1, 2, 2, 3]))
        bs = []
        for _ in range(depth):
            bnd = draw(st.sampled_from([1, 2, 2, 2, 3, 3, 4, 4, 5, 8]))
            if total * bnd > (256 if tier == "quick" else 2048):
                bnd = 1
            bs.append(bnd)
            total *= bnd
        tb.append(bs)
    pos = [[d, k] for d, bs in enumerate(tb) for k in range(len(bs))]
    order = list(draw(st.permutations(pos)))
    order2 = list(draw(st.permutations(pos))) if draw(st.integers(0, 2)) == 0 else None
    return dict(kind=draw(st.sampled_from(CONST_KINDS[:5] * 3 + CONST_KINDS[5:])), tb=tb, order=order, order2=order2, elt=draw(st.sampled_from([8, 16, 32])),
                seed=draw(st.integers(0, 4000)), unit_step=draw(st.sampled_from([0, 0, 1, 7])),
                sub=dict(mult=[draw(st.sampled_from([1, 2, 2, 3])) for _ in range(rank)], tile=[draw(st.integers(0, 2)) for _ in range(rank)]),
                space=draw(st.sampled_from(["L1", "L3", None])))


def constant_exhaustive(tier="quick"):
    """All permutations for every tile split with <= 4 strides of a list of small shapes, all kinds, widths rotate."""
    shapes = [[4], [8], [6], [12], [2, 2], [4, 4], [2, 4], [4, 2], [3, 4], [6, 2], [4, 6], [2, 2, 2], [2, 3, 2], [4, 2, 2]]
    if tier == "thorough":
        shapes += [[16], [8, 4], [4, 8], [6, 6], [8, 8], [12, 2], [2, 12], [3, 2, 4], [4, 4, 2], [2, 2, 2, 2], [4, 2, 2, 3]]
    n = 0
    for shape in shapes:
        for tb in tile_splits(shape):
            pos = [[d, k] for d, bs in enumerate(tb) for k in range(len(bs))]
            if len(pos) > 4:
                continue
            for order in itertools.permutations(pos):
                if len(pos) >= 2:
                    # a chain of two layout casts: the first layout is `order` (all permutations), the second a rotation of it
                    for kind in ("arith", "global"):
                        n += 1
                        o2 = [list(p) for p in (order[1 + n % (len(pos) - 1):] + order[:1 + n % (len(pos) - 1)])]
                        yield dict(kind=kind, tb=tb, order=[list(p) for p in order], order2=o2, elt=[8, 16, 32][n % 3], seed=n % 997,
                                   unit_step=0, sub=dict(mult=[1] * len(shape), tile=[0] * len(shape)), space=["L1", "L3", None][n % 3])
                for kind in CONST_KINDS[:5]:
                    n += 1
                    yield dict(kind=kind, tb=tb, order=[list(p) for p in order], elt=[8, 16, 32][n % 3], seed=n % 997, unit_step=0,
                               sub=dict(mult=[2] + [1] * (len(shape) - 1), tile=[(n // 3) % 2] + [0] * (len(shape) - 1)), space=["L1", "L3", None][n % 3])
