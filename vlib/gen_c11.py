"""C11 generators and builders.

(a) `size_case`: memref.alloc cases for `memref-to-snax` (element types, no layout / static TSL / dynamic TSL, alignments,
    run-time sizes reaching the alloc through test.op results, constants, memref.dim or block arguments).
(b) `place_case`: allocation programs for `snax-allocate`: one function whose body is a sequence of top-level statements
    (snax.alloc + unrealized cast exactly as memref-to-snax emits them, views, opaque uses at top level and nested in
    scf.for / scf.if, memref-valued scf.if results, values merged from two buffers of equal type by arith.select / scf.if),
    plus memory descriptions (start, capacity) and the mode.

Recipes are plain JSON. `build_size` / `build_place` turn a recipe into MLIR text (generic form) plus the facts the oracle
needs. The liveness computed in `build_place` is the reference: it is computed on the recipe while the text is emitted and
never looks at xDSL use lists.
"""
from __future__ import annotations

from hypothesis import strategies as st

from . import gen_tsl as G

ELSIZE = {"i8": 1, "i16": 2, "i32": 4, "i64": 8, "f32": 4, "i1": 1, "f16": 2, "f64": 8}
ELTS = ["i8", "i16", "i32", "i64", "f32"] * 4 + ["i1", "f16", "f64"]


def _q(x):
    return "?" if x is None else str(x)


def tsl_text(r) -> str:
    """Text form of a layout recipe, written from the README notation (not with the printer of the code under test)."""
    parts = []
    for dim in r["dims"]:
        parts.append("[" + ", ".join(_q(b) for _, b in dim) + "] -> (" + ", ".join(_q(s) for s, _ in dim) + ")")
    off = r.get("offset", 0)
    if off:
        parts.append(f"offset: {off}")
    return "#tsl.tsl<" + ", ".join(parts) + ">"


def struct_type(rank: int) -> str:
    return f"!llvm.struct<(!llvm.ptr, !llvm.ptr, i32, !llvm.array<{rank} x i32>, !llvm.array<{rank} x i32>)>"


# ================================================================================================
# (a) size formula


@st.composite
def one_alloc(draw, tier="quick"):
    elt = draw(st.sampled_from(ELTS))
    align = draw(st.sampled_from([None, 1, 2, 8, 64, 64, 256, 4096]))  # memref.alloc: positive power of two or absent
    space = draw(st.sampled_from(["L1"] * 18 + ["L3", None]))
    src = [draw(st.sampled_from(["testop", "testop", "testop", "const", "dim", "dim"] + (["arg"] if draw(st.integers(0, 9)) == 0 else [])))
           for _ in range(4)]
    k = draw(st.integers(0, 9))
    base = dict(elt=elt, align=align, space=space, src=src)
    if k <= 1:
        n = draw(st.sampled_from([0, 1, 1, 1, 2, 2, 2, 3, 3, 4]))
        shape = [draw(st.sampled_from([1, 1, 2, 3, 4, 5, 7, 8, 16, 17])) for _ in range(n)]
        dyn = [draw(st.integers(0, 2)) == 0 for _ in range(n)]
        return dict(base, kind="none", shape=shape, dyn=dyn)
    if k <= 5:
        c = draw(G.static_layout(tier))
        return dict(base, kind="tsl", fam=c["fam"], layout=c["layout"], rt=[dim[0][1] for dim in c["layout"]["dims"]])
    c = draw(G.dynamic_layout(tier))
    return dict(base, kind="tsl", fam="dynamic", layout=c["layout"], rt=c["rt"])


@st.composite
def size_case(draw, tier="quick"):
    n = draw(st.sampled_from([1, 1, 1, 2]))
    return dict(allocs=[draw(one_alloc(tier)) for _ in range(n)])


def inner_prod(dim) -> int:
    p = 1
    for _, b in dim[1:]:
        p *= b
    return p


def alloc_shapes(a):
    """(run-time shape, type shape with None for dynamic dims) of one alloc recipe."""
    if a["kind"] == "none":
        rt = list(a["shape"])
        ty = [None if d else s for s, d in zip(a["shape"], a["dyn"])]
        return rt, ty
    dims = a["layout"]["dims"]
    rt_b = [dim[0][1] if dim[0][1] is not None else a["rt"][d] for d, dim in enumerate(dims)]
    rt = [rt_b[d] * inner_prod(dim) for d, dim in enumerate(dims)]
    ty = [None if dim[0][1] is None else rt[d] for d, dim in enumerate(dims)]
    return rt, ty


def memref_type(elt, shape, layout_text=None, space=None) -> str:
    s = "x".join(_q(x) for x in shape)
    t = f"memref<{s}x{elt}" if shape else f"memref<{elt}"
    if layout_text:
        t += ", " + layout_text
    if space is not None:
        t += f', "{space}"'
    return t + ">"


class SizeBuilt:
    def __init__(self):
        self.text = ""
        self.args = []  # run-time argument values for @f
        self.allocs = []  # per alloc: dict(rt_shape, ty_shape, type)


def build_size(r) -> SizeBuilt:
    out = SizeBuilt()
    body = []
    # one shared source memref for the memref.dim sources, one index argument per "arg" source
    dim_vals: list[int] = []
    arg_vals: list[int] = []
    plans = []
    for ai, a in enumerate(r["allocs"]):
        rt, ty = alloc_shapes(a)
        srcs = []
        for d, t in enumerate(ty):
            if t is None:
                kind = a["src"][d % len(a["src"])]
                if kind == "dim":
                    dim_vals.append(rt[d])
                    srcs.append(("dim", len(dim_vals) - 1))
                elif kind == "arg":
                    arg_vals.append(rt[d])
                    srcs.append(("arg", len(arg_vals) - 1))
                else:
                    srcs.append((kind, rt[d]))
            else:
                srcs.append(None)
        plans.append((a, rt, ty, srcs))
    src_rank = max(1, len(dim_vals))
    src_ty = memref_type("i8", [None] * src_rank)
    sig = [src_ty] + ["index"] * len(arg_vals)
    blockargs = ["%src: " + src_ty] + [f"%x{i}: index" for i in range(len(arg_vals))]
    for ai, (a, rt, ty, srcs) in enumerate(plans):
        operands = []
        for d, s in enumerate(srcs):
            if s is None:
                continue
            nm = f"%d{ai}_{d}"
            if s[0] == "dim":
                body.append(f'    %i{ai}_{d} = "arith.constant"() <{{value = {s[1]} : index}}> : () -> index')
                body.append(f'    {nm} = "memref.dim"(%src, %i{ai}_{d}) : ({src_ty}, index) -> index')
            elif s[0] == "arg":
                nm = f"%x{s[1]}"
            elif s[0] == "const":
                body.append(f'    {nm} = "arith.constant"() <{{value = {s[1]} : index}}> : () -> index')
            else:
                body.append(f'    {nm} = "test.op"() {{c11.rt = {s[1]} : index}} : () -> index')
            operands.append(nm)
        lay = tsl_text(a["layout"]) if a["kind"] == "tsl" else None
        mt = memref_type(a["elt"], ty, lay, a["space"])
        props = [f"operandSegmentSizes = array<i32: {len(operands)}, 0>"]
        if a["align"] is not None:
            props.insert(0, f"alignment = {a['align']} : i64")
        body.append(f'    %a{ai} = "memref.alloc"({", ".join(operands)}) <{{{", ".join(props)}}}> : ({", ".join(["index"] * len(operands))}) -> {mt}')
        body.append(f'    "test.op"(%a{ai}) {{c11.alloc = {ai} : i64}} : ({mt}) -> ()')
        out.allocs.append(dict(rt_shape=rt, ty_shape=ty, type=mt))
    lines = ['"builtin.module"() ({',
             f'  "func.func"() <{{sym_name = "f", function_type = ({", ".join(sig)}) -> ()}}> ({{',
             f'  ^bb0({", ".join(blockargs)}):']
    lines += body
    lines += ['    "func.return"() : () -> ()', "  }) : () -> ()", "}) : () -> ()"]
    out.text = "\n".join(lines)
    out.args = [dict(shape=list(dim_vals) or [0])] + list(arg_vals)
    return out


# ================================================================================================
# (b) placement

ALIGNS = [1, 8, 64, 256]
SPACES = [None, "L1", "L3", "Test"]

DEFAULT_MEMS = [dict(name="L1", start=0x10000000, cap=65536), dict(name="Test", start=0, cap=100)]


@st.composite
def memories(draw):
    """Two memory descriptions under the names the tool registers (L1 and the small Test memory). Mostly the real ones."""
    out = []
    for dflt in DEFAULT_MEMS:
        k = draw(st.sampled_from([0] * 5 + [5] * 6 + [11]))
        if k <= 4:
            out.append(dict(dflt))
            continue
        cap = draw(st.sampled_from([64, 100, 100, 256, 1000, 4096, 65536]))
        if k <= 10:
            start = 256 * draw(st.sampled_from([0, 1, 16, 4096, 0x100000, 0x800000 - 256, 0x800000]))
        else:
            start = draw(st.sampled_from([4, 8, 100, 0x10000010, 0x10000040, 1000]))
        out.append(dict(name=dflt["name"], start=start, cap=cap))
    return out


_REF = st.tuples(st.sampled_from([0, 0, 0, 1, 1, 1, 2, 2, 3]), st.integers(0, 11)).map(list)


@st.composite
def _size_spec(draw, cap, fill_often=True):
    k = draw(st.sampled_from(([0] if fill_often else []) + [1, 2] * 3 + [3] * 10 + ([] if fill_often else [1] * 8 + [3] * 24 + [0])))
    if k == 0:
        return dict(fill=draw(st.sampled_from([-1, 0, 0, 1])))
    if k <= 2:
        return dict(size=draw(st.sampled_from([1, 2, 3, 8, 13, 16, 40, 64])))
    hi = max(1, cap // draw(st.sampled_from([3, 4, 8, 8, 16, 16, 32])))
    return dict(size=draw(st.integers(1, hi)))


_ALIGN_POOL = ALIGNS * 12 + [10, 14, 3, 10] + [None, 0]
_ALIGN_POOL_SMALL = [1] * 16 + [8] * 22 + [64] * 5 + [256] + [10, 14, 3, 10] + [None, 0]


@st.composite
def _alloc_stmt(draw, mems, dyn_ok=False, main=1, fill_often=True):
    mem = draw(st.sampled_from([main] * 5 + [1 - main]))
    a = dict(op="alloc", mem=mem, elt=draw(st.sampled_from(["i8", "i8", "i32"])), rank2=draw(st.sampled_from([0, 0, 2, 3, 4])),
             aty=draw(st.sampled_from(["i64", "i64", "i32"])))
    # layout of the allocated memref: 0 = none, g > 0 = tiled-strided with every step multiplied by 1 + g (gaps), optional offset
    lay = draw(st.sampled_from([0, 0, 0, 0, 1, 2]))
    a.update(draw(_size_spec(mems[mem]["cap"] // (2 * (1 + lay)), fill_often)))
    if "fill" not in a:
        a["lay"] = lay
        a["loff"] = draw(st.sampled_from([0, 0, 3]))
    a["align"] = draw(st.sampled_from(_ALIGN_POOL if mems[mem]["cap"] >= 1000 else _ALIGN_POOL_SMALL))
    if dyn_ok and draw(st.sampled_from([True, False, False])):
        a["dynsize"] = True
    return a


@st.composite
def _view_stmt(draw):
    kind = draw(st.sampled_from(["subview", "subview", "subview", "lcast", "scast", "ucast"]))
    return dict(op="view", kind=kind, src=draw(_REF), p=[draw(st.integers(0, 7)) for _ in range(6)])


@st.composite
def _use_stmt(draw):
    n = draw(st.sampled_from([1, 1, 1, 2]))
    return dict(op="use", refs=[draw(_REF) for _ in range(n)])


@st.composite
def _inner(draw, depth):
    k = draw(st.integers(0, 9))
    if k <= 5 or depth >= 2:
        return draw(_use_stmt()) if k != 5 else draw(_view_stmt())
    if k <= 7:
        return draw(_view_stmt())
    return draw(_ctl_stmt(depth + 1))


@st.composite
def _ctl_stmt(draw, depth=0):
    nb = draw(st.integers(1, 3))
    if draw(st.booleans()):
        return dict(op="for", body=[draw(_inner(depth)) for _ in range(nb)])
    ne = draw(st.integers(0, 2))
    return dict(op="if", then=[draw(_inner(depth)) for _ in range(nb)], **{"else": [draw(_inner(depth)) for _ in range(ne)]})


@st.composite
def _merge_stmt(draw, a=None):
    view = None
    if draw(st.sampled_from([True, False, False])):
        view = dict(op="view", kind=draw(st.sampled_from(["subview", "subview", "lcast", "scast", "ucast"])), src=[0, 0],
                    p=[draw(st.integers(0, 7)) for _ in range(6)])
    return dict(op="merge", kind=draw(st.sampled_from(["select", "if"])), a=a if a is not None else draw(_REF),
                b=draw(st.integers(0, 5)), view=view)


@st.composite
def _pingpong(draw, mems, main, fill_often):
    """a = alloc; b = alloc like a; [direct uses]; g = select/if(a | b) (or of equal views); [more statements]; c = alloc like a;
    use(c); late uses of g at top level or nested. Both a and b must stay live until the last use of g."""
    out = [draw(_alloc_stmt(mems, False, main, False)), dict(op="alloc", like=-1, align=draw(st.sampled_from(ALIGNS)), aty="i64")]
    for _ in range(draw(st.integers(0, 2))):
        out.append(dict(op="use", refs=[[2, draw(st.sampled_from([-1, -2]))]]))
    out.append(draw(_merge_stmt(a=[2, draw(st.sampled_from([-1, -2]))])))
    for _ in range(draw(st.integers(0, 2))):
        out.append(draw(st.one_of(_use_stmt(), _view_stmt())))
    out.append(dict(op="alloc", like=-1, align=draw(st.sampled_from(ALIGNS)), aty="i64"))
    out.append(dict(op="use", refs=[[2, -1]]))
    for _ in range(draw(st.integers(1, 2))):
        u = dict(op="use", refs=[[3, draw(st.integers(0, 3))]])
        k = draw(st.sampled_from([0, 0, 1, 2]))
        out.append(u if k == 0 else dict(op="for", body=[u]) if k == 1 else dict(op="if", then=[u], **{"else": []}))
    return out


@st.composite
def place_case(draw, tier="quick"):
    mode = draw(st.sampled_from(["static", "minimalloc", "minimalloc", "auto"]))
    mems = draw(memories())
    dyn_ok = mode == "auto" and draw(st.sampled_from([True] + [False] * 5))
    n = draw(st.integers(3, 12 if tier == "quick" else 18))
    main = draw(st.sampled_from([0, 1, 1]))
    stmts = [draw(_alloc_stmt(mems, dyn_ok, main, mode == "static"))]
    if draw(st.booleans()):
        stmts.append(draw(_alloc_stmt(mems, dyn_ok, main, mode == "static")))
    for _ in range(n - 1):
        k = draw(st.sampled_from(list(range(20))))
        if k <= 5:
            stmts.append(draw(_alloc_stmt(mems, dyn_ok, main, mode == "static")))
        elif k <= 9:
            stmts.append(draw(_view_stmt()))
        elif k <= 15:
            stmts.append(draw(_use_stmt()))
        elif k <= 17:
            stmts.append(draw(_ctl_stmt()))
        elif k == 18:
            stmts.append(draw(_merge_stmt()))
        else:
            stmts.append(dict(op="ifres", a=draw(_REF), b=draw(_REF)))
    if not dyn_ok and draw(st.sampled_from([True, False, False, False])):
        # ping-pong pattern spliced in after a prefix of the random statements
        at = draw(st.integers(1, len(stmts)))
        stmts[at:at] = draw(_pingpong(mems, main, mode == "static"))
    # tail: late uses, preferably through views
    for _ in range(draw(st.integers(0, 3))):
        stmts.append(dict(op="use", refs=[[draw(st.sampled_from([1, 1, 0, 3])), draw(st.integers(0, 11))]]))
    ret = draw(_REF) if draw(st.sampled_from([True] + [False] * 7)) else None
    out = dict(mode=mode, mems=mems, stmts=stmts, ret=ret)
    if not dyn_ok and draw(st.sampled_from([True] + [False] * 5)):
        # the allocs are written as memref.alloc and go through memref-to-snax + canonicalize first (the order snaxc uses)
        out["front"] = True
    return out


def align_up(x: int, a) -> int:
    if not a or a <= 1:
        return x
    return ((x + a - 1) // a) * a


class _Val:
    __slots__ = ("name", "ty", "elt", "shape", "strides", "offset", "space", "roots", "is_root", "depth")

    def __init__(self, **kw):
        for k, v in kw.items():
            setattr(self, k, v)


def _strided_type(elt, shape, strides, offset, space, force=False) -> str:
    ident = offset == 0
    acc = 1
    for s, st_ in zip(reversed(shape), reversed(strides)):
        if st_ != acc:
            ident = False
        acc *= s
    if ident and not force:
        return memref_type(elt, shape, None, space)
    return memref_type(elt, shape, f"strided<[{', '.join(str(s) for s in strides)}], offset: {offset}>", space)


class PlaceBuilt:
    def __init__(self):
        self.text = ""
        self.bufs = []  # dict(k, mem (name), size|None, align (int|None), stmt, dyn)
        self.n_stmts = 0
        self.stmts = []  # the statements really emitted (front mode may append uses)
        self.access = []  # per top-level stmt: set of roots accessed by an opaque op (through any alias)
        self.access_view = []  # per top-level stmt: roots accessed through a value that is not the buffer's own cast
        self.access_merged = []  # per top-level stmt: roots accessed through a value merged from several buffers
        self.access_merged2 = []  # per top-level stmt: roots accessed through a value merged from several buffers, except the
        #                           first-allocated source of that value
        self.features = set()
        self.ret_roots = set()
        self.static_expect = None  # ("ok", {k: addr}) | ("full", k)


def build_place(r) -> PlaceBuilt:
    out = PlaceBuilt()
    front = bool(r.get("front"))
    mems = {m["name"]: m for m in r["mems"]}
    mem_names = [m["name"] for m in r["mems"]]
    L: list[str] = []
    L.append('    %c0 = "arith.constant"() <{value = 0 : index}> : () -> index')
    L.append('    %c1 = "arith.constant"() <{value = 1 : index}> : () -> index')
    L.append('    %c3 = "arith.constant"() <{value = 3 : index}> : () -> index')
    L.append('    %cond = "test.op"() : () -> i1')
    counter = [0]
    bump = {n: mems[n]["start"] for n in mem_names}
    static_addr: dict[int, int] = {}
    static_full = [None]

    def fresh(prefix):
        counter[0] += 1
        return f"%{prefix}{counter[0]}"

    def pick(vis, ref):
        """Resolve a reference [class, index] against the visible values: class 1 prefers views, class 2 roots, class 3 values
        merged from several buffers (arith.select / scf.if results and their views)."""
        if not vis:
            return None
        cls, i = ref
        pool = vis
        if cls == 1:
            pool = [v for v in vis if not v.is_root] or vis
        elif cls == 2:
            pool = [v for v in vis if v.is_root] or vis
        elif cls == 3:
            pool = [v for v in vis if len(v.roots) > 1] or vis
        return pool[i % len(pool)]

    cur = dict(access=set(), aview=set(), amerge=set(), amerge2=set())

    def access(v):
        """Record that an opaque op (or the return) of the current top-level statement uses value v."""
        cur["access"].update(v.roots)
        if not v.is_root:
            cur["aview"].update(v.roots)
        if len(v.roots) > 1:
            cur["amerge"].update(v.roots)
            cur["amerge2"].update(k for k in v.roots if k != min(v.roots))

    def emit_view(s, vis, pad, depth, src=None):
        src = src if src is not None else pick(vis, s["src"])
        if src is None:
            return None
        p = s["p"]
        kind = s["kind"]
        if kind == "subview" and src.strides is None:
            kind = "scast"
        nm = fresh("v")
        if kind == "subview":
            offs, sizes, strs = [], [], []
            for d, e in enumerate(src.shape):
                t = 1 + p[(3 * d + 2) % 6] % 2
                sz = 1 + p[(3 * d + 1) % 6] % max(1, (e + t - 1) // t)
                o = p[(3 * d) % 6] % (e - (sz - 1) * t)
                offs.append(o)
                sizes.append(sz)
                strs.append(t)
            nstr = [a * b for a, b in zip(src.strides, strs)]
            noff = src.offset + sum(o * a for o, a in zip(offs, src.strides))
            ty = _strided_type(src.elt, sizes, nstr, noff, src.space, force=True)
            arr = lambda xs: ", ".join(str(x) for x in xs)  # noqa: E731
            L.append(f'{pad}{nm} = "memref.subview"({src.name}) <{{operandSegmentSizes = array<i32: 1, 0, 0, 0>, '
                     f'static_offsets = array<i64: {arr(offs)}>, static_sizes = array<i64: {arr(sizes)}>, '
                     f'static_strides = array<i64: {arr(strs)}>}}> : ({src.ty}) -> {ty}')
            v = _Val(name=nm, ty=ty, elt=src.elt, shape=sizes, strides=nstr, offset=noff, space=src.space)
            out.features.add("view:subview")
        elif kind == "lcast":
            if src.strides is not None:
                lay = dict(dims=[[[st_, e]] for st_, e in zip(src.strides, src.shape)], offset=src.offset)
                ty = memref_type(src.elt, src.shape, tsl_text(lay), src.space)
            else:
                ty = src.ty
            L.append(f'{pad}{nm} = "snax.layout_cast"({src.name}) : ({src.ty}) -> {ty}')
            v = _Val(name=nm, ty=ty, elt=src.elt, shape=list(src.shape), strides=None, offset=src.offset, space=src.space)
            out.features.add("view:layout_cast")
        elif kind == "scast":
            others = [sp for sp in SPACES if sp != src.space]
            space = others[p[0] % len(others)]
            if src.strides is not None:
                ty = _strided_type(src.elt, src.shape, src.strides, src.offset, space)
            else:
                # keep the (opaque) layout text, replace the memory space
                ty = _swap_space(src.ty, src.space, space)
            L.append(f'{pad}{nm} = "memref.memory_space_cast"({src.name}) : ({src.ty}) -> {ty}')
            v = _Val(name=nm, ty=ty, elt=src.elt, shape=list(src.shape), strides=src.strides, offset=src.offset, space=space)
            out.features.add("view:memory_space_cast")
        else:
            L.append(f'{pad}{nm} = "builtin.unrealized_conversion_cast"({src.name}) : ({src.ty}) -> {src.ty}')
            v = _Val(name=nm, ty=src.ty, elt=src.elt, shape=list(src.shape), strides=src.strides, offset=src.offset, space=src.space)
            out.features.add("view:unrealized_cast")
        v.roots = src.roots
        v.is_root = False
        v.depth = depth
        if not src.is_root:
            out.features.add("view-chain")
        vis.append(v)
        return v

    def emit_use(s, vis, pad, depth, tag):
        vals = [pick(vis, ref) for ref in s["refs"]]
        vals = [v for v in vals if v is not None]
        if not vals:
            return
        for v in vals:
            access(v)
            if not v.is_root:
                out.features.add("use:through-view")
            if depth > 0:
                out.features.add("use:nested")
        L.append(f'{pad}"test.op"({", ".join(v.name for v in vals)}) {tag}: ({", ".join(v.ty for v in vals)}) -> ()')

    def emit_body(stmts, vis, pad, depth):
        local = list(vis)
        for s in stmts:
            emit_stmt(s, local, pad, depth, "")

    def emit_ctl(s, vis, pad, depth, tag):
        if s["op"] == "for":
            L.append(f'{pad}"scf.for"(%c0, %c3, %c1) ({{')
            L.append(f'{pad}^bb0({fresh("i")}: index):')
            emit_body(s["body"], vis, pad + "  ", depth + 1)
            L.append(f'{pad}  "scf.yield"() : () -> ()')
            L.append(f'{pad}}}) {tag}: (index, index, index) -> ()')
            out.features.add("ctl:for")
        else:
            L.append(f'{pad}"scf.if"(%cond) ({{')
            emit_body(s["then"], vis, pad + "  ", depth + 1)
            L.append(f'{pad}  "scf.yield"() : () -> ()')
            L.append(f'{pad}}}, {{')
            emit_body(s["else"], vis, pad + "  ", depth + 1)
            L.append(f'{pad}  "scf.yield"() : () -> ()')
            L.append(f'{pad}}}) {tag}: (i1) -> ()')
            out.features.add("ctl:if")

    def emit_stmt(s, vis, pad, depth, tag):
        op = s["op"]
        if op == "view":
            emit_view(s, vis, pad, depth)
        elif op == "use":
            emit_use(s, vis, pad, depth, tag)
        elif op in ("for", "if"):
            emit_ctl(s, vis, pad, depth, tag)

    top: list[_Val] = []
    specs: list[dict] = []
    pad = "    "
    stmts = list(r["stmts"])
    t = -1
    while t + 1 < len(stmts) or front:
        if t + 1 >= len(stmts):
            # front mode: canonicalize erases a buffer nothing accesses (and then the pass under test sees an alloc without
            # cast); give every such buffer one direct use at the end
            accessed = set().union(*out.access) if out.access else set()
            missing = [b["k"] for b in out.bufs if b["k"] not in accessed]
            if not missing:
                break
            stmts.append(dict(op="use", refs=[[2, missing[0]]]))
        t += 1
        s = stmts[t]
        cur = dict(access=set(), aview=set(), amerge=set(), amerge2=set())
        tag = f"{{c11.stmt = {t} : i64}} "
        op = s["op"]
        if op == "alloc":
            k = len(out.bufs)
            if "like" in s and specs:
                # a second buffer of exactly the same memref type as an earlier one (ping-pong buffers): own alignment only
                s = dict(specs[s["like"] % len(specs)], align=s.get("align"), aty=s.get("aty", "i64"))
                out.features.add("alloc:like-earlier")
            mem = mem_names[s["mem"] % len(mem_names)]
            align = s.get("align")
            dyn = bool(s.get("dynsize"))
            if front:
                # memref-to-snax converts L1 allocs only; memref.alloc wants a positive power of two (or no) alignment
                mem = "L1"
                dyn = False
                if not align or align & (align - 1):
                    align = None
            m = mems[mem]
            if "fill" in s:
                size = max(1, m["start"] + m["cap"] - align_up(bump[mem], align) + s["fill"])
                out.features.add("size:fill%+d" % s["fill"])
            else:
                size = max(1, int(s["size"]))
            elt = s.get("elt", "i8")
            if size % ELSIZE[elt] != 0:
                elt = "i8"
            n = size // ELSIZE[elt]
            shape = [n]
            f = s.get("rank2", 0)
            if f and n % f == 0 and n // f >= 1:
                shape = [f, n // f]
            strides = [1] * len(shape)
            for d in range(len(shape) - 2, -1, -1):
                strides[d] = strides[d + 1] * shape[d + 1]
            specs.append(dict({kk: vv for kk, vv in s.items() if kk not in ("fill", "like")}, size=size))
            lay = None
            if s.get("lay") and "fill" not in s and not dyn:
                lay = dict(dims=[[[st_ * (1 + s["lay"]), e]] for st_, e in zip(strides, shape)], offset=s.get("loff", 0))
                size = (int(G.all_addrs(lay).max()) + 1) * ELSIZE[elt]  # bytes the layout can touch (reference)
                out.features.add("alloc:tsl-layout")
            # static bump simulation (reference for the documented "memory full" refusal)
            if static_full[0] is None and not dyn:
                a0 = align_up(bump[mem], align)
                if a0 + size > m["start"] + m["cap"]:
                    static_full[0] = k
                else:
                    static_addr[k] = a0
                    bump[mem] = a0 + size
            ty = memref_type(elt, shape, tsl_text(lay) if lay else None, mem)
            if front:
                props = ["operandSegmentSizes = array<i32: 0, 0>"]
                if align is not None:
                    props.insert(0, f"alignment = {align} : i64")
                L.append(f'{pad}%m{k} = "memref.alloc"() <{{{", ".join(props)}}}> : () -> {ty}')
            else:
                shp = []
                for d, e in enumerate(shape):
                    L.append(f'{pad}%sh{k}_{d} = "arith.constant"() <{{value = {e} : index}}> : () -> index')
                    shp.append(f"%sh{k}_{d}")
                if dyn:
                    L.append(f'{pad}%sz{k} = "test.op"() : () -> index')
                else:
                    L.append(f'{pad}%sz{k} = "arith.constant"() <{{value = {size} : index}}> : () -> index')
                props = [f'memory_space = "{mem}"']
                if align is not None:
                    props.append(f"alignment = {align} : {s.get('aty', 'i64')}")
                sty = struct_type(len(shape))
                L.append(f'{pad}%a{k} = "snax.alloc"({", ".join([f"%sz{k}"] + shp)}) <{{{", ".join(props)}}}> : '
                         f'({", ".join(["index"] * (1 + len(shp)))}) -> {sty}')
                L.append(f'{pad}%m{k} = "builtin.unrealized_conversion_cast"(%a{k}) {{c11.buf = {k} : i64}} : ({sty}) -> {ty}')
            top.append(_Val(name=f"%m{k}", ty=ty, elt=elt, shape=shape, strides=None if lay else strides, offset=0, space=mem,
                            roots=frozenset([k]), is_root=True, depth=0))
            out.bufs.append(dict(k=k, mem=mem, size=None if dyn else size, align=align, stmt=t, dyn=dyn, rank=len(shape), shape=shape))
        elif op == "ifres":
            a = pick(top, s["a"])
            b = pick(top, s["b"])
            if a is not None:
                if b is None or b.ty != a.ty:
                    b = a
                nm = fresh("r")
                L.append(f'{pad}{nm} = "scf.if"(%cond) ({{')
                L.append(f'{pad}  "scf.yield"({a.name}) : ({a.ty}) -> ()')
                L.append(f'{pad}}}, {{')
                L.append(f'{pad}  "scf.yield"({b.name}) : ({b.ty}) -> ()')
                L.append(f'{pad}}}) {tag}: (i1) -> ({a.ty})')
                top.append(_Val(name=nm, ty=a.ty, elt=a.elt, shape=list(a.shape), strides=a.strides, offset=a.offset, space=a.space,
                                roots=frozenset(a.roots | b.roots), is_root=False, depth=0))
                out.features.add("region-result")
        elif op == "merge":
            # one value that is buffer A (or a view of A) on one path and buffer B (or the same view of B) on the other
            a = pick(top, s["a"])
            if a is not None:
                cands = [v for v in top if v.ty == a.ty and not (v.roots & a.roots)] or [v for v in top if v.ty == a.ty and v is not a] or [a]
                b = cands[s["b"] % len(cands)]
                if s.get("view"):
                    a = emit_view(s["view"], top, pad, 0, src=a)
                    b = emit_view(s["view"], top, pad, 0, src=b)
                    if b.ty != a.ty:  # cannot happen for equal source types; keep the IR valid anyway
                        b = a
                nm = fresh("g")
                if s["kind"] == "select":
                    L.append(f'{pad}{nm} = "arith.select"(%cond, {a.name}, {b.name}) {tag}: (i1, {a.ty}, {b.ty}) -> {a.ty}')
                    out.features.add("merge:select")
                else:
                    L.append(f'{pad}{nm} = "scf.if"(%cond) ({{')
                    L.append(f'{pad}  "scf.yield"({a.name}) : ({a.ty}) -> ()')
                    L.append(f'{pad}}}, {{')
                    L.append(f'{pad}  "scf.yield"({b.name}) : ({b.ty}) -> ()')
                    L.append(f'{pad}}}) {tag}: (i1) -> ({a.ty})')
                    out.features.add("merge:if")
                if a.roots != b.roots:
                    out.features.add("merge:two-buffers")
                top.append(_Val(name=nm, ty=a.ty, elt=a.elt, shape=list(a.shape), strides=a.strides, offset=a.offset, space=a.space,
                                roots=frozenset(a.roots | b.roots), is_root=False, depth=0))
        else:
            emit_stmt(s, top, pad, 0, tag)
        out.access.append(cur["access"])
        out.access_view.append(cur["aview"])
        out.access_merged.append(cur["amerge"])
        out.access_merged2.append(cur["amerge2"])
    # terminator
    cur = dict(access=set(), aview=set(), amerge=set(), amerge2=set())
    rv = pick(top, r["ret"]) if r.get("ret") is not None else None
    if rv is not None:
        access(rv)
        out.ret_roots = set(rv.roots)
        L.append(f'{pad}"func.return"({rv.name}) : ({rv.ty}) -> ()')
        fty = f"() -> ({rv.ty})"
        out.features.add("returns-buffer")
    else:
        L.append(f'{pad}"func.return"() : () -> ()')
        fty = "() -> ()"
    out.access.append(cur["access"])
    out.access_view.append(cur["aview"])
    out.access_merged.append(cur["amerge"])
    out.access_merged2.append(cur["amerge2"])
    out.n_stmts = len(stmts)
    out.stmts = stmts
    lines = ['"builtin.module"() ({', f'  "func.func"() <{{sym_name = "f", function_type = {fty}}}> ({{']
    lines += L
    lines += ["  }) : () -> ()", "}) : () -> ()"]
    out.text = "\n".join(lines)
    out.static_expect = ("full", static_full[0]) if static_full[0] is not None else ("ok", static_addr)
    return out


def _swap_space(ty: str, old, new) -> str:
    """Replace the trailing memory space of a memref type text."""
    body = ty[:-1]
    if old is not None and body.endswith(f', "{old}"'):
        body = body[: -len(f', "{old}"')]
    if new is not None:
        body += f', "{new}"'
    return body + ">"


def last_index(per_stmt, k, default):
    """Index of the last statement whose set contains k."""
    last = default
    for t, s in enumerate(per_stmt):
        if k in s:
            last = t
    return last
