"""C15 machine: symbolic buffer contents + two-core epoch machine (DESIGN.md 2.3), self-contained.

Memref values are descriptors (root, first row, number of rows): every generated buffer is a 2-D
`rows x T` tensor and every view selects whole rows, so an element region is a row interval of a root.

* Roots. Function arguments are roots named by the recipe ("G0", "a1", ...). Every `memref.alloc` is a
  new *physical* root; its *logical* name is the `c15.buf` attribute the generator puts on the alloc.
  `pipeline-duplicate-buffers` clones the alloc (attributes included), so the copies of one logical
  buffer are physical roots (name, 0), (name, 1), ... of the same logical name.
* Contents. Each (physical root, row) holds an interned symbolic term. Initial content is
  init(physical root, row). `memref.copy` moves terms row by row. A compute op (`linalg.generic`,
  `dart.*`) writes f(tag, output position, row, input terms[, old output terms if the op declares
  `c15.rw`]) to every output row. Terms are interned in a table shared by the runs that are compared,
  so term equality is integer equality.
* Cores and epochs. `memref.copy` runs on the data-mover core, compute ops on the compute core (the rule
  of snaxc/util/dispatching_rules.py for these op kinds, fixed here by construction of the generator).
  `snax.cluster_sync_op` is executed by every core and ends the epoch. Two accesses are ordered iff they
  are on the same core or in different epochs, so "for all interleavings" is decided by:
  no two accesses of different cores in one epoch touch overlapping rows of one physical root with at
  least one write.
  A read racing with a write is reported (`conflicts()`): the reader's input depends on the interleaving.
  Two racing writes are not a difference by themselves (nobody may ever look): at the end of the epoch the
  rows both wrote are set to a fresh `nondet` term, so the race shows iff a later op reads them or they
  are still there at the end (`ww` lists them for the evidence).
"""
from __future__ import annotations

from collections import Counter

from .interp import Interp, InterpError
from .machines import Machine

DYN = -9223372036854775808
DM, COMPUTE = "dm", "compute"


class Root:
    __slots__ = ("name", "serial", "rows", "kind")

    def __init__(self, name, serial, rows, kind):
        self.name = name  # logical name
        self.serial = serial  # which physical copy of the logical buffer
        self.rows = rows
        self.kind = kind  # "arg" | "alloc"

    def key(self):
        return (self.name, self.serial)

    def __repr__(self):
        return f"{self.name}#{self.serial}"


class Mem:
    """memref descriptor"""

    __slots__ = ("root", "off", "n", "view")

    def __init__(self, root, off, n, view=False):
        self.root = root
        self.off = off
        self.n = n
        self.view = view  # reached through a memref.subview (an index-op result for the pipeline passes)

    def __repr__(self):
        return f"{self.root!r}[{self.off}:{self.off + self.n}]"


class Terms:
    """Hash-consing of symbolic terms (shared between the runs that are compared)."""

    def __init__(self):
        self.table: dict = {}
        self.back: list = []

    def mk(self, *t):
        i = self.table.get(t)
        if i is None:
            i = len(self.back)
            self.table[t] = i
            self.back.append(t)
        return i

    def show(self, i, depth=4):
        t = self.back[i]
        if depth == 0:
            return "..."
        out = []
        for x in t:
            if isinstance(x, tuple):
                out.append("(" + ",".join(self._show_any(y, depth - 1) for y in x) + ")")
            else:
                out.append(str(x))
        return t[0] + "<" + " ".join(out[1:]) + ">"

    def _show_any(self, y, depth):
        if isinstance(y, tuple):
            return "(" + ",".join(self._show_any(z, depth) for z in y) + ")"
        if isinstance(y, int) and 0 <= y < len(self.back):
            return self.show(y, depth)
        return str(y)


def _tag(op):
    a = op.attributes.get("c15.tag")
    return a.data if a is not None else None


class Event:
    __slots__ = ("tag", "epoch", "core", "operands", "in_terms", "n")

    def __init__(self, tag, epoch, core, operands, in_terms, n):
        self.tag = tag
        self.epoch = epoch
        self.core = core
        self.operands = operands  # tuple of (mode, logical root name, physical serial, first row, rows, via subview)
        self.in_terms = in_terms  # tuple (per read operand) of tuple of terms
        self.n = n

    def cov_key(self):
        """(tag, index-dependent operands) with the copies of a duplicated buffer identified"""
        return (self.tag, tuple((o[0], o[1], o[3], o[4]) for o in self.operands))

    def flow_key(self):
        return (self.tag, self.in_terms)


class C15Machine(Machine):
    def __init__(self, terms: Terms, arg_roots):
        self.terms = terms
        self.mem: dict = {}  # (root key, row) -> term
        self.written: dict = {}  # root key -> set(rows)
        self.epoch = 0
        self.events: list[Event] = []
        self.acc: list = []  # (epoch, core, root key, lo, hi, "R"|"W", event number, via view)
        self.ww: list = []  # cross-core write/write conflicts (pairs of accesses)
        self._epoch_start = 0
        self.nalloc: dict = {}
        self.roots: dict = {}
        self.oob: list = []  # accesses outside the root's rows
        self.barriers = 0
        for r in arg_roots:
            self.roots[r.key()] = r

    # ---- contents
    def _get(self, root, row):
        k = (root.key(), row)
        t = self.mem.get(k)
        if t is None:
            t = self.terms.mk("init", root.name, root.serial, row)
            self.mem[k] = t
        return t

    def _read(self, m: Mem, core, n):
        self._log(m, core, "R", n)
        return tuple(self._get(m.root, m.off + r) for r in range(m.n))

    def _write(self, m: Mem, vals, core, n):
        self._log(m, core, "W", n)
        w = self.written.setdefault(m.root.key(), set())
        for r, v in enumerate(vals):
            self.mem[(m.root.key(), m.off + r)] = v
            w.add(m.off + r)

    def _log(self, m, core, mode, n):
        self.acc.append((self.epoch, core, m.root.key(), m.off, m.off + m.n, mode, n, m.view))
        if m.off < 0 or m.off + m.n > m.root.rows:
            self.oob.append((repr(m), mode, n))

    # ---- ops
    def exec(self, op, operands, env):
        name = op.name
        if name == "memref.alloc":
            a = op.attributes.get("c15.buf")
            lname = a.data if a is not None else f"anon{len(self.roots)}"
            k = self.nalloc.get(lname, 0)
            self.nalloc[lname] = k + 1
            shape = op.results[0].type.get_shape()
            root = Root(lname, k, shape[0], "alloc")
            self.roots[root.key()] = root
            return [Mem(root, 0, shape[0])]
        if name == "memref.subview":
            src = operands[0]
            dyn = list(operands[1:1 + len(op.offsets)])
            if len(op.sizes) or len(op.strides):
                raise InterpError("subview with dynamic sizes/strides")
            offs = []
            for v in op.static_offsets.get_values():
                offs.append(dyn.pop(0) if v == DYN else v)
            sizes = list(op.static_sizes.get_values())
            strides = list(op.static_strides.get_values())
            if any(s != 1 for s in strides) or any(o != 0 for o in offs[1:]):
                raise InterpError("subview that is not a block of whole rows")
            return [Mem(src.root, src.off + offs[0], sizes[0], True)]
        if name == "snax.cluster_sync_op":
            self.close_epoch()
            self.epoch += 1
            self.barriers += 1
            return []
        if name == "memref.copy":
            n = len(self.events)
            src, dst = operands
            if src.n != dst.n:
                raise InterpError("copy between tiles of different size")
            vals = self._read(src, DM, n)
            self._write(dst, vals, DM, n)
            self.events.append(Event(_tag(op), self.epoch, DM, (self._od("r", src), self._od("w", dst)), (vals,), n))
            return []
        if name == "linalg.generic" or name.startswith("dart."):
            n = len(self.events)
            tag = _tag(op)
            if name == "linalg.generic":
                n_in = len(op.inputs)
            else:
                n_in = len(op.inputs)
            ins = operands[:n_in]
            outs = operands[n_in:]
            rw = "c15.rw" in op.attributes
            ods = []
            in_terms = []
            for m in ins:
                if isinstance(m, Mem):
                    in_terms.append(self._read(m, COMPUTE, n))
                    ods.append(self._od("r", m))
                else:
                    in_terms.append(("scalar", m))
                    ods.append(("s", m, 0, 0, 0, False))
            olds = []
            for m in outs:
                if rw:
                    old = self._read(m, COMPUTE, n)
                    in_terms.append(old)
                    olds.append(old)
                else:
                    olds.append(None)
            in_terms = tuple(in_terms)
            for k, m in enumerate(outs):
                vals = [self.terms.mk("f", tag, k, r, in_terms) for r in range(m.n)]
                self._write(m, vals, COMPUTE, n)
                ods.append(self._od("rw" if rw else "w", m))
            self.events.append(Event(tag, self.epoch, COMPUTE, tuple(ods), in_terms, n))
            return []
        return NotImplemented

    @staticmethod
    def _od(mode, m: Mem):
        return (mode, m.root.name, m.root.serial, m.off, m.n, m.view)

    def close_epoch(self):
        """rows written by both cores inside the epoch just ended hold an interleaving-dependent value"""
        ws = [a for a in self.acc[self._epoch_start:] if a[5] == "W"]
        self._epoch_start = len(self.acc)
        for i in range(len(ws)):
            a = ws[i]
            for j in range(i + 1, len(ws)):
                b = ws[j]
                if a[1] != b[1] and a[2] == b[2] and a[3] < b[4] and b[3] < a[4]:
                    self.ww.append((a, b))
                    root = self.roots[a[2]]
                    for row in range(max(a[3], b[3]), min(a[4], b[4])):
                        self.mem[(a[2], row)] = self.terms.mk("nondet", root.name, root.serial, row, self.epoch)

    # ---- results
    def conflicts(self):
        """cross-core read/write conflicts inside one epoch (epoch rule)"""
        out = []
        by = {}
        for a in self.acc:
            by.setdefault((a[0], a[2]), []).append(a)
        for (_ep, _root), lst in by.items():
            if len(lst) < 2:
                continue
            for i in range(len(lst)):
                a = lst[i]
                for j in range(i + 1, len(lst)):
                    b = lst[j]
                    if a[1] == b[1]:
                        continue
                    if a[5] == b[5]:
                        continue  # read/read is no conflict; write/write is handled by close_epoch
                    if a[3] < b[4] and b[3] < a[4]:
                        out.append((a, b))
        return out

    def coverage(self) -> Counter:
        return Counter(e.cov_key() for e in self.events)

    def flow(self) -> Counter:
        return Counter(e.flow_key() for e in self.events)

    def touched(self) -> set:
        s = set()
        for (_ep, _core, rk, lo, hi, mode, _n, _v) in self.acc:
            for r in range(lo, hi):
                s.add((rk[0], r, mode))
        return s

    def final_args(self) -> dict:
        """final term of every written row of every function-argument root"""
        out = {}
        for rk, rows in self.written.items():
            if self.roots[rk].kind != "arg":
                continue
            for r in rows:
                out[(rk[0], r)] = self.mem[(rk, r)]
        return out

    def n_physical(self):
        return dict(self.nalloc)


def run(module, fname, arg_specs, terms, scalar_args=(), step_budget=200000):
    """arg_specs: list of (logical name, rows) for the memref arguments, in order; then scalar (index) args."""
    roots = [Root(n, 0, rows, "arg") for n, rows in arg_specs]
    m = C15Machine(terms, roots)
    it = Interp(module, m, step_budget=step_budget)
    it.call(fname, [Mem(r, 0, r.rows) for r in roots] + list(scalar_args))
    m.close_epoch()
    return m
