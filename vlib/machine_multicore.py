"""Multi-core barrier machine (DESIGN.md 2.3) for C13 / C14.

One function is executed once per core id. The machine records, for the core it simulates,
  * trace    : tagged operations in execution order  (tag, op name, evaluated operands)
  * accesses : buffer accesses (root buffer, [lo, hi), read/write, SSA value used, dynamic instance) labelled with the epoch
  * barriers : barrier sites in execution order; a barrier closes the current epoch
  * skipped  : scf.for ops that ran zero times (dynamic instance); skipped_branches: scf.if regions not taken
Two accesses are ordered iff they are on the same core or in different epochs, hence the race rule: no two accesses by different
cores in the same epoch may conflict (same root, overlapping interval, at least one write).

Memrefs are one-dimensional, unit stride: a run-time memref value is View(root, off, size).

Two ways to decide which core runs an op:
  * `kinds` given (tag -> dm|compute|neutral): *virtual dispatch* by construction (dm iff core == nb_cores-1, compute iff core == 0);
    used on IR that has no core guards yet (original program, IR after insert-sync-barrier);
  * `kinds=None`: the IR decides through `snax_cluster_core_idx` guards (IR after dispatch-regions).
"""
from __future__ import annotations

from dataclasses import dataclass

from .interp import Interp, InterpError
from .machines import Machine

DYN = -9223372036854775808


@dataclass(frozen=True)
class View:
    root: tuple
    off: int
    size: int

    def key(self):
        return (self.root, self.off, self.size)


def tag_of(op):
    a = op.attributes.get("tag")
    if a is None:
        return None
    return a.value.data


class Access:
    __slots__ = ("core", "epoch", "root", "lo", "hi", "write", "tag", "ssa", "op", "iters", "what")

    def __init__(self, core, epoch, root, lo, hi, write, tag, ssa, op, iters, what):
        self.core, self.epoch, self.root, self.lo, self.hi = core, epoch, root, lo, hi
        self.write, self.tag, self.ssa, self.op, self.iters, self.what = write, tag, ssa, op, iters, what

    def describe(self):
        return dict(core=self.core, epoch=self.epoch, root=list(self.root), region=[self.lo, self.hi], write=self.write, tag=self.tag,
                    op=self.what, iters=[iv for _, iv in self.iters])


BARRIER_CALL = "snax_cluster_hw_barrier"
CORE_IDX_CALL = "snax_cluster_core_idx"


def enclosing_loops(op):
    """scf.for ops enclosing op, outermost first."""
    out = []
    p = op.parent_op()
    while p is not None:
        if p.name == "scf.for":
            out.append(p)
        p = p.parent_op()
    out.reverse()
    return out


class MultiCoreMachine(Machine):
    def __init__(self, core: int, nb_cores: int, kinds: dict | None = None, log_accesses: bool = True):
        self.core = core
        self.nb = nb_cores
        self.kinds = kinds
        self.trace: list = []
        self.accesses: list[Access] = []
        self.barriers: list = []  # (site op, iteration vector)
        self.skipped: list = []  # (for op, iteration vector of enclosing loops)
        self.skipped_branches: list = []  # (scf.if op, region not taken, iteration vector)
        self.epoch = 0
        self.nalloc = 0
        self.core_idx_calls = 0
        self.log_accesses = log_accesses
        self._loops_cache: dict = {}

    # ------------------------------------------------------------------ helpers
    def runs_here(self, tag) -> bool:
        if self.kinds is None or tag is None:
            return True
        k = self.kinds.get(tag, "neutral")
        if k == "dm":
            return self.core == self.nb - 1
        if k == "compute":
            return self.core == 0
        return True

    def iters(self, op, env):
        loops = self._loops_cache.get(op)
        if loops is None:
            loops = enclosing_loops(op)
            self._loops_cache[op] = loops
        return tuple((f, env[f.body.block.args[0]]) for f in loops)

    @staticmethod
    def ev(v):
        return v.key() if isinstance(v, View) else v

    def event(self, op, operands):
        t = tag_of(op)
        if t is not None:
            self.trace.append((t, op.name, tuple(self.ev(v) for v in operands)))

    def access(self, op, env, ssa, view, write, what):
        if not self.log_accesses:
            return
        if not isinstance(view, View):
            raise InterpError(f"{op.name}: memref operand is not a view: {view!r}")
        self.accesses.append(Access(self.core, self.epoch, view.root, view.off, view.off + view.size, write, tag_of(op), ssa, op,
                                    self.iters(op, env), what))

    def barrier(self, op, env):
        self.barriers.append((op, self.iters(op, env)))
        self.epoch += 1

    def on_zero_trip(self, op, env):
        self.skipped.append((op, self.iters(op, env)))

    def on_branch_not_taken(self, op, region, env):
        self.skipped_branches.append((op, region, self.iters(op, env)))

    # ------------------------------------------------------------------ ops
    def exec(self, op, operands, env):
        n = op.name
        if n == "memref.alloc":
            self.nalloc += 1
            self.event(op, [])
            return [View(("alloc", self.nalloc), 0, op.results[0].type.get_shape()[0])]
        if n == "memref.subview":
            src = operands[0]
            so = op.static_offsets.get_values() if hasattr(op.static_offsets, "get_values") else [a for a in op.static_offsets.iter_values()]
            ss = op.static_sizes.get_values() if hasattr(op.static_sizes, "get_values") else [a for a in op.static_sizes.iter_values()]
            if len(so) != 1:
                raise InterpError("only 1-D subviews are modelled")
            off = so[0]
            if off == DYN:
                off = operands[1]
            size = ss[0]
            if size == DYN:
                raise InterpError("dynamic subview size not modelled")
            return [View(src.root, src.off + off, size)]
        if n == "memref.copy":
            if self.runs_here(tag_of(op)):
                self.event(op, operands)
                self.access(op, env, op.operands[0], operands[0], False, "copy.src")
                self.access(op, env, op.operands[1], operands[1], True, "copy.dst")
            return []
        if n == "linalg.generic" or n in ("dart.operation", "dart.schedule", "dart.access_pattern"):
            if self.runs_here(tag_of(op)):
                self.event(op, operands)
                nin = len(op.inputs)
                for i, (ssa, v) in enumerate(zip(op.operands, operands)):
                    if isinstance(v, View):
                        self.access(op, env, ssa, v, i >= nin, n + (".out" if i >= nin else ".in"))
            return []
        if n == "memref.dealloc":
            self.event(op, operands)
            v = operands[0]
            # end of life of the whole root buffer: its memory may be handed to a later allocation
            if self.log_accesses:
                self.accesses.append(Access(self.core, self.epoch, v.root, -(1 << 40), 1 << 40, True, tag_of(op), op.operands[0], op,
                                            self.iters(op, env), "dealloc"))
            return []
        if n == "snax.cluster_sync_op":
            self.event(op, [])
            self.barrier(op, env)
            return []
        if n == "test.op":
            self.event(op, operands)
            for r in op.regions:
                if r.blocks:
                    kind, _ = self.interp.run_region(r, [], env)
                    if kind not in ("fallthrough", "yield"):
                        raise InterpError(f"test.op region left by {kind}")
            t = tag_of(op) or 0
            return [1000 + t + i for i, _ in enumerate(op.results)]
        if n in ("pipeline.pipeline", "pipeline.stage"):
            # NoTerminator region ops of the snax pipeline dialect (stages without ins/outs): run the body once, in order, on every core
            for r in op.regions:
                if r.blocks:
                    kind, _ = self.interp.run_region(r, [], env)
                    if kind != "fallthrough":
                        raise InterpError(f"{n} region left by {kind}")
            return []
        if n == "test.termop":
            return []
        return NotImplemented

    def call(self, name, args, op, env):
        if name == CORE_IDX_CALL:
            self.core_idx_calls += 1
            return [self.core]
        if name == BARRIER_CALL:
            self.barrier(op, env)
            return []
        self.event(op, args)
        return [7000 + i for i, _ in enumerate(op.results)]


class MCInterp(Interp):
    """Interp that additionally reports scf.for ops that run zero times (needed to attribute a race to a skipped barrier)."""

    def exec_op(self, op, env):
        if op.name == "scf.for":
            if self.get(env, op.lb) >= self.get(env, op.ub):
                self.m.on_zero_trip(op, env)
        elif op.name == "scf.if":
            skipped = op.false_region if self.get(env, op.cond) else op.true_region
            if skipped.blocks:
                self.m.on_branch_not_taken(op, skipped, env)
        return super().exec_op(op, env)


def make_args(arg_values):
    """('arg', i) placeholders -> 16-element root views."""
    return [View(a, 0, 16) if isinstance(a, tuple) and a and a[0] == "arg" else a for a in arg_values]


def run_core(module, fname, arg_values, core, nb_cores, kinds=None, log_accesses=True, step_budget=200000):
    m = MultiCoreMachine(core, nb_cores, kinds, log_accesses)
    it = MCInterp(module, m, step_budget=step_budget)
    m.result = it.call(fname, make_args(arg_values))
    return m


# ------------------------------------------------------------------------------------ oracle helpers

def overlap(a: Access, b: Access) -> bool:
    return a.root == b.root and a.lo < b.hi and b.lo < a.hi


def conflicts_in(accesses_by_core: list[list[Access]], same_epoch_only=True):
    """All cross-core conflicting pairs (a, b) with a.core < b.core."""
    out = []
    n = len(accesses_by_core)
    for c1 in range(n):
        for c2 in range(c1 + 1, n):
            for a in accesses_by_core[c1]:
                for b in accesses_by_core[c2]:
                    if same_epoch_only and a.epoch != b.epoch:
                        continue
                    if a.op is b.op:
                        continue  # one op executed by every core (dealloc): not a cross-core dependency
                    if (a.write or b.write) and overlap(a, b):
                        out.append((a, b))
    return out


def preorder_index(module):
    return {op: i for i, op in enumerate(module.walk())}


def seq_cmp(inst_a, inst_b, pre):
    """Sequential (single-thread) order of two dynamic instances (op, iters): -1 a first, 1 b first, 0 same.
    Returns (order, carrying loop or None): the loop whose iteration counter differs first."""
    opa, ia = inst_a
    opb, ib = inst_b
    for (fa, va), (fb, vb) in zip(ia, ib):
        if fa is not fb:
            break
        if va != vb:
            return (-1 if va < vb else 1), fa
    pa, pb = pre[opa], pre[opb]
    return (-1 if pa < pb else (1 if pa > pb else 0)), None


def core_guard_ancestors(op):
    """scf.if ancestors of `op` whose condition is computed from the result of snax_cluster_core_idx."""
    out = []
    p = op.parent_op()
    while p is not None:
        if p.name == "scf.if" and depends_on_core_idx(p.cond):
            out.append(p)
        p = p.parent_op()
    return out


def depends_on_core_idx(val, limit=64) -> bool:
    seen = set()
    work = [val]
    while work and limit > 0:
        limit -= 1
        v = work.pop()
        if v in seen:
            continue
        seen.add(v)
        owner = v.owner
        if getattr(owner, "name", None) == "func.call" and owner.callee.root_reference.data == CORE_IDX_CALL:
            return True
        if hasattr(owner, "operands"):
            work.extend(owner.operands)
    return False
