"""Hypothesis strategies, builders and reference semantics for C19 (canonical forms / alternative representations).

Recipes are plain JSON. Affine expression trees are nested lists:
    ["d", i] | ["c", v] | ["+", l, r] | ["*", l, r] (one side is a literal ["c", v]) | ["//", l, ["c", k>0]] | ["%", l, ["c", k>0]]
"""
from __future__ import annotations

import itertools

import numpy as np
from hypothesis import strategies as st

from xdsl.ir.affine import (
    AffineBinaryOpExpr,
    AffineBinaryOpKind,
    AffineConstantExpr,
    AffineDimExpr,
    AffineExpr,
)

KIND = {
    "+": AffineBinaryOpKind.Add,
    "*": AffineBinaryOpKind.Mul,
    "//": AffineBinaryOpKind.FloorDiv,
    "%": AffineBinaryOpKind.Mod,
}

# ---------------------------------------------------------------- affine expressions


def build_expr(t, mode: str) -> AffineExpr:
    """mode 'raw': AffineBinaryOpExpr constructor (no simplification); mode 'ops': the operator API (what the parser uses)."""
    k = t[0]
    if k == "d":
        return AffineDimExpr(int(t[1]))
    if k == "c":
        return AffineConstantExpr(int(t[1]))
    lhs = build_expr(t[1], mode)
    rhs = build_expr(t[2], mode)
    if mode == "raw":
        return AffineBinaryOpExpr(KIND[k], lhs, rhs)
    if k == "+":
        return lhs + rhs
    if k == "*":
        return lhs * rhs
    if k == "//":
        return lhs // rhs
    if k == "%":
        return lhs % rhs
    raise AssertionError(k)


def tree_size(t) -> int:
    return 1 if t[0] in ("d", "c") else 1 + tree_size(t[1]) + tree_size(t[2])


def tree_depth(t) -> int:
    return 0 if t[0] in ("d", "c") else 1 + max(tree_depth(t[1]), tree_depth(t[2]))


def tree_ops(t, acc=None) -> set:
    acc = set() if acc is None else acc
    if t[0] not in ("d", "c"):
        acc.add(t[0])
        tree_ops(t[1], acc)
        tree_ops(t[2], acc)
    return acc


def expr_size(e: AffineExpr) -> int:
    return sum(1 for _ in e.dfs())


class EvalError(Exception):
    pass


def eval_expr(e: AffineExpr, pts: np.ndarray) -> np.ndarray:
    """Own evaluator (independent of AffineExpr.eval): value of `e` on every row of pts (N, ndims), int64.
    floordiv / mod are floor semantics (MLIR affine semantics for a positive divisor)."""
    if isinstance(e, AffineConstantExpr):
        return np.full(pts.shape[0], int(e.value), dtype=np.int64)
    if isinstance(e, AffineDimExpr):
        if not (0 <= e.position < pts.shape[1]):
            raise EvalError(f"dim d{e.position} outside the map's {pts.shape[1]} dims")
        return pts[:, e.position]
    if isinstance(e, AffineBinaryOpExpr):
        a = eval_expr(e.lhs, pts)
        b = eval_expr(e.rhs, pts)
        if e.kind is AffineBinaryOpKind.Add:
            return a + b
        if e.kind is AffineBinaryOpKind.Mul:
            return a * b
        if e.kind in (AffineBinaryOpKind.FloorDiv, AffineBinaryOpKind.Mod, AffineBinaryOpKind.CeilDiv):
            if (b <= 0).any():
                raise EvalError("division / modulo by a non-positive value")
            if e.kind is AffineBinaryOpKind.FloorDiv:
                return np.floor_divide(a, b)
            if e.kind is AffineBinaryOpKind.Mod:
                return np.mod(a, b)
            return -np.floor_divide(-a, b)
    raise EvalError(f"unknown expression node {type(e).__name__}")


def _lcg_points(n, ndims, lo=-1000, hi=1000, seed=12345):
    """Fixed table of pseudo-random points (deterministic, no RNG state): the 'random points beyond the box'."""
    out = []
    x = seed
    for _ in range(n):
        row = []
        for _ in range(ndims):
            x = (x * 6364136223846793005 + 1442695040888963407) % (1 << 64)
            row.append(lo + (x >> 33) % (hi - lo + 1))
        out.append(row)
    return np.array(out, dtype=np.int64).reshape(n, ndims)


_FIXED = {n: _lcg_points(40, n) for n in range(0, 7)}
_BOX = {}


def box(ndims, side=5):
    key = (ndims, side)
    if key not in _BOX:
        if ndims == 0:
            _BOX[key] = np.zeros((1, 0), dtype=np.int64)
        else:
            _BOX[key] = np.indices((side,) * ndims, dtype=np.int64).reshape(ndims, -1).T.copy()
    return _BOX[key]


def points_from_seed(seed, count, ndims, lo=-1000, hi=1000):
    """`count` points in lo..hi derived from one Hypothesis-drawn integer (the recipe stores the points themselves)."""
    return _lcg_points(count, ndims, lo, hi, seed=int(seed) | 1).tolist() if ndims else [[] for _ in range(count)]


SEEDS = st.integers(0, (1 << 62) - 1)


def eval_points(ndims, extra):
    """box 0..4 per dim, 40 fixed points in -1000..1000, plus the recipe's own points (Hypothesis drawn)."""
    ex = np.array([list(p)[:ndims] for p in extra], dtype=np.int64).reshape(len(extra), ndims)
    return np.concatenate([box(ndims), _FIXED[ndims], ex], axis=0)


_CACHE: dict = {}


def I(lo, hi):
    """cached st.integers (building strategy objects inside composites dominates generation time otherwise)"""
    key = ("i", lo, hi)
    if key not in _CACHE:
        _CACHE[key] = st.integers(lo, hi)
    return _CACHE[key]


def S(*vals):
    """cached st.sampled_from"""
    key = ("s", vals)
    if key not in _CACHE:
        _CACHE[key] = st.sampled_from(list(vals))
    return _CACHE[key]


def L(lo, hi, n):
    """cached fixed-length list of integers"""
    key = ("l", lo, hi, n)
    if key not in _CACHE:
        _CACHE[key] = st.lists(st.integers(lo, hi), min_size=n, max_size=n)
    return _CACHE[key]


def LS(vals, n):
    key = ("ls", vals, n)
    if key not in _CACHE:
        _CACHE[key] = st.lists(st.sampled_from(list(vals)), min_size=n, max_size=n)
    return _CACHE[key]


CONSTS = st.sampled_from([0, 0, 1, 1, -1, 2, 2, 3, 4, -2, -3, 5, 6, 7, 8, -4, -5, -6, -7, -8])
DIVS = st.sampled_from([1, 1, 2, 2, 3, 4, 4, 5, 6, 7, 8])


_I10 = st.integers(0, 9)
_I4 = st.integers(0, 3)
_I3 = st.integers(0, 2)
_I5 = st.integers(0, 4)
_KINDS_ALL = st.sampled_from(["+", "+", "+", "+", "*", "*", "*", "//", "%", "//", "%"])
_KINDS_LIN = st.sampled_from(["+", "+", "+", "+", "*", "*", "*"])
_DIMS = {n: st.integers(0, n - 1) for n in range(1, 7)}


def gen_tree(draw, depth, ndims, linear=False, pool=(0, 1, 1, 2, 3), root=True, dense=False):
    """Expression tree of depth <= `depth` (plain function driven by a composite's `draw`).
    Biased towards additions (reassociation / ordering rules interact there). Constants come mostly from a small
    per-recipe pool that contains k and -k, so that folding to 0 / 1 really happens."""
    def const():
        return ["c", pool[draw(_I5)] if draw(_I3) else draw(CONSTS)]

    if depth == 0 or (not root and not dense and draw(_I10) < (1 if depth >= 3 else 2)):
        if ndims == 0 or draw(_I4) == 0:
            return const()
        return ["d", draw(_DIMS[ndims])]
    k = draw(_KINDS_LIN if linear else _KINDS_ALL)
    if dense and draw(_I3):
        k = "+"  # dense trees are mostly sums (many terms to reorder / reassociate)
    if k == "+":
        return ["+", gen_tree(draw, depth - 1, ndims, linear, pool, False, dense), gen_tree(draw, depth - 1, ndims, linear, pool, False, dense)]
    sub = gen_tree(draw, depth - 1, ndims, linear, pool, False, dense)
    if k == "*":
        c = const()
        return ["*", c, sub] if draw(_I4) == 0 else ["*", sub, c]
    return [k, sub, ["c", draw(DIVS)]]


@st.composite
def tree_st(draw, depth, ndims, linear=False, pool=(0, 1, 1, 2, 3)):
    return gen_tree(draw, depth, ndims, linear, pool)


_P18 = st.integers(1, 8)
_P28 = st.integers(2, 8)
_PX = st.sampled_from([0, 1, -1, "nb"])
_PY = st.sampled_from([0, 1, 1, 2])


def gen_pool(draw):
    a = draw(_P18)
    b = draw(_P28)
    x = draw(_PX)
    return [a, -a, b, -b if x == "nb" else x, draw(_PY)]


_MODES = st.sampled_from(["raw", "ops"])
_ND14 = st.integers(1, 4)
_DEPTH_Q = st.sampled_from([4, 3, 2, 1, 2, 3, 3, 4, 4])
_DEPTH_T = st.sampled_from([4, 3, 2, 1, 2, 3, 3, 4, 4, 5, 5, 6])
_NRES = st.sampled_from([1, 1, 1, 2, 3])


@st.composite
def canon_recipe(draw, tier="quick"):
    maxd = 4 if tier == "quick" else 6
    mode = draw(_MODES)
    ndims = draw(_ND14)
    # depth distribution: the stated quantifier is depth <= 4; thorough goes to 6
    depth = draw(_DEPTH_T if maxd >= 6 else _DEPTH_Q)
    nres = draw(_NRES)
    pool = gen_pool(draw)
    dense = draw(_I4) == 0  # no early leaves: full trees of the chosen depth
    exprs = [gen_tree(draw, depth, ndims, False, pool, True, dense) for _ in range(nres)]
    pts = points_from_seed(draw(SEEDS), 10, ndims)
    return dict(mode=mode, n=ndims, exprs=exprs, pts=pts)


def exhaustive_canon(tier):
    """All expressions of depth <= 2 over 2 dims and constants {-1,0,1,2,3} (divisors 1,2,3), both build modes (thorough)."""
    if tier != "thorough":
        return
    consts = [-1, 0, 1, 2, 3]
    leaves = [["d", 0], ["d", 1]] + [["c", c] for c in consts]

    def level(sub):
        out = []
        for a, b in itertools.product(sub, sub):
            out.append(["+", a, b])
        for a in sub:
            for c in consts:
                out.append(["*", a, ["c", c]])
                if a[0] != "c":
                    out.append(["*", ["c", c], a])
            for c in (1, 2, 3):
                out.append(["//", a, ["c", c]])
                out.append(["%", a, ["c", c]])
        return out

    d1 = leaves + level(leaves)
    d2 = level(d1)
    pts = [[-7, 3], [5, -9], [-1000, 999], [-1, -1], [13, 8], [-2, 7], [100, -100], [-3, 0], [0, -5], [17, 23]]
    for mode in ("ops", "raw"):
        for t in d1 + d2:
            yield dict(mode=mode, n=2, exprs=[t], pts=pts)


# ---------------------------------------------------------------- affine transforms


def gen_matrix(draw, r, n, lo=-16, hi=16):
    if r * n == 0:
        return [[] for _ in range(r)]
    if draw(I(0, 3)) == 0:
        flat = draw(LS((0, 0, 0, 1, 1, -1, 2), r * n))
    else:
        flat = draw(L(lo, hi, r * n))
    return [flat[i * n:(i + 1) * n] for i in range(r)]


@st.composite
def transform_recipe(draw, tier="quick"):
    r = draw(I(1, 5))
    n = draw(S(2, 1, 0, 1, 2, 3, 3, 4, 5))
    m = draw(I(0, 5)) if draw(I(0, 7)) == 0 else draw(I(1, 5))
    A = gen_matrix(draw, r, n)
    b = draw(L(-16, 16, r))
    B = gen_matrix(draw, n, m)
    bb = draw(L(-16, 16, n))
    npts = draw(I(1, 6))
    xs = points_from_seed(draw(SEEDS), npts, n)
    ys = points_from_seed(draw(SEEDS), npts, m)
    # a map given as expression trees (only + and *const: pure linear; sometimes with floordiv/mod: must be refused)
    nd = draw(I(1, 4))
    linear = draw(I(0, 7)) != 0
    pool = gen_pool(draw)
    trees = [gen_tree(draw, draw(_DEPTH_Q), nd, linear, pool) for _ in range(draw(I(1, 2)))]
    tpts = points_from_seed(draw(SEEDS), 4, nd)
    return dict(A=A, b=b, B=B, bb=bb, n=n, m=m, xs=xs, ys=ys, map=dict(n=nd, exprs=trees, mode=draw(_MODES), pts=tpts))


# ---------------------------------------------------------------- access patterns


@st.composite
def access_recipe(draw, tier="quick"):
    kind = draw(S("sched", "templ", "sched_coll", "templ_coll"))
    n = draw(I(1, 5))
    max_pts = 2048 if tier == "quick" else 8192
    bounds = []
    prod = 1
    for _ in range(n):
        cap = max(1, min(6, max_pts // prod))
        choice = draw(I(0, 9))
        if choice < 4:
            bnd = 1
        elif choice == 4 and kind.startswith("templ"):
            bnd = None
        else:
            bnd = draw(I(1, cap))
        bounds.append(bnd)
        prod *= 3 if bnd is None else bnd
    nops = 1 if not kind.endswith("coll") else draw(I(1, 3))
    ops = []
    for _ in range(nops):
        r = draw(I(1, 3))
        ops.append(dict(A=gen_matrix(draw, r, n, -5, 5), b=draw(LS((0, 0, 1, -3, 7), r))))
    return dict(kind=kind, bounds=bounds, ops=ops, fill=draw(S(2, 3)), k=draw(I(1, n)))


# ---------------------------------------------------------------- stride patterns


def temporal_sequence(ub, ts):
    """Ordered list of temporal addresses of the loop nest; dimension 0 innermost (DESIGN 2.3 / StridePattern docstring)."""
    ub = [int(u) for u in ub]
    ts = [int(t) for t in ts]
    if any(u <= 0 for u in ub):
        return np.zeros((0,), dtype=np.int64)
    if not ub:
        return np.zeros((1,), dtype=np.int64)
    grids = np.indices(tuple(reversed(ub)), dtype=np.int64).reshape(len(ub), -1)  # row 0 = outermost = dim n-1
    strides = np.array(list(reversed(ts)), dtype=np.int64)
    return strides @ grids


@st.composite
def stride_recipe(draw, tier="quick"):
    n = draw(I(0, 6))
    max_pts = 4096 if tier == "quick" else 32768
    ub, ts = [], []
    prod = 1
    acc_ub, acc_ts = None, None  # what a correct canonicaliser currently holds as last entry
    for i in range(n):
        cap = max(1, min(8, max_pts // max(1, prod)))
        c = draw(I(0, 23))
        if c == 0:
            u = 0
        elif c <= 6:
            u = 1
        else:
            u = draw(I(2, cap)) if cap >= 2 else 1
        s_choice = draw(I(0, 9))
        if s_choice <= 2 and acc_ub is not None:
            t = acc_ub * acc_ts  # mergeable with the accumulated entry
        elif s_choice <= 4 and i > 0:
            t = ub[-1] * ts[-1]  # product of the *original* previous entry (differs after a bound-1 / bound-0 entry)
        elif s_choice == 5 and i > 0:
            t = ts[-1]
        elif s_choice == 6:
            t = 0
        else:
            t = draw(S(1, 2, 4, 8, 8, 16, 64, 3, -8, -1, 24, 32))
        ub.append(u)
        ts.append(t)
        if u == 0:
            acc_ub, acc_ts = 0, 0
        elif u == 1:
            pass
        elif acc_ub is not None and acc_ub * acc_ts == t:
            acc_ub *= u
        else:
            acc_ub, acc_ts = u, t
        prod *= max(1, u)
    ss = draw(LS((8, 8, 1, 64, 256, 0, -8, 16), draw(I(0, 3))))
    if draw(I(0, 2)) and 0 in ss:
        ss = [s or 8 for s in ss]
    return dict(ub=ub, ts=ts, ss=ss)


def exhaustive_stride(tier):
    """All patterns with <= 3 temporal dims, bounds in {0,1,2,3}, strides in {0,1,2,3,4,6}, ss in {[], [8]} (thorough)."""
    if tier != "thorough":
        return
    for n in (0, 1, 2, 3):
        for ub in itertools.product((0, 1, 2, 3), repeat=n):
            for ts in itertools.product((0, 1, 2, 3, 4, 6), repeat=n):
                for ss in ([], [8]):
                    yield dict(ub=list(ub), ts=list(ts), ss=ss)


# ---------------------------------------------------------------- pack_bitlist


@st.composite
def pack_recipe(draw, tier="quick"):
    w = draw(S(32, 32, 64))
    nf = draw(I(1, 9))
    layout = draw(S("packed", "packed", "free"))
    args = []  # runtime values of opaque SSA inputs (block arguments / results of ops not emitted by pack_bitlist), unsigned residues
    fields = []
    pos = 0
    for i in range(nf):
        if layout == "packed":
            remaining = w - pos
            if remaining <= 0:
                break
            width = draw(I(1, min(remaining, draw(S(1, 4, 8, 8, 16, 24)))))
            gap = draw(S(0, 0, 0, 1, 3))
            off = min(pos + gap, w - width)
            pos = off + width
            val = (1 << width) - 1 if draw(I(0, 3)) == 0 else draw(I(0, (1 << width) - 1))
        else:
            width = None
            off = draw(I(0, w - 1))
            c = draw(I(0, 2))
            val = draw(I(0, 255)) if c == 0 else draw(I(-130, -1)) if c == 1 else draw(I(-(1 << (w - 1)), (1 << w) - 1))
        vk = draw(S("int", "int", "arg", "op", "share"))
        if vk == "share" and not args:
            vk = "arg"
        if vk == "int":
            v = ["int", val]
        elif vk == "share":
            # reuse an earlier SSA input (callers do: pack_bitlist((shift,) * 4, ...)); the field value is that input's value
            idx = draw(I(0, len(args) - 1))
            v = ["arg", idx]
            width = None
        else:
            args.append(val % (1 << w))
            v = [vk, len(args) - 1]
        if draw(I(0, 4)) == 0:
            args.append(off)
            o = [draw(S("arg", "arg", "op")), len(args) - 1]
        else:
            o = ["int", off]
        fields.append(dict(v=v, o=o, width=width))
    if layout == "packed" and draw(I(0, 1)):
        # callers list fields from high to low offsets
        fields = fields[::-1]
    return dict(w=w, layout=layout, args=args, fields=fields)


# ---------------------------------------------------------------- streamer configurations

OPT_NAMES = ["b", "bm", "c", "a", "maxpool_ext", "memset_ext", "t", "add_ext", "add_ext_long", "rescale_down_ext", "rescale_up_ext"]
_OPTS = st.lists(st.sampled_from(OPT_NAMES), max_size=6, unique=True)


@st.composite
def streamer_recipe(draw, tier="quick"):
    ns = draw(I(1, 5))
    streamers = []
    for _ in range(ns):
        temp = draw(LS(("n", "n", "n", "i", "r"), draw(S(2, 0, 1, 2, 3, 3, 4, 5, 6))))
        spat = draw(LS((8, 1, 2, 4, 8, 16, 3, 64, 0, 512, 10), draw(S(1, 0, 1, 2, 2, 3))))
        opts = [] if draw(I(0, 1)) else draw(_OPTS)
        streamers.append(dict(type=draw(S("r", "w")), temp=temp, spat=spat, opts=opts))
    return dict(system=draw(S("reg", "xdma", "reg")), streamers=streamers)


def exhaustive_streamer(tier):
    """Every option subset (2^11, map order) x both system types x both streamer types, one streamer (both tiers);
    thorough adds the reversed option order and a second fixed streamer."""
    for mask in range(1 << len(OPT_NAMES)):
        opts = [o for i, o in enumerate(OPT_NAMES) if mask >> i & 1]
        for system in ("reg", "xdma"):
            for ty in ("r", "w"):
                yield dict(system=system, streamers=[dict(type=ty, temp=["n", "r", "i"], spat=[8, 2], opts=opts)])
                if tier == "thorough":
                    yield dict(system=system, streamers=[dict(type=ty, temp=["n"], spat=[4], opts=opts[::-1]),
                                                         dict(type="w", temp=["i", "n"], spat=[8], opts=["c"])])
