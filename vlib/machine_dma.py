"""Byte memory + memref descriptors + Snitch DMA runtime calls (DESIGN.md 2.3, property C05).

Memory is a flat dict byte-address -> *token* (an int naming the origin of the byte). A byte that was never
written reads as the token `-1 - address`, so every byte of the address space is distinguishable and a byte that
ends up somewhere can always be traced to where it came from.

A memref SSA value is a `MemDesc`: what an MLIR memref descriptor holds at run time (aligned base address in
bytes, offset / sizes / strides in elements) plus the element size. The ops that `snax-copy-to-dma` emits answer from it:
  memref.extract_aligned_pointer_as_index -> base            (the offset is NOT included, as in MLIR)
  memref.dim(m, i)                        -> sizes[i]
  memref.extract_strided_metadata         -> (base buffer, offset, sizes..., strides...)
A memref whose layout is not strided (tsl) has `strides is None`; asking for its strided metadata raises
`NoStridedMetadata` (the check turns that into a rejection: there is no documented answer).

Runtime calls, semantics from /repo/runtime/include/snax_rt.h:
  snax_dma_1d_transfer(src, dst, size)                -> snrt_dma_start_1d(dst, src, size): copy `size` bytes src -> dst
  snax_dma_2d_transfer(src, dst, size, src_stride, dst_stride, repeat)
                                                      -> snrt_dma_start_2d(dst, src, size, dst_stride, src_stride, repeat):
      for r in 0..repeat-1: copy `size` bytes from src + r*src_stride to dst + r*dst_stride
All arguments are byte quantities (addresses, sizes, strides); repeat is a count.
Every call is logged; every byte read and every byte written is recorded.
"""
from __future__ import annotations

from .interp import InterpError, StepBudget
from .machines import Machine


class NoStridedMetadata(InterpError):
    """memref.extract_strided_metadata on a memref without a strided run-time descriptor."""


class BadTransfer(Exception):
    """A DMA call with a negative size / repeat (size_t in the runtime: an absurdly large transfer)."""

    def __init__(self, call):
        super().__init__(f"negative size or repeat in {call}")
        self.call = call


class MemDesc:
    __slots__ = ("name", "base", "offset", "sizes", "strides", "elsize")

    def __init__(self, name, base, offset, sizes, strides, elsize):
        self.name = name
        self.base = base
        self.offset = offset
        self.sizes = list(sizes)
        self.strides = None if strides is None else list(strides)
        self.elsize = elsize

    def __repr__(self):
        return f"memref<{self.name} base={self.base} offset={self.offset} sizes={self.sizes} strides={self.strides} el={self.elsize}>"


class BaseBuffer:
    """Result 0 of extract_strided_metadata (never used by the lowering)."""

    __slots__ = ("desc",)

    def __init__(self, desc):
        self.desc = desc


def uninit(addr: int) -> int:
    return -1 - addr


class DMAMachine(Machine):
    def __init__(self, byte_budget: int = 1 << 22):
        self.mem: dict[int, int] = {}
        self.reads: set[int] = set()
        self.writes: set[int] = set()
        self.calls: list[tuple] = []  # ("1d", src, dst, size) | ("2d", src, dst, size, sstride, dstride, repeat)
        self.bytes_moved = 0
        self.byte_budget = byte_budget

    # -- memory -------------------------------------------------------------------------
    def load(self, addr: int) -> int:
        v = self.mem.get(addr)
        return uninit(addr) if v is None else v

    def copy_bytes(self, src: int, dst: int, size: int):
        self.bytes_moved += size
        if self.bytes_moved > self.byte_budget:
            raise StepBudget("DMA byte budget exceeded")
        mem = self.mem
        # a burst reads all its bytes before it writes them (source and destination never overlap in the checks;
        # reading first makes the model independent of the copy direction)
        vals = []
        for a in range(src, src + size):
            v = mem.get(a)
            vals.append(-1 - a if v is None else v)
        self.reads.update(range(src, src + size))
        self.writes.update(range(dst, dst + size))
        for a, v in zip(range(dst, dst + size), vals):
            mem[a] = v

    # -- ops ----------------------------------------------------------------------------
    def exec(self, op, operands, env):
        n = op.name
        if n == "memref.extract_aligned_pointer_as_index":
            d = operands[0]
            if not isinstance(d, MemDesc):
                raise InterpError(f"{n}: operand is not a memref descriptor")
            return [d.base]
        if n == "memref.dim":
            d, i = operands
            if not isinstance(d, MemDesc) or not isinstance(i, int):
                raise InterpError(f"{n}: bad operands")
            if not 0 <= i < len(d.sizes):
                raise InterpError(f"{n}: dimension {i} out of range (undefined behaviour)")
            return [d.sizes[i]]
        if n == "memref.extract_strided_metadata":
            d = operands[0]
            if not isinstance(d, MemDesc):
                raise InterpError(f"{n}: operand is not a memref descriptor")
            if d.strides is None:
                raise NoStridedMetadata(f"{n} on {d.name}: layout is not strided")
            return [BaseBuffer(d), d.offset, *d.sizes, *d.strides]
        return NotImplemented

    def call(self, name, args, op, env):
        if name == "snax_dma_1d_transfer":
            if len(args) != 3 or not all(isinstance(a, int) for a in args):
                raise InterpError(f"{name}: bad arguments {args}")
            src, dst, size = args
            c = ("1d", src, dst, size)
            self.calls.append(c)
            if size < 0:
                raise BadTransfer(c)
            self.copy_bytes(src, dst, size)
            return []
        if name == "snax_dma_2d_transfer":
            if len(args) != 6 or not all(isinstance(a, int) for a in args):
                raise InterpError(f"{name}: bad arguments {args}")
            src, dst, size, sstride, dstride, repeat = args
            c = ("2d", src, dst, size, sstride, dstride, repeat)
            self.calls.append(c)
            if size < 0 or repeat < 0:
                raise BadTransfer(c)
            if size * repeat + self.bytes_moved > self.byte_budget:
                raise StepBudget("DMA byte budget exceeded")
            for r in range(repeat):
                self.copy_bytes(src + r * sstride, dst + r * dstride, size)
            return []
        raise InterpError(f"call to unknown function {name}")
