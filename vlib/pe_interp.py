"""PE interpreter for C20: evaluates phs.pe bodies and scalar linalg.generic bodies on numpy vectors.

Semantics are taken from the repository, not guessed:
- phs.choose: "Operation to choose between operations contained in its region. Very similar to scf.index_switch"
  (snaxc/dialects/phs.py). The lowering (snaxc/transforms/phs/finalize_phs_to_hw.py, ConvertChooseOps) inlines every region
  on the choose's data operands, builds hw.array_create(*reversed(yield_results)) (so element i is region i, region 0 being
  `default_region`) and reads element `switch`. Hence: switch value i runs region i on the data operands (positional).
- phs.mux: ConvertMuxes says "0 = lhs, 1 = rhs" and emits comb.mux(switch, rhs, lhs) (true value = rhs). Hence: 1 -> rhs, 0 -> lhs.
- switches: "the last switch_no block_args are considered switches" (PEOp). decode_abstract_graph walks them in that order
  and emits no value for a choose with a single operation ("they will get optimized away in hardware",
  transforms/phs/remove_one_option_switches.py inlines the single region); every other switch consumes the next value.
- arith ops: fixed-width two's complement for integers (numpy intN arrays wrap), IEEE for floats (numpy float32/float64).

Everything structural the interpreter trips over is reported as PEError(kind, msg); the caller decides what that means.
"""
from __future__ import annotations

import numpy as np

from xdsl.dialects.builtin import Float32Type, Float64Type, IndexType, IntegerType

from snaxc.dialects import phs


class PEError(Exception):
    def __init__(self, kind: str, msg: str = ""):
        super().__init__(f"{kind}: {msg}")
        self.kind = kind
        self.msg = msg


def np_dtype(ty):
    if isinstance(ty, IntegerType):
        w = ty.width.data
        return {8: np.int8, 16: np.int16, 32: np.int32, 64: np.int64}[w]
    if isinstance(ty, Float32Type):
        return np.float32
    if isinstance(ty, Float64Type):
        return np.float64
    raise PEError("unsupported-type", str(ty))


BIN = {
    "arith.addi": lambda a, b: a + b,
    "arith.subi": lambda a, b: a - b,
    "arith.muli": lambda a, b: a * b,
    "arith.andi": lambda a, b: a & b,
    "arith.ori": lambda a, b: a | b,
    "arith.xori": lambda a, b: a ^ b,
    "arith.maxsi": lambda a, b: np.maximum(a, b),
    "arith.minsi": lambda a, b: np.minimum(a, b),
    "arith.addf": lambda a, b: a + b,
    "arith.subf": lambda a, b: a - b,
    "arith.mulf": lambda a, b: a * b,
}

TERMINATORS = ("phs.yield", "linalg.yield")


def _lookup(env, v, where):
    try:
        return env[v]
    except KeyError:
        raise PEError("use-before-def", f"operand of {where} has no binding (not defined before use / not visible)") from None


def run_scalar_block(block, args):
    """Run a block of binary arith ops ended by phs.yield / linalg.yield. Returns the yielded values (list)."""
    if len(block.args) != len(args):
        raise PEError("arity", f"block has {len(block.args)} args, {len(args)} values given")
    env = {}
    for a, v in zip(block.args, args):
        env[a] = v
    for op in block.ops:
        if op.name in BIN:
            if len(op.operands) != 2 or len(op.results) != 1:
                raise PEError("unsupported-op", op.name)
            a = _lookup(env, op.operands[0], op.name)
            b = _lookup(env, op.operands[1], op.name)
            dt = np_dtype(op.results[0].type)
            r = BIN[op.name](a, b)
            if r.dtype != dt:
                raise PEError("dtype", f"{op.name} produced {r.dtype}, result type says {dt}")
            env[op.results[0]] = r
        elif op.name in TERMINATORS:
            return [_lookup(env, o, op.name) for o in op.operands]
        else:
            raise PEError("unsupported-op", op.name)
    raise PEError("no-terminator", "block without yield")


def region_is_positional(block) -> bool:
    """True if the region is `r = op(arg0, arg1); yield r`, the form ChooseOp.insert_operations builds."""
    ops = list(block.ops)
    if len(ops) != 2 or ops[0].name not in BIN or ops[1].name not in TERMINATORS:
        return False
    return (len(block.args) == 2 and ops[0].operands[0] is block.args[0] and ops[0].operands[1] is block.args[1]
            and len(ops[1].operands) == 1 and ops[1].operands[0] is ops[0].results[0])


def run_region_positionally(block, args):
    """Run the region's operation on (arg0, arg1) regardless of how the cloned operation is wired inside the region.
    Only used to *classify* a mismatch (is the non-positional region the only cause?), never to accept a result."""
    ops = list(block.ops)
    if len(ops) != 2 or ops[0].name not in BIN or ops[1].name not in TERMINATORS or len(args) != 2:
        raise PEError("unsupported-op", "region is not a single binary operation")
    return [BIN[ops[0].name](args[0], args[1])]


def switch_plan(pe: phs.PEOp):
    """[(switch block arg, user op, needs_value)] in block-argument order, derived from the IR only."""
    block = pe.body.block
    n_sw = pe.switch_no.value.data
    args = list(block.args)
    if n_sw > len(args):
        raise PEError("switch-no", f"switch_no={n_sw} but only {len(args)} block args")
    data, switches = args[: len(args) - n_sw], args[len(args) - n_sw:]
    for a in data:
        if isinstance(a.type, IndexType):
            raise PEError("switch-no", "an index-typed block argument is counted as data operand")
    plan = []
    for s in switches:
        if not isinstance(s.type, IndexType):
            raise PEError("switch-no", f"switch argument of type {s.type}")
        uses = list(s.uses)
        if len(uses) != 1:
            raise PEError("switch-use-count", f"switch drives {len(uses)} uses")
        user = uses[0].operation
        if isinstance(user, phs.ChooseOp):
            if user.switch is not s:
                raise PEError("switch-as-data", "switch used as data operand of a choose")
            plan.append((s, user, len(user.regions) > 1))
        elif isinstance(user, phs.MuxOp):
            if user.switch is not s:
                raise PEError("switch-as-data", "switch used as data operand of a mux")
            plan.append((s, user, True))
        else:
            raise PEError("switch-user", user.name)
    return data, plan


def count_value_switches(pe: phs.PEOp) -> int:
    """Number of switches that need a value, from an op walk (independent of get_true_switches)."""
    n = 0
    for op in pe.body.block.ops:
        if isinstance(op, phs.MuxOp):
            n += 1
        elif isinstance(op, phs.ChooseOp) and len(op.regions) > 1:
            n += 1
    return n


def eval_pe(pe: phs.PEOp, data, values, positional_all: bool = False, repair_regions: bool = False, trace=None):
    """Evaluate a PE on `data` (list of numpy vectors, one per data operand) under `values`.

    positional_all=False: `values` are assigned, in order, to the switches that need one (mux, choose with >= 2 regions).
    positional_all=True : `values` are assigned to *all* switches in order (a PE after phs-remove-one-option-switches).
    repair_regions: classification aid, see run_region_positionally. trace: list collecting (choose id, region, positional?).
    Returns the list of yielded vectors.
    """
    data_args, plan = switch_plan(pe)
    if len(data_args) != len(data):
        raise PEError("arity", f"PE has {len(data_args)} data operands, {len(data)} given")
    env = {}
    for a, v in zip(data_args, data):
        dt = np_dtype(a.type)
        if v.dtype != dt:
            raise PEError("dtype", f"data operand {a.index}: {v.dtype} given for {a.type}")
        env[a] = v
    sel = {}
    it = iter(values)
    needed = [p for p in plan if (p[2] or positional_all)]
    if len(needed) != len(values):
        raise PEError("value-count", f"{len(values)} values for {len(needed)} value-taking switches")
    for s, _user, needs in plan:
        sel[s] = next(it) if (needs or positional_all) else 0
    for op in pe.body.block.ops:
        if isinstance(op, phs.ChooseOp):
            regions = list(op.regions)
            i = sel.get(op.switch)
            if i is None:
                raise PEError("switch-not-block-arg", "choose switch is not a PE switch argument")
            if not isinstance(i, int) or isinstance(i, bool) or not (0 <= i < len(regions)):
                raise PEError("choose-switch-out-of-range", f"value {i!r} for {len(regions)} regions")
            args = [_lookup(env, o, "phs.choose") for o in op.data_operands]
            if trace is not None:
                trace.append((op.name_prop.data, i, region_is_positional(regions[i].block)))
            if repair_regions:
                res = run_region_positionally(regions[i].block, args)
            else:
                res = run_scalar_block(regions[i].block, args)
            if len(res) != len(op.results):
                raise PEError("arity", "choose region yields a different number of values")
            for r, v in zip(op.results, res):
                if v.dtype != np_dtype(r.type):
                    raise PEError("dtype", "choose result type")
                env[r] = v
        elif isinstance(op, phs.MuxOp):
            i = sel.get(op.switch)
            if i is None:
                raise PEError("switch-not-block-arg", "mux switch is not a PE switch argument")
            if i not in (0, 1) or isinstance(i, bool):
                raise PEError("mux-switch-out-of-range", f"value {i!r}")
            lhs = _lookup(env, op.lhs, "phs.mux")
            rhs = _lookup(env, op.rhs, "phs.mux")
            if lhs.dtype != rhs.dtype or np_dtype(op.res.type) != lhs.dtype:
                raise PEError("dtype", "mux operands/result of different types")
            env[op.res] = rhs if i == 1 else lhs
        elif isinstance(op, phs.YieldOp):
            return [_lookup(env, o, "phs.yield") for o in op.operands]
        elif op.name in BIN:  # inlined single-option choose (after phs-remove-one-option-switches)
            a = _lookup(env, op.operands[0], op.name)
            b = _lookup(env, op.operands[1], op.name)
            env[op.results[0]] = BIN[op.name](a, b)
        else:
            raise PEError("unsupported-op", op.name)
    raise PEError("no-terminator", "PE body without phs.yield")


def same(a, b) -> bool:
    return a.dtype == b.dtype and a.shape == b.shape and bool((a == b).all())
