"""Hypothesis strategies and helpers for schedules/templates (C03, C16). Recipes are plain JSON."""
from __future__ import annotations

import itertools
from fractions import Fraction

import numpy as np
from hypothesis import strategies as st

from snaxc.ir.dart.access_pattern import Schedule, SchedulePattern, Template, TemplatePattern
from snaxc.ir.dart.affine_transform import AffineTransform


# ---------------------------------------------------------------- recipe <-> objects

def mk_transform(op):
    A = np.array(op["A"], dtype=np.int_).reshape(len(op["b"]), -1) if op["A"] and op["A"][0] is not None else None
    if A is None or A.size == 0:
        A = np.zeros((len(op["b"]), op.get("n", 0)), dtype=np.int_)
    return AffineTransform(A, np.array(op["b"], dtype=np.int_))


def mk_schedule(bounds, ops):
    return Schedule(SchedulePattern(tuple(bounds), mk_transform(dict(o, n=len(bounds)))) for o in ops)


def mk_template(bounds, ops):
    return Template(TemplatePattern(tuple(bounds), mk_transform(dict(o, n=len(bounds)))) for o in ops)


def schedule_to_recipe(s: Schedule):
    return dict(bounds=list(s[0].bounds), ops=[dict(A=p.pattern.A.tolist(), b=p.pattern.b.tolist()) for p in s])


# ---------------------------------------------------------------- reference semantics

def box_points(bounds):
    """All points of the box, shape (N, n). Row-major (last dim fastest)."""
    if len(bounds) == 0:
        return np.zeros((1, 0), dtype=np.int64)
    grids = np.indices(tuple(bounds), dtype=np.int64).reshape(len(bounds), -1).T
    return grids


def iteration_multiset(bounds, mats):
    """Sorted array of the operand index tuples visited: one row per iteration point.
    mats: list of (A, b) numpy pairs, A: (r, n)."""
    pts = box_points(bounds)
    cols = []
    for A, b in mats:
        A = np.asarray(A, dtype=np.int64).reshape(len(b), len(bounds))
        cols.append(pts @ A.T + np.asarray(b, dtype=np.int64))
    if cols:
        allc = np.concatenate(cols, axis=1)
    else:
        allc = np.zeros((len(pts), 0), dtype=np.int64)
    if allc.shape[1] == 0:
        return allc
    order = np.lexsort(allc.T[::-1])
    return allc[order]


def sched_multiset(s):
    """iteration multiset of a Schedule / PatternCollection (object from the code under test)."""
    bounds = tuple(s[0].bounds)
    for p in s:
        if tuple(p.bounds) != bounds:
            return None
    return iteration_multiset(bounds, [(p.pattern.A, p.pattern.b) for p in s])


def same_multiset(a, b):
    return a is not None and b is not None and a.shape == b.shape and bool((a == b).all())


# ---------------------------------------------------------------- exact row-space test (C16)

def rref(rows):
    """Reduced row echelon form over Q of an integer matrix (list of lists). Returns tuple of tuples (nonzero rows)."""
    M = [[Fraction(x) for x in r] for r in rows]
    if not M:
        return ()
    ncol = len(M[0])
    r = 0
    for c in range(ncol):
        piv = None
        for i in range(r, len(M)):
            if M[i][c] != 0:
                piv = i
                break
        if piv is None:
            continue
        M[r], M[piv] = M[piv], M[r]
        pv = M[r][c]
        M[r] = [x / pv for x in M[r]]
        for i in range(len(M)):
            if i != r and M[i][c] != 0:
                f = M[i][c]
                M[i] = [a - f * b for a, b in zip(M[i], M[r])]
        r += 1
        if r == len(M):
            break
    return tuple(tuple(row) for row in M[:r])


def same_row_space(A, B):
    A = np.asarray(A).tolist()
    B = np.asarray(B).tolist()
    if (len(A[0]) if A else 0) != (len(B[0]) if B else 0) and A and B:
        return False
    return rref(A) == rref(B)


# ---------------------------------------------------------------- strategies

def _small(tier):
    return dict(max_dims=5, max_ops=4, max_pts=4096 if tier == "quick" else 32768)


@st.composite
def bounds_st(draw, n, max_pts, max_b=8):
    bs = []
    prod = 1
    for _ in range(n):
        cap = max(1, min(max_b, max_pts // prod))
        b = draw(st.integers(1, cap))
        bs.append(b)
        prod *= b
    return bs


@st.composite
def matrix_st(draw, r, n, lo=-4, hi=4, sparse=True):
    rows = []
    for _ in range(r):
        if sparse and draw(st.booleans()):
            # unit-like row: mostly zeros
            row = [0] * n
            if n:
                k = draw(st.integers(0, n - 1))
                row[k] = draw(st.sampled_from([1, 1, 1, 2, 3, -1]))
                if n > 1 and draw(st.integers(0, 3)) == 0:
                    k2 = draw(st.integers(0, n - 1))
                    row[k2] = draw(st.integers(lo, hi))
        else:
            row = [draw(st.integers(lo, hi)) for _ in range(n)]
        rows.append(row)
    return rows


@st.composite
def schedule_recipe(draw, tier="quick", min_dims=1):
    p = _small(tier)
    n = draw(st.integers(min_dims, p["max_dims"]))
    nops = draw(st.integers(1, p["max_ops"]))
    bounds = draw(bounds_st(n, p["max_pts"]))
    ops = []
    for _ in range(nops):
        r = draw(st.integers(1, 3))
        A = draw(matrix_st(r, n))
        b = [draw(st.sampled_from([0, 0, 0, 1, -2, 5])) for _ in range(r)]
        ops.append(dict(A=A, b=b))
    return dict(bounds=bounds, ops=ops)


@st.composite
def elementary_recipe(draw, tier="quick"):
    s = draw(schedule_recipe(tier))
    n = len(s["bounds"])
    kind = draw(st.sampled_from(["rotate", "tile", "add_dim", "clear", "clear_b", "canon", "inner", "chain"]))
    if kind == "rotate":
        act = ["rotate", draw(st.integers(1, n))]
    elif kind == "tile":
        d = draw(st.integers(0, n - 1))
        divs = [t for t in range(1, s["bounds"][d] + 1) if s["bounds"][d] % t == 0]
        act = ["tile", d, draw(st.sampled_from(divs))]
    elif kind == "clear_b":
        # explicit bounds: the caller states the bounds of the iteration space
        act = ["clear_b", [draw(st.sampled_from([1, b])) for b in s["bounds"]]]
    elif kind == "chain":
        steps = []
        cur = list(s["bounds"])
        for _ in range(draw(st.integers(2, 5))):
            k = draw(st.sampled_from(["rotate", "tile", "add_dim"]))
            if k == "rotate":
                steps.append(["rotate", draw(st.integers(1, len(cur)))])
                d = steps[-1][1]
                cur = cur[1:d] + cur[:1] + cur[d:]
            elif k == "tile":
                d = draw(st.integers(0, len(cur) - 1))
                divs = [t for t in range(1, cur[d] + 1) if cur[d] % t == 0]
                t = draw(st.sampled_from(divs))
                steps.append(["tile", d, t])
                cur = cur[:d] + [cur[d] // t, t] + cur[d + 1:]
            else:
                if len(cur) >= 8:
                    continue
                steps.append(["add_dim"])
                cur = [1] + cur
        act = ["chain", steps]
    else:
        act = [kind]
    s["action"] = act
    return s


@st.composite
def template_case(draw, tier="quick"):
    """A (template, schedule, checks) recipe. Mostly constructed so that the scheduler can succeed."""
    p = _small(tier)
    n = draw(st.integers(1, 4))
    nops = draw(st.integers(1, 3))
    t = draw(st.integers(1, min(3, n + 1)))
    mode = draw(st.sampled_from(["constructed", "constructed", "constructed", "random"]))
    # template dims: injective choice of schedule dims (if t > n the template has more dims than the schedule)
    tdims = draw(st.permutations(list(range(n))))[: min(t, n)]
    t_eff = len(tdims)
    # template bounds
    tb = [draw(st.sampled_from([None, 2, 2, 3, 4, 8])) for _ in range(t_eff)]
    # schedule bounds: for template dims multiples/divisors of the template bound
    bounds = [1] * n
    prod = 1
    for j, d in enumerate(tdims):
        if tb[j] is None:
            bounds[d] = draw(st.integers(1, 6))
        else:
            k = draw(st.sampled_from([1, 1, 2, 3, 4]))
            choice = draw(st.integers(0, 9))
            if choice == 0:
                bounds[d] = max(1, tb[j] - 1)  # smaller than the template bound
            elif choice == 1:
                bounds[d] = tb[j] * k + 1  # not divisible (scheduler must refuse this dim order)
            else:
                bounds[d] = tb[j] * k
        prod *= bounds[d]
    for d in range(n):
        if d not in tdims:
            cap = max(1, min(6, p["max_pts"] // max(1, prod)))
            bounds[d] = draw(st.integers(1, cap))
            prod *= bounds[d]
    if prod > p["max_pts"]:
        # shrink the largest bounds until it fits
        while prod > p["max_pts"]:
            i = max(range(n), key=lambda k: bounds[k])
            prod //= bounds[i]
            bounds[i] = max(1, bounds[i] // 2)
            prod *= bounds[i]
    ops = []
    tops = []
    for _ in range(nops):
        r = draw(st.integers(1, 3))
        A = draw(matrix_st(r, n, lo=-3, hi=3))
        b = [draw(st.sampled_from([0, 0, 0, 1, 3])) for _ in range(r)]
        ops.append(dict(A=A, b=b))
        if mode == "constructed":
            TA = [[row[d] for d in tdims] for row in A]
            mix = draw(st.integers(0, 5))
            if mix == 0 and r >= 2:
                # same row space, different basis (row mix)
                TA = [list(TA[0])] + [[a + c for a, c in zip(TA[i], TA[0])] for i in range(1, r)]
            elif mix == 1:
                # broadcast: template has an extra leading result row
                extra = [draw(st.integers(-2, 2)) for _ in range(t_eff)]
                TA = [extra] + TA
            tops.append(dict(A=TA, b=[0] * len(TA)))
        else:
            rr = draw(st.integers(1, 3))
            tops.append(dict(A=draw(matrix_st(rr, t_eff, lo=-2, hi=2)), b=[0] * rr))
    # optionally the template has extra outer dims the schedule does not have (yet)
    n_extra = draw(st.sampled_from([0, 0, 0, 1, 2])) if t_eff < 3 else 0
    if n_extra:
        ebs = [draw(st.sampled_from([None, None, 2, 4])) for _ in range(n_extra)]
        tb = ebs + tb
        for top in tops:
            for row in top["A"]:
                row[0:0] = [draw(st.integers(-2, 2)) for _ in range(n_extra)]
    checks = draw(st.sampled_from([[], [], ["pos"], ["mem"], ["pos", "mem"]]))
    elsizes = [draw(st.sampled_from([1, 2, 4, 8])) for _ in range(nops)]
    return dict(bounds=bounds, ops=ops, tbounds=tb, tops=tops, checks=checks, elsizes=elsizes, mode=mode)
