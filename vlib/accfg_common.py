"""Shared helpers for the accfg properties (C01, C04, C06, C07)."""
from __future__ import annotations

from .interp import Interp, InterpError, StepBudget
from .machines import CSRMachine, Havoc


def execute(mod, args, machine=None, func="main", budget=300000):
    m = machine or CSRMachine()
    it = Interp(mod, m, step_budget=budget)
    it.call(func, args)
    return m


def _fmt(v):
    return repr(v)


def compare_launch_traces(orig, opt, positional_kinds=("launch", "await", "call", "op", "reset")):
    """Event-by-event comparison. Returns None or a dict describing the first mismatch.
    At every launch, every field the original execution has written since the last havoc must hold the same
    value in the optimised execution."""
    a = [e for e in orig if e[0] in positional_kinds]
    b = [e for e in opt if e[0] in positional_kinds]
    for i, (x, y) in enumerate(zip(a, b)):
        if x[0] != y[0]:
            return dict(kind="event-kind-differs", index=i, original=_fmt(x[:2]), optimised=_fmt(y[:2]))
        k = x[0]
        if k == "launch":
            if x[1] != y[1]:
                return dict(kind="launch-accelerator-differs", index=i, original=x[1], optimised=y[1])
            oregs, odef, olv = x[2], x[3], x[4]
            pregs, pdef, plv = y[2], y[3], y[4]
            for f, v in oregs.items():
                pv = pregs.get(f, pdef)
                if pv != v:
                    return dict(kind="launch-observes-different-register", index=i, accelerator=x[1], field=f,
                                original=_fmt(v), optimised=_fmt(pv), launch_number=sum(1 for e in a[:i] if e[0] == "launch"))
            if tuple(olv) != tuple(plv):
                return dict(kind="launch-values-differ", index=i, original=_fmt(olv), optimised=_fmt(plv))
        elif k == "await" or k == "reset":
            if x[1] != y[1]:
                return dict(kind=f"{k}-accelerator-differs", index=i, original=x[1], optimised=y[1])
        elif k in ("call", "op"):
            if x[1:] != y[1:]:
                return dict(kind=f"{k}-differs", index=i, original=_fmt(x[1:]), optimised=_fmt(y[1:]))
    if len(a) != len(b):
        return dict(kind="event-count-differs", original=len(a), optimised=len(b),
                    first_extra=_fmt((a + b)[min(len(a), len(b))][:2]) if (a or b) else None)
    return None


def setup_field_sites(mod):
    """Multiset description of (setup position, field) pairs: used to detect whether a pass changed anything."""
    out = []
    for op in mod.walk():
        if op.name == "accfg.setup":
            parent = op.parent_op()
            out.append((parent.name if parent else "", tuple(p.data for p in op.param_names)))
    return out
