"""dart.operation / dart.schedule recipes on memref operands for the streamer accelerators (C09, C02).

Three layers, kept apart on purpose:
  1. recipe -> MLIR text   (`build_text`, `memref_type_text`, `affine_map_text`, `body_text`)            no oracle, no snaxc import
  2. reference semantics of a recipe (`visited_extent`, `box_ok`, ...)                                    pure python / numpy
  3. Hypothesis strategies producing recipes (`operation_recipe`, `schedule_recipe`, sweeps)

Recipe (plain JSON):
    {"form":   "operation" | "schedule",
     "kernel": key of KERNELS (fixes accelerator, body, number of inputs, default element types),
     "acc":    accelerator name (defaults to the kernel's),
     "dims":   n, number of iteration dimensions,
     "bounds": [b0..bn-1]  iteration bounds. form=schedule: printed as the op's `bounds`; form=operation: informative only
               (dart-scheduler derives the bounds from the operand shapes through the inverse of the access maps),
     "operands": [ {"shape": [..], "elty": "i8"|"i16"|"i32"|"i64", "space": "L1"|None,
                    "layout": None | {"tsl": <gen_tsl layout recipe>} | {"strided": [strides], "offset": o},
                    "A": [[coefficient per iteration dim] per operand dim], "b": [constant per operand dim]} ],
     "tags": [str]   labels describing how the recipe was built (classes only, never read by an oracle)}
Inputs come first, then outputs; the split is KERNELS[kernel]["n_in"].

The access function of operand k is idx = A @ it + b for it in the box 0..bounds-1 (dart dialect docstring: "streams mapping
the iteration space to the operand indexing space").
"""
from __future__ import annotations

import numpy as np
from hypothesis import strategies as st

# ------------------------------------------------------------------------------------------------
# kernels (bodies as in tests/filecheck/transforms/{set-memory-layout,convert-dart-to-snax-stream,dart/dart-scheduler}.mlir)

KERNELS = {
    # snax_alu: template (y)->(y) x3, bound 4
    "alu_add": dict(acc="snax_alu", n_in=2, stages=["add"], types=["i64", "i64", "i64"]),
    "alu_mul": dict(acc="snax_alu", n_in=2, stages=["mul"], types=["i64", "i64", "i64"]),
    # snax_gemmx matmul template (m,n,k)->(m,k),(k,n),(m,n)[,(m,n)], bounds 8,8,8
    "mac": dict(acc="snax_gemmx", n_in=2, stages=["mac"], types=["i8", "i8", "i32"]),
    "qmac": dict(acc="snax_gemmx", n_in=2, stages=["qmac"], types=["i8", "i8", "i32"]),
    "mac_add": dict(acc="snax_gemmx", n_in=3, stages=["mac", "add"], types=["i8", "i8", "i32", "i32"]),
    "qmac_add": dict(acc="snax_gemmx", n_in=3, stages=["qmac", "add"], types=["i8", "i8", "i32", "i32"]),
    "mac_rescale": dict(acc="snax_gemmx", n_in=2, stages=["mac", "rescale"], types=["i8", "i8", "i8"]),
    "mac_add_rescale": dict(acc="snax_gemmx", n_in=3, stages=["mac", "add", "rescale"], types=["i8", "i8", "i32", "i8"]),
    # snax_gemmx rescale-only template (m,k)->(m,k) x2, bounds 8,8
    "gemmx_rescale": dict(acc="snax_gemmx", n_in=1, stages=["rescale"], types=["i32", "i8"]),
    # snax_xdma extensions: template (y)->(y), bound 16
    "xdma_add": dict(acc="snax_xdma", n_in=2, stages=["add"], types=["i32", "i32", "i32"]),
    "xdma_rescale_down": dict(acc="snax_xdma", n_in=1, stages=["rescale"], types=["i32", "i8"]),
    "xdma_rescale_up": dict(acc="snax_xdma", n_in=1, stages=["rescale"], types=["i8", "i32"]),
}

# what the accelerator templates say (read from get_template of the three accelerators; used by generators to aim at
# schedulable operations and by checks for class labels, never as an oracle)
TEMPLATE_BOUNDS = {
    "alu_add": (4,), "alu_mul": (4,),
    "mac": (8, 8, 8), "qmac": (8, 8, 8), "mac_add": (8, 8, 8), "qmac_add": (8, 8, 8), "mac_rescale": (8, 8, 8),
    "mac_add_rescale": (8, 8, 8),
    "gemmx_rescale": (8, 8),
    "xdma_add": (16,), "xdma_rescale_down": (16,), "xdma_rescale_up": (16,),
}

WIDTH = {"i8": 8, "i16": 16, "i32": 32, "i64": 64}

_RESCALE_ATTRS = ("{input_zp = 0 : i32, output_zp = 0 : i32, multiplier = array<i32: 1>, shift = array<i32: 0>, "
                  "max_int = 127 : i32, min_int = -128 : i32, double_round = false}")


def n_in(r) -> int:
    return KERNELS[r["kernel"]]["n_in"]


def acc_of(r) -> str:
    return r.get("acc") or KERNELS[r["kernel"]]["acc"]


# ------------------------------------------------------------------------------------------------
# recipe -> text


def affine_expr_text(row, const) -> str:
    terms = []
    for d, c in enumerate(row):
        if c == 0:
            continue
        terms.append(f"d{d}" if c == 1 else f"(d{d} * {c})")
    if const != 0 or not terms:
        terms.append(str(const))
    out = terms[0]
    for t in terms[1:]:
        out = f"({out} + {t})"
    return out


def affine_map_text(A, b, ndims) -> str:
    dims = ", ".join(f"d{i}" for i in range(ndims))
    res = ", ".join(affine_expr_text(row, c) for row, c in zip(A, b))
    return f"affine_map<({dims}) -> ({res})>"


def tsl_text(layout) -> str:
    parts = []
    for dim in layout["dims"]:
        bounds = ", ".join("?" if b is None else str(b) for _, b in dim)
        steps = ", ".join("?" if s is None else str(s) for s, _ in dim)
        parts.append(f"[{bounds}] -> ({steps})")
    s = ", ".join(parts)
    off = layout.get("offset", 0)
    if off:
        s += f", offset: {off}"
    return f"#tsl.tsl<{s}>"


def memref_type_text(o) -> str:
    shape = "x".join(str(s) for s in o["shape"])
    t = f"{shape}x{o['elty']}" if o["shape"] else o["elty"]
    lay = o.get("layout")
    if lay:
        if "tsl" in lay:
            t += ", " + tsl_text(lay["tsl"])
        elif "strided" in lay:
            t += f", strided<[{', '.join(str(s) for s in lay['strided'])}]"
            if lay.get("offset"):
                t += f", offset: {lay['offset']}"
            t += ">"
    if o.get("space"):
        t += f', "{o["space"]}"'
    return f"memref<{t}>"


def body_text(r, indent="    ") -> tuple[str, list[str]]:
    """Text of the streaming region body and the constants it needs in front of the op ([(name, text)])."""
    k = KERNELS[r["kernel"]]
    acc = acc_of(r)
    types = [o["elty"] for o in r["operands"]]
    nin = k["n_in"]
    out_t = types[-1]
    args = ", ".join(f"%s{i} : !dart.stream<{t}>" for i, t in enumerate(types))
    lines = [f"{indent}^bb0({args}):"]
    consts: list[str] = []
    cur = None  # (ssa name, element type) of the running stream
    next_in = 0
    stages = k["stages"]
    for si, stage in enumerate(stages):
        res_t = out_t if si == len(stages) - 1 else "i32"
        g = f"%g{si}"
        if stage in ("add", "mul", "mac", "qmac") and cur is None:
            a, ta = f"%s{next_in}", types[next_in]
            b, tb = f"%s{next_in + 1}", types[next_in + 1]
            next_in += 2
        elif stage == "add":
            a, ta = cur
            b, tb = f"%s{next_in}", types[next_in]
            next_in += 1
        elif stage == "rescale":
            if cur is None:
                a, ta = f"%s{next_in}", types[next_in]
                next_in += 1
            else:
                a, ta = cur
            b = tb = None
        else:
            raise AssertionError(stage)
        if stage == "qmac":
            if not consts:
                consts.append("%zp = arith.constant 0 : i32")
            lines.append(f'{indent}  {g} = "dart.generic"({a}, {b}, %zp, %zp) <{{library_call = "{acc}"}}> ({{')
            lines.append(f"{indent}  ^bb{si + 1}(%x{si} : {ta}, %y{si} : {tb}, %za{si} : i32, %zb{si} : i32, %o{si} : {res_t}):")
            lines.append(f"{indent}    %r{si} = kernel.qmac %x{si}, %y{si} zp_lhs : %za{si} zp_rhs : %zb{si} : {ta}, {tb}, i32, i32 -> {res_t}")
            lines.append(f"{indent}    dart.yield %r{si} : {res_t}")
            lines.append(f"{indent}  }}) : (!dart.stream<{ta}>, !dart.stream<{tb}>, i32, i32) -> !dart.stream<{res_t}>")
        elif stage == "rescale":
            lines.append(f'{indent}  {g} = "dart.generic"({a}) <{{library_call = "{acc}"}}> ({{')
            lines.append(f"{indent}  ^bb{si + 1}(%x{si} : {ta}, %o{si} : {res_t}):")
            lines.append(f"{indent}    %r{si} = kernel.rescale %x{si} {_RESCALE_ATTRS} : ({ta}) -> {res_t}")
            lines.append(f"{indent}    dart.yield %r{si} : {res_t}")
            lines.append(f"{indent}  }}) : (!dart.stream<{ta}>) -> !dart.stream<{res_t}>")
        else:
            lines.append(f'{indent}  {g} = "dart.generic"({a}, {b}) <{{library_call = "{acc}"}}> ({{')
            lines.append(f"{indent}  ^bb{si + 1}(%x{si} : {ta}, %y{si} : {tb}, %o{si} : {res_t}):")
            lines.append(f"{indent}    %r{si} = kernel.{stage} %x{si}, %y{si} : {ta}, {tb} -> {res_t}")
            lines.append(f"{indent}    dart.yield %r{si} : {res_t}")
            lines.append(f"{indent}  }}) : (!dart.stream<{ta}>, !dart.stream<{tb}>) -> !dart.stream<{res_t}>")
        cur = (g, res_t)
    assert next_in == nin, (next_in, nin)
    lines.append(f"{indent}  dart.yield {cur[0]} : !dart.stream<{cur[1]}>")
    return "\n".join(lines), consts


def build_text(r) -> str:
    """A module with one function whose arguments are the operands and whose body is the one dart op."""
    ops = r["operands"]
    nin = n_in(r)
    nout = len(ops) - nin
    types = [memref_type_text(o) for o in ops]
    fargs = ", ".join(f"%arg{i} : {t}" for i, t in enumerate(types))
    body, consts = body_text(r)
    pats = ", ".join(affine_map_text(o["A"], o["b"], r["dims"]) for o in ops)
    props = [f"patterns = [{pats}]", f'accelerator = "{acc_of(r)}"']
    if r["form"] == "schedule":
        props.append("tiles = [[]]")
        props.append("bounds = [" + ", ".join(f"{b} : index" for b in r["bounds"]) + "]")
        name = "dart.schedule"
    else:
        name = "dart.operation"
    props.append(f"operandSegmentSizes = array<i32: {nin}, {nout}>")
    names = ", ".join(f"%arg{i}" for i in range(len(ops)))
    lines = ["builtin.module {", f"  func.func @f({fargs}) {{"]
    lines += [f"    {c}" for c in consts]
    lines.append(f'    "{name}"({names}) <{{{", ".join(props)}}}> ({{')
    lines.append(body)
    lines.append(f"    }}) : ({', '.join(types)}) -> ()")
    lines.append("    func.return")
    lines.append("  }")
    lines.append("}")
    return "\n".join(lines)


# ------------------------------------------------------------------------------------------------
# context with all three streamer accelerators (snax_xdma is registered the way tools/config_parser.py does it)

_CTX = None


def dart_ctx():
    """One AccContext per process: SNAXOptMain's context (all dialects, snax_alu/snax_gemmx/..., L1/L3) plus snax_xdma."""
    global _CTX
    if _CTX is None:
        from vlib.ctx import fresh_ctx

        ctx = fresh_ctx()
        try:
            from snaxc.accelerators.snax_xdma import SNAXXDMAAccelerator

            inst = SNAXXDMAAccelerator()
            ctx.register_accelerator(SNAXXDMAAccelerator.name, lambda: inst)
        except Exception:  # tree in which the xdma accelerator cannot be built: recipes using it are rejected by get_acc
            pass
        _CTX = ctx
    return _CTX


# ------------------------------------------------------------------------------------------------
# reference semantics of a recipe


def visited_range(o, bounds):
    """Per operand dim (min index, max index) visited over the box (affine, so extremes are at box corners)."""
    out = []
    for row, c in zip(o["A"], o["b"]):
        lo = hi = c
        for coef, bd in zip(row, bounds):
            if coef > 0:
                hi += coef * (bd - 1)
            elif coef < 0:
                lo += coef * (bd - 1)
        out.append((lo, hi))
    return out


def in_bounds(r) -> bool:
    for o in r["operands"]:
        for (lo, hi), s in zip(visited_range(o, r["bounds"]), o["shape"]):
            if lo < 0 or hi >= s:
                return False
    return True


def visited_mask(o, bounds) -> np.ndarray:
    """Boolean array of the operand shape: which elements the access function touches."""
    pts = np.indices(tuple(bounds), dtype=np.int64).reshape(len(bounds), -1).T if bounds else np.zeros((1, 0), np.int64)
    A = np.asarray(o["A"], dtype=np.int64).reshape(len(o["b"]), len(bounds))
    idx = pts @ A.T + np.asarray(o["b"], dtype=np.int64)
    m = np.zeros(tuple(o["shape"]), dtype=bool)
    if m.ndim:
        m[tuple(idx.T)] = True
    else:
        m[()] = True
    return m


def derived_operation_bounds(r):
    """The iteration bounds dart.operation documents (get_static_pattern_bounds): for every iteration dim the size of the first
    operand dim, in operand order, that is indexed by exactly that dim alone (the inverse of the projected permutation part
    of the concatenated access maps). None when some iteration dim never appears alone."""
    n = r["dims"]
    out = [None] * n
    for o in r["operands"]:
        for row, c, s in zip(o["A"], o["b"], o["shape"]):
            nz = [d for d, x in enumerate(row) if x != 0]
            if len(nz) == 1 and row[nz[0]] == 1 and c == 0 and out[nz[0]] is None:
                out[nz[0]] = s
    return out


def schedule_matrices(op):
    """(bounds, [(A, b)]) of a dart.schedule / dart.operation op object. The affine maps are evaluated with xDSL's own
    AffineMap.eval at the origin and at the unit vectors (affine maps without symbols, so this determines them)."""
    bounds = [x.value.data for x in op.bounds] if hasattr(op, "bounds") else None
    mats = []
    for p in op.patterns:
        m = p.data
        n = m.num_dims
        zero = list(m.eval([0] * n, []))
        cols = []
        for j in range(n):
            e = [0] * n
            e[j] = 1
            cols.append([v - z for v, z in zip(m.eval(e, []), zero)])
        A = [[cols[j][i] for j in range(n)] for i in range(len(zero))]
        mats.append((A, zero))
    return bounds, mats


# ------------------------------------------------------------------------------------------------
# recipe transformations (pure python; they keep the set of visited operand indices unchanged)


def tile_recipe(r, dim, t):
    """Split iteration dim `dim` (bound B, t | B) into an outer dim of bound B/t (coefficient c*t) followed by an inner dim of
    bound t (coefficient c)."""
    B = r["bounds"][dim]
    assert B % t == 0
    out = dict(r)
    out["bounds"] = r["bounds"][:dim] + [B // t, t] + r["bounds"][dim + 1:]
    out["dims"] = r["dims"] + 1
    out["operands"] = []
    for o in r["operands"]:
        A = [row[:dim] + [row[dim] * t, row[dim]] + row[dim + 1:] for row in o["A"]]
        out["operands"].append(dict(o, A=A))
    return out


def permute_recipe(r, perm):
    """New iteration dim i is old dim perm[i]."""
    out = dict(r)
    out["bounds"] = [r["bounds"][p] for p in perm]
    out["operands"] = [dict(o, A=[[row[p] for p in perm] for row in o["A"]]) for o in r["operands"]]
    return out


def fit_shapes(r, slack=None):
    """Set every operand shape to (largest visited index + 1 + slack)."""
    for k, o in enumerate(r["operands"]):
        rng = visited_range(o, r["bounds"])
        o["shape"] = [hi + 1 + (slack[k][d] if slack else 0) for d, (_, hi) in enumerate(rng)]
    return r


def max_operand_elems(r) -> int:
    m = 1
    for o in r["operands"]:
        p = 1
        for s in o["shape"]:
            p *= s
        m = max(m, p)
    return m


# ------------------------------------------------------------------------------------------------
# strategies

WIDTHS = ["i8", "i16", "i32", "i64"]


def _cap(tier):
    return 4096 if tier == "quick" else 65536


def _unit_rows(sel, n):
    return [[1 if d == s else 0 for d in range(n)] for s in sel]


def _mk_operand(shape, elty, A, b=None, space="L1", layout=None):
    return dict(shape=list(shape), elty=elty, space=space, layout=layout, A=[list(r) for r in A], b=list(b) if b else [0] * len(A))


@st.composite
def _template_bound(draw, T, small_ok=True, allow_bad=True):
    """A bound for an iteration dim that has to fit a template dim of size T."""
    c = draw(st.integers(0, 19))
    if c < 5 and small_ok:
        return draw(st.integers(1, T))  # not larger than the template: never tiled
    if c == 5 and allow_bad:
        return T * draw(st.integers(1, 3)) + draw(st.integers(1, T - 1))  # not divisible: the scheduler must look elsewhere
    return T * draw(st.sampled_from([1, 1, 2, 2, 3, 4, 5]))


@st.composite
def _widths(draw, kernel, mode):
    """Element types per operand. mode 'default': what the accelerator declares; 'any': every operand any of 8/16/32/64."""
    k = KERNELS[kernel]
    if mode == "default":
        return list(k["types"])
    if mode == "uniform":
        w = draw(st.sampled_from(WIDTHS))
        return [w] * len(k["types"])
    return [draw(st.sampled_from(WIDTHS)) for _ in k["types"]]


def _space(draw):
    return draw(st.sampled_from(["L1", "L1", "L1", "L1", "L1", None, "L3"]))


@st.composite
def elementwise_operation(draw, tier="quick", kernel=None, allow_odd=True):
    """Elementwise operation of rank 1..3: identity / transposed / broadcast operands; rarely a strided (x2) or diagonal operand."""
    kernel = kernel or draw(st.sampled_from(["alu_add", "alu_add", "alu_mul", "xdma_add", "xdma_rescale_down", "xdma_rescale_up",
                                             "gemmx_rescale"]))
    k = KERNELS[kernel]
    T = TEMPLATE_BOUNDS[kernel]
    nt = len(T)
    n = draw(st.integers(nt, 3))
    cap = _cap(tier)
    # which iteration dims are meant to land on the template dims (innermost template dim last)
    tdims = list(draw(st.permutations(list(range(n)))))[:nt]
    bounds = [0] * n
    prod = 1
    for j, d in enumerate(tdims):
        bounds[d] = draw(_template_bound(T[j]))
        prod *= bounds[d]
    for d in range(n):
        if bounds[d] == 0:
            bounds[d] = draw(st.integers(1, max(1, min(12, cap // (4 * prod)))))
            prod *= bounds[d]
    while prod > cap // 2:
        i = max(range(n), key=lambda q: bounds[q])
        prod //= bounds[i]
        bounds[i] = max(1, bounds[i] // 2)
        prod *= bounds[i]
    if kernel.startswith("xdma"):
        types = list(k["types"])  # the xdma extensions are selected by exact kernel types
        wmode = "default"
    else:
        wmode = draw(st.sampled_from(["default", "default", "uniform", "uniform", "any"]))
        types = draw(_widths(kernel, wmode))
    tags = ["fam:elementwise", f"widths:{wmode}"]
    nops = len(types)
    odd = draw(st.sampled_from(["none"] * 16 + ["strided", "strided", "diag", "offset", "constrow", "constrow"])) if allow_odd else "none"
    odd_k = draw(st.integers(0, nops - 2)) if odd != "none" else -1  # never the output: it defines the iteration bounds last
    operands = []
    for q in range(nops):
        sel = list(range(n))
        var = draw(st.sampled_from(["id", "id", "id", "id", "perm", "bcast"])) if n > 1 and q < nops - 1 else "id"
        if var == "perm":
            sel = list(draw(st.permutations(sel)))
            tags.append("operand:permuted")
        elif var == "bcast":
            drop = draw(st.integers(0, n - 1))
            sel = [d for d in sel if d != drop]
            tags.append("operand:broadcast")
        A = _unit_rows(sel, n)
        b = [0] * len(A)
        if q == odd_k:
            if odd == "strided":
                i = draw(st.integers(0, len(A) - 1))
                A[i] = [2 * c for c in A[i]]
                tags.append("odd:strided")
            elif odd == "diag":
                i = draw(st.integers(0, len(A) - 1))
                A.insert(draw(st.integers(0, len(A))), list(A[i]))
                b = [0] * len(A)
                tags.append("odd:diag")
            elif odd == "offset":
                i = draw(st.integers(0, len(A) - 1))
                b[i] = draw(st.integers(1, 3))
                tags.append("odd:offset")
            elif odd == "constrow":
                # the operand is one slice of a larger buffer: an extra operand dim indexed by a constant
                i = draw(st.integers(0, len(A)))
                A.insert(i, [0] * n)
                b.insert(i, draw(st.integers(0, 2)))
                tags.append("odd:constrow")
        operands.append(_mk_operand([], types[q], A, b, space="L1"))
    r = dict(form="operation", kernel=kernel, acc=k["acc"], dims=n, bounds=bounds, operands=operands, tags=tags)
    slack = None
    if odd == "strided":
        # linalg accepts any size >= the largest index + 1 for a non-trivial index expression; an even size is the common case
        slack = [[(1 if (q == odd_k and any(abs(c) == 2 for c in row)) else 0) * draw(st.sampled_from([1, 1, 0])) for row in o["A"]]
                 for q, o in enumerate(operands)]
    if odd == "constrow":
        slack = [[(draw(st.integers(1, 3)) if (q == odd_k and not any(row)) else 0) for row in o["A"]] for q, o in enumerate(operands)]
    fit_shapes(r, slack)
    sp = _space(draw)
    for o in r["operands"]:
        o["space"] = sp
    # every iteration dim must be recoverable from a plain `dN` result (dart.operation.get_static_pattern_bounds)
    if derived_operation_bounds(r) != bounds:
        # e.g. broadcast/strided operand listed first: put the output's identity map in front by making operand 0 plain
        r["operands"][0] = _mk_operand(bounds, types[0], _unit_rows(range(n), n), space=sp)
        r["tags"] = [t for t in tags if not t.startswith("odd:") or odd_k != 0] + ["fixed:first-operand-identity"]
    return r


_MATMUL_KERNELS = ["mac", "mac", "qmac", "qmac", "mac_add", "qmac_add", "mac_rescale", "mac_add_rescale"]


@st.composite
def matmul_operation(draw, tier="quick", kernel=None):
    """(batched) matmul / gemm for the gemmx matmul template: A(m,k) B(k,n) [C(m,n) | C(n)] D(m,n), operands optionally
    transposed, optional batch dim, optional strided<> layout on an input (as upstream's dart-scheduler.mlir)."""
    kernel = kernel or draw(st.sampled_from(_MATMUL_KERNELS))
    k = KERNELS[kernel]
    cap = _cap(tier)
    batch = draw(st.sampled_from([0, 0, 0, 1]))
    n = 3 + batch
    M = draw(_template_bound(8))
    N = draw(_template_bound(8))
    K = draw(_template_bound(8))
    B = draw(st.integers(1, 3)) if batch else 1
    while B * max(M * K, K * N, M * N) > cap:
        if B > 1:
            B -= 1
        elif M >= N and M >= K:
            M = max(1, M // 2)
        elif N >= K:
            N = max(1, N // 2)
        else:
            K = max(1, K // 2)
    bounds = ([B] if batch else []) + [M, N, K]
    o = batch
    m, nn, kk = o, o + 1, o + 2
    wmode = draw(st.sampled_from(["default", "default", "default", "any"]))
    types = draw(_widths(kernel, wmode))
    tags = ["fam:matmul", f"widths:{wmode}"] + (["batch"] if batch else [])

    def sel2(a, b_, allow_t=True, with_batch=True):
        s = [a, b_]
        if allow_t and draw(st.integers(0, 4)) == 0:
            s = [b_, a]
            tags.append("operand:transposed")
        if batch and with_batch:
            s = [0] + s
        return s

    sels = [sel2(m, kk), sel2(kk, nn, with_batch=bool(batch and draw(st.booleans())))]
    if k["n_in"] == 3:
        c = draw(st.sampled_from(["mn", "mn", "n", "n", "m"]))
        if c == "mn":
            sels.append(sel2(m, nn, allow_t=False))
        else:
            sels.append([nn] if c == "n" else [m])
            tags.append("bias:broadcast")
    sels.append(sel2(m, nn, allow_t=False))
    sp = _space(draw)
    operands = [_mk_operand([], t, _unit_rows(s, n), space=sp) for t, s in zip(types, sels)]
    r = dict(form="operation", kernel=kernel, acc=k["acc"], dims=n, bounds=bounds, operands=operands, tags=tags)
    fit_shapes(r)
    if draw(st.integers(0, 7)) == 0:
        # a column-major input, given as a strided memref (not a TSL layout: the pass is free to recast it)
        q = draw(st.integers(0, 1))
        sh = r["operands"][q]["shape"]
        strides, acc = [], 1
        for s in sh:  # first dim fastest
            strides.append(acc)
            acc *= s
        r["operands"][q]["layout"] = dict(strided=strides, offset=0)
        tags.append("operand:strided-memref")
    return r


@st.composite
def conv_operation(draw, tier="quick"):
    """Convolution mapped on the gemmx matmul template as upstream's set-memory-layout.mlir does:
    O(b, oc, oy, ox) += I(b, c, s*oy + d*fy, s*ox + d*fx) * W(oc, c, fy, fx); 1-D or 2-D window, NCHW or NHWC operand order,
    stride s and dilation d in {1, 2}; the input may be larger than the window needs."""
    kernel = draw(st.sampled_from(["mac", "qmac"]))
    k = KERNELS[kernel]
    cap = _cap(tier)
    two_d = draw(st.booleans())
    OX = 8 * draw(st.sampled_from([1, 1, 2, 2, 3]))
    OC = 8 * draw(st.sampled_from([1, 1, 2]))
    C = 8 * draw(st.sampled_from([1, 1, 2]))
    FX = draw(st.sampled_from([1, 2, 3, 3]))
    OY = draw(st.sampled_from([1, 1, 2, 3, 4, 5, 6])) if two_d else 1
    FY = draw(st.sampled_from([1, 2, 3])) if two_d else 1
    s = draw(st.sampled_from([1, 1, 1, 2]))
    dl = draw(st.sampled_from([1, 1, 1, 2]))
    Bn = draw(st.sampled_from([1, 1, 2]))
    # iteration dims: b, oc, oy, ox, c, fy, fx
    names = ["b", "oc", "oy", "ox", "c", "fy", "fx"]
    bnd = dict(b=Bn, oc=OC, oy=OY, ox=OX, c=C, fy=FY, fx=FX)
    if not two_d:
        names = ["b", "oc", "ox", "c", "fx"]
    n = len(names)
    ix = {nm: i for i, nm in enumerate(names)}

    def row(**coefs):
        rw = [0] * n
        for nm, c in coefs.items():
            rw[ix[nm]] = c
        return rw

    nhwc = draw(st.booleans())
    if two_d:
        I = [row(b=1), row(c=1), row(oy=s, fy=dl), row(ox=s, fx=dl)]
        W = [row(oc=1), row(c=1), row(fy=1), row(fx=1)]
        O = [row(b=1), row(oc=1), row(oy=1), row(ox=1)]
        if nhwc:
            I = [I[0], I[2], I[3], I[1]]
            W = [W[2], W[3], W[1], W[0]]
            O = [O[0], O[2], O[3], O[1]]
    else:
        I = [row(b=1), row(c=1), row(ox=s, fx=dl)]
        W = [row(oc=1), row(c=1), row(fx=1)]
        O = [row(b=1), row(oc=1), row(ox=1)]
        if nhwc:
            I = [I[0], I[2], I[1]]
            W = [W[2], W[1], W[0]]
            O = [O[0], O[2], O[1]]
    bounds = [bnd[nm] for nm in names]
    types = list(k["types"])
    sp = _space(draw)
    operands = [_mk_operand([], t, A, space=sp) for t, A in zip(types, (I, W, O))]
    tags = ["fam:conv", "conv:2d" if two_d else "conv:1d", "conv:nhwc" if nhwc else "conv:nchw"]
    if s > 1:
        tags.append("conv:strided")
    if dl > 1:
        tags.append("conv:dilated")
    r = dict(form="operation", kernel=kernel, acc=k["acc"], dims=n, bounds=bounds, operands=operands, tags=tags)
    extra = draw(st.sampled_from([0, 0, 0, 0, 1, 2, 3]))
    slack = [[(extra if sum(1 for c in rw if c) > 1 or any(abs(c) > 1 for c in rw) else 0) for rw in o["A"]] for o in operands]
    if extra:
        tags.append("conv:input-larger-than-window")
    fit_shapes(r, slack)
    while max_operand_elems(r) > cap:
        # shrink the largest free bound
        cand = [i for i, nm in enumerate(names) if nm in ("oy", "b", "ox", "oc", "c") and r["bounds"][i] > (1 if nm in ("oy", "b") else 8)]
        if not cand:
            break
        i = max(cand, key=lambda q: r["bounds"][q])
        r["bounds"][i] = r["bounds"][i] - 8 if names[i] in ("ox", "oc", "c") else r["bounds"][i] - 1
        fit_shapes(r, slack)
    return r


@st.composite
def operation_recipe(draw, tier="quick"):
    """dart.operation recipes the real dart-scheduler mostly accepts (elementwise / matmul+gemm / conv-like)."""
    fam = draw(st.sampled_from(["elementwise", "elementwise", "elementwise", "matmul", "matmul", "matmul", "conv", "conv"]))
    if fam == "elementwise":
        return draw(elementwise_operation(tier))
    if fam == "matmul":
        return draw(matmul_operation(tier))
    return draw(conv_operation(tier))


def _divisors(b):
    return [t for t in range(2, b) if b % t == 0]


@st.composite
def schedule_recipe(draw, tier="quick", kernel=None):
    """Directly generated dart.schedule: a base operation (operands index subsets of the iteration dims: reduction and broadcast
    dims, permuted operand dims, conv-like compound index expressions with stride/dilation, reversed access, constant
    offsets), then 0..3 tilings by any divisor and an arbitrary permutation of the iteration dims (or the scheduler-like
    order 'all outer tiles, then all inner tiles'). Shapes are what the access needs, sometimes larger."""
    kernel = kernel or draw(st.sampled_from(sorted(KERNELS)))
    k = KERNELS[kernel]
    cap = _cap(tier)
    nops = len(k["types"])
    n = draw(st.integers(1, 4))
    T = TEMPLATE_BOUNDS[kernel]
    bounds = []
    prod = 1
    for d in range(n):
        c = draw(st.integers(0, 9))
        if c < 5:
            b = draw(st.sampled_from(T)) * draw(st.sampled_from([1, 1, 2, 2, 3, 4]))
        elif c < 9:
            b = draw(st.integers(1, 12))
        else:
            b = draw(st.sampled_from([1, 1, 5, 7, 9, 18, 20, 27]))
        b = max(1, min(b, max(1, cap // (2 * prod))))
        bounds.append(b)
        prod *= b
    tags = ["fam:direct"]
    operands = []
    # the xdma extensions are selected by exact kernel types (get_template raises for anything else)
    wmode = "default" if kernel.startswith("xdma") else draw(st.sampled_from(["default", "uniform", "any", "any"]))
    types = draw(_widths(kernel, wmode))
    tags.append(f"widths:{wmode}")
    slack_rows = []
    # recipe-level flavour: most schedules access their operands completely; the odd index styles are confined to a minority
    flavour = draw(st.sampled_from(["plain"] * 8 + ["conv"] * 4 + ["reversed"] * 2 + ["partial"] * 3))
    tags.append(f"flavour:{flavour}")
    unit_outer = False
    if flavour in ("partial", "conv") and draw(st.booleans()):
        # a loop that runs once over a dimension of a larger buffer (one row block of a matrix, a one-tap window): either an
        # untiled dim of bound 1 or (below) a tiling whose outer loop has bound 1
        unit_outer = draw(st.booleans())
        if not unit_outer:
            bounds[draw(st.integers(0, n - 1))] = 1
        tags.append("has:unit-loop-on-partially-covered-operand")
    for q in range(nops):
        # dims this operand depends on; the rest are reduction dims (outputs) / broadcast dims (inputs)
        if q == nops - 1 or draw(st.integers(0, 2)) > 0 or n == 1:
            used = list(range(n))
            if n > 1 and draw(st.integers(0, 2)) == 0:
                used.remove(draw(st.sampled_from(used)))
                tags.append("has:reduction-or-broadcast-dim")
        else:
            used = [d for d in range(n) if draw(st.booleans())] or [draw(st.integers(0, n - 1))]
            if len(used) < n:
                tags.append("has:reduction-or-broadcast-dim")
        used = list(draw(st.permutations(used)))
        rows = []
        b = []
        slk = []
        i = 0
        while i < len(used):
            rw = [0] * n
            style = draw(st.integers(0, 5))
            if flavour == "plain" or (flavour == "conv" and style > 1) or style > 3:
                style = 99
            elif flavour == "conv":
                style = 0
            elif flavour == "reversed":
                style = 2
            else:
                style = draw(st.sampled_from([1, 1, 3, 4, 5, 5]))
            if style == 0 and i + 1 < len(used):
                # conv-like compound expression s*da + dl*db
                s_, dl_ = draw(st.sampled_from([(1, 1), (1, 1), (2, 1), (1, 2), (2, 2), (3, 1)]))
                rw[used[i]] = s_
                rw[used[i + 1]] = dl_
                i += 2
                rows.append(rw)
                b.append(0)
                slk.append(draw(st.sampled_from([0, 0, 0, 0, 0, 1, 2, 5])))
                tags.append("has:compound-index")
                continue
            if style == 1:
                rw[used[i]] = 2  # strided access
                slk.append(draw(st.sampled_from([0, 1, 1])))
                b.append(0)
                tags.append("has:strided-index")
            elif style == 2:
                rw[used[i]] = -1  # reversed access
                b.append(bounds[used[i]] - 1)
                slk.append(0)
                tags.append("has:reversed-index")
            elif style == 3:
                rw[used[i]] = 1
                b.append(draw(st.integers(1, 3)))  # constant offset
                slk.append(0)
                tags.append("has:offset-index")
            elif style == 5:
                # constant index: an operand dim of size >= 2 that no iteration dim indexes (one slice of a larger buffer);
                # the iteration dim itself is indexed by the next row
                rows.append([0] * n)
                b.append(draw(st.integers(0, 2)))
                slk.append(draw(st.integers(1, 3)))
                tags.append("has:constant-index")
                rw[used[i]] = 1
                b.append(0)
                slk.append(0)
            elif style == 4:
                rw[used[i]] = 1
                b.append(0)
                slk.append(bounds[used[i]] * draw(st.sampled_from([1, 1, 2])))  # operand larger than the iteration space
                tags.append("has:oversized-dim")
            else:
                rw[used[i]] = 1
                b.append(0)
                slk.append(0)
            rows.append(rw)
            i += 1
        operands.append(_mk_operand([], types[q], rows, b))
        slack_rows.append(slk)
    r = dict(form="schedule", kernel=kernel, acc=k["acc"], dims=n, bounds=bounds, operands=operands, tags=tags)
    fit_shapes(r, slack_rows)
    # shrink until every operand fits
    guard = 0
    while max_operand_elems(r) > cap and guard < 40:
        i = max(range(n), key=lambda q: r["bounds"][q])
        r["bounds"][i] = max(1, r["bounds"][i] // 2)
        for o in r["operands"]:  # keep reversed accesses in bounds
            for ri, rw in enumerate(o["A"]):
                if rw[i] < 0:
                    o["b"][ri] = r["bounds"][i] - 1
        for q, o in enumerate(r["operands"]):
            for ri, rw in enumerate(o["A"]):
                if slack_rows[q][ri] > 5:
                    slack_rows[q][ri] = r["bounds"][i]
        fit_shapes(r, slack_rows)
        guard += 1
    # tilings
    ntile = draw(st.sampled_from([0, 1, 1, 2, 2, 3]))
    inner = []  # positions of inner tile dims
    if unit_outer:
        ntile = max(1, ntile)
    for it_ in range(ntile):
        whole = unit_outer and it_ == 0  # the outer loop of this tiling runs once
        cands = [d for d in range(r["dims"]) if _divisors(r["bounds"][d]) or (whole and r["bounds"][d] > 1)]
        if not cands:
            break
        d = draw(st.sampled_from(cands))
        divs = _divisors(r["bounds"][d])
        pref = [t for t in divs if t in T]
        if whole:
            t = r["bounds"][d]
        else:
            t = draw(st.sampled_from(pref)) if pref and draw(st.booleans()) else draw(st.sampled_from(divs))
        r = tile_recipe(r, d, t)
        inner = [p + 1 if p > d else p for p in inner] + [d + 1]
        tags.append("tiled-schedule")
    nd = r["dims"]
    order = draw(st.sampled_from(["scheduler-like", "scheduler-like", "any", "any", "keep"]))
    if order == "any":
        perm = list(draw(st.permutations(list(range(nd)))))
    elif order == "scheduler-like":
        outer = [d for d in range(nd) if d not in inner]
        perm = list(draw(st.permutations(outer))) + list(draw(st.permutations(inner)))
    else:
        perm = list(range(nd))
    r = permute_recipe(r, perm)
    r["tags"] = sorted(set(tags)) + [f"order:{order}"]
    sp = _space(draw)
    for o in r["operands"]:
        o["space"] = sp
    if draw(st.integers(0, 9)) == 0:
        q = draw(st.integers(0, nops - 1))
        sh = r["operands"][q]["shape"]
        strides, acc = [0] * len(sh), 1
        for d in list(draw(st.permutations(list(range(len(sh)))))):
            strides[d] = acc
            acc *= sh[d]
        r["operands"][q]["layout"] = dict(strided=strides, offset=0)
        r["tags"].append("operand:strided-memref")
    return r


@st.composite
def with_tsl_layouts(draw, r, which=None):
    """Give some operands of recipe `r` an explicit #tsl.tsl layout that covers the operand shape one-to-one
    (tile bounds factor each dim, steps nested in a drawn order with optional gaps). which: None (drawn) | 'one' | 'all'."""
    from vlib import gen_tsl as T

    ops = r["operands"]
    which = which or draw(st.sampled_from(["one", "one", "some", "all"]))
    if which == "all":
        chosen = list(range(len(ops)))
    elif which == "one":
        chosen = [draw(st.integers(0, len(ops) - 1))]
    else:
        chosen = [q for q in range(len(ops)) if draw(st.booleans())] or [0]
    out = dict(r, operands=[dict(o) for o in ops], tags=list(r.get("tags", [])) + [f"tsl-operands:{which}"])
    for q in chosen:
        tb = []
        for s in ops[q]["shape"]:
            divs = [t for t in range(2, s) if s % t == 0]
            if divs and draw(st.booleans()):
                t = draw(st.sampled_from(divs))
                tb.append([s // t, t])
            else:
                tb.append([s])
        dims, _, _ = draw(T.nonoverlap_dims(tb))
        out["operands"][q]["layout"] = dict(tsl=dict(dims=dims, offset=draw(st.sampled_from([0, 0, 0, 64]))))
    return out


# ------------------------------------------------------------------------------------------------
# systematic sweeps (default maps)


def default_elementwise(kernel, shape, types=None, space="L1"):
    k = KERNELS[kernel]
    n = len(shape)
    types = types or k["types"]
    return dict(form="operation", kernel=kernel, acc=k["acc"], dims=n, bounds=list(shape),
                operands=[_mk_operand(shape, t, _unit_rows(range(n), n), space=space) for t in types], tags=["sweep:elementwise"])


def default_matmul(kernel, M, N, K, types=None, space="L1"):
    k = KERNELS[kernel]
    types = types or k["types"]
    sels = [[0, 2], [2, 1]] + ([[0, 1]] if k["n_in"] == 3 else []) + [[0, 1]]
    r = dict(form="operation", kernel=kernel, acc=k["acc"], dims=3, bounds=[M, N, K],
             operands=[_mk_operand([], t, _unit_rows(s, 3), space=space) for t, s in zip(types, sels)], tags=["sweep:matmul"])
    return fit_shapes(r)


def largest_divisor_up_to(s, T):
    return max(t for t in range(1, min(s, T) + 1) if s % t == 0)


def tiled_schedule_of(r, T_per_dim):
    """Turn an operation recipe with bounds into a dart.schedule recipe the way the scheduler would for perfectly divisible
    shapes, but for ANY shape: iteration dim d is split by the largest divisor of its bound that is <= T_per_dim[d]
    (no split if that is 1 or the whole bound); order: all outer dims, then all inner tiles."""
    out = dict(r, form="schedule", operands=[dict(o) for o in r["operands"]], tags=list(r.get("tags", [])) + ["sweep:direct"])
    inner = []
    d = 0
    for T in T_per_dim:
        B = out["bounds"][d]
        t = largest_divisor_up_to(B, T) if T else 1
        if 1 < t < B:
            out = tile_recipe(out, d, t)
            inner.append(d + 1)
            d += 2
        else:
            d += 1
    nd = out["dims"]
    outer = [q for q in range(nd) if q not in inner]
    return permute_recipe(out, outer + inner)
