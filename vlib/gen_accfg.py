"""accfg program recipes: Hypothesis strategies + MLIR builder (C01, C04, C06, C07).

A recipe is JSON: accelerators, number of value/condition arguments, constants, a statement tree and
three run-time input vectors. IR is built from the recipe as MLIR text in generic form.

Statements
  ["unit", acc, [vref per field], launch_vref|None]   full-field accfg.setup + launch + await
  ["for", {"lb": ["c", v]|["a"], "step": ["c", v]|["a"], "ub": ["a"]|["c", trips]}, body, [init vrefs], [yield vrefs]]
  ["if", ["p", k] | ["cmp", pred, vref, vref], then, else, [then-value vref, else-value vref]]   (5th element optional: data result)
  ["unit", acc, value refs, launch seed, [order seed, keep] | ["idx", [field indices]]]   optional 5th element: partial setup, other field order (C04, C07)
  ["call", annotated, k]    k = 0, 1: func.call @ext<k> (annotated: effects<none>); 2: "test.op" marked effects<full>; 3: plain "test.op";
                            k >= 4: func.call @loc<k % 2>(value, condition), a function defined in the module that sets up and launches an
                            accelerator (loc0: inside a conditional, loc1: at its top level); never annotated
  ["pure", opname, vref, vref]
  ["pure2", vref, vref]       arith.mului_extended: two results of the same type, both added to the value pool
A vref is an int taken modulo the number of values visible at that point (arguments, constants, induction
variables, loop-carried block arguments, pure results, loop results), so every recipe builds valid IR.
"""
from __future__ import annotations

from hypothesis import strategies as st

PURE_OPS = ["addi", "muli", "subi"]
CMP_PREDS = [0, 1, 2, 4]  # eq ne slt sgt
TRIPS = [0, 1, 2, 3, 5]


# ------------------------------------------------------------------------------------ strategies

def _vref():
    # negative references address the most recently defined values (induction variables, carried values, pure results)
    return st.integers(-5, 23)


@st.composite
def _unit(draw, accs, reuse_bias=True):
    a = draw(st.integers(0, len(accs) - 1))
    nf = len(accs[a][1])
    if reuse_bias and draw(st.booleans()):
        # small pool: repeated values across units are what dedup feeds on
        pool = [draw(st.integers(-3, 5)) for _ in range(2)]
        vals = [draw(st.sampled_from(pool)) for _ in range(nf)]
    else:
        vals = [draw(_vref()) for _ in range(nf)]
    launch = draw(st.sampled_from([None, None, 0, 1]))
    return ["unit", a, vals, launch]


@st.composite
def _loop_hdr(draw):
    mode = draw(st.sampled_from(["const", "arg", "arg", "mixed", "lbarg"]))
    if mode == "lbarg":
        # run-time lower bound, constant upper bound: the trip count (zero included) is decided by the argument alone
        return dict(lb=["a"], step=["c", draw(st.sampled_from([1, 1, 2, 3]))], ub=["k", draw(st.sampled_from([16, 20, 40]))])
    if mode == "const":
        return dict(lb=["c", draw(st.sampled_from([0, 0, 1, 3]))], step=["c", draw(st.sampled_from([1, 1, 2, 3]))],
                    ub=["c", draw(st.sampled_from(TRIPS)), draw(st.integers(0, 2))])
    if mode == "arg":
        return dict(lb=["a"], step=["a"], ub=["a"])
    return dict(lb=["c", draw(st.sampled_from([0, 0, 2]))], step=["c", draw(st.sampled_from([1, 2]))], ub=["a"])


def _stmts(accs, depth, max_stmts, calls=True, pure=True, carried=True, unit_weight=3, partial=False):
    @st.composite
    def block(draw, depth=depth, budget=max_stmts):
        n = draw(st.integers(1, max(1, min(5, budget))))
        out = []
        for _ in range(n):
            kinds = ["unit"] * unit_weight
            if depth > 0:
                kinds += ["for", "for", "if"]
            if calls:
                kinds += ["call"]
            if pure:
                kinds += ["pure"]
            if pure:
                kinds += ["chain_unit", "two_results"]
            if depth > 1:
                kinds += ["if_chain"]
            if calls or pure:
                kinds += ["rep_unit"]
            if depth > 1 and carried:
                kinds += ["tower", "region_value_unit"]
            if depth > 1:
                kinds += ["loop_if", "if_restore"]
            k = draw(st.sampled_from(kinds))
            if k == "two_results":
                # a pure op with two results of the same type (low and high word of a product); one unit takes a field from the first
                # result, the next unit takes the same field from the second (or the other way round)
                a = draw(st.integers(0, len(accs) - 1))
                nf = len(accs[a][1])
                out.append(["pure2", draw(_vref()), draw(_vref())])
                base = [draw(st.sampled_from([-1, -2, draw(st.integers(0, 9))])) for _ in range(nf)]
                f = draw(st.integers(0, nf - 1))
                first, second = draw(st.sampled_from([(-2, -1), (-1, -2)]))
                u1, u2 = list(base), list(base)
                u1[f], u2[f] = first, second
                out.append(["unit", a, u1, None])
                if calls and draw(st.integers(0, 4)) == 0:
                    out.append(["call", True, draw(st.integers(0, 1))])
                out.append(["unit", a, u2, None])
                continue
            if k == "if_restore":
                # both branches of a conditional leave field F at the same value A (other fields differ); behind it one unit changes F,
                # the next one restores it to A; the units share no other value, so nothing else around them is rewritten.  Optionally
                # behind an opaque call (nothing known on entry) and with further restore/change rounds.
                a = draw(st.integers(0, len(accs) - 1))
                nf = len(accs[a][1])
                refs = list(draw(st.permutations(list(range(0, 12)))))
                f = draw(st.integers(0, nf - 1))
                A, D = refs[0], refs[1]

                def fu(own, fv):
                    v = [own] * nf
                    v[f] = fv
                    return ["unit", a, v, None]

                if calls and draw(st.booleans()):
                    out.append(["call", False, draw(st.integers(0, 1))])
                out.append(["if", ["p", draw(st.integers(0, 3))], [fu(refs[2], A)], [fu(refs[3], A)]])
                out.append(fu(refs[4], D))
                out.append(fu(refs[5], A))
                if draw(st.booleans()):
                    out.append(fu(refs[6], draw(st.sampled_from([A, D]))))
                continue
            if k == "tower":
                # a loop nest of depth 2..3 on one accelerator with a unit at the head of every level and (optionally) a unit behind
                # every inner loop: what is known behind an inner loop depends on what the enclosing levels do
                a = draw(st.integers(0, len(accs) - 1))

                tpool = [draw(_vref()), draw(_vref()), -1, -1]  # -1 = the innermost induction variable (or latest value) at that point

                def one_unit():
                    nf = len(accs[a][1])
                    return ["unit", a, [draw(st.sampled_from(tpool)) for _ in range(nf)], None]

                def level(n):
                    body = [one_unit()]
                    if n > 0:
                        nc = draw(st.sampled_from([0, 0, 1]))
                        body.append(["for", draw(_loop_hdr()), level(n - 1), [draw(_vref()) for _ in range(nc)], [draw(_vref()) for _ in range(nc)]])
                        if draw(st.booleans()):
                            body.append(one_unit())
                    return body

                out.append(["for", draw(_loop_hdr()), level(draw(st.integers(1, 2))), [], []])
                continue
            if k == "loop_if":
                # a configuration before a loop; inside the loop a conditional whose branches write (almost) that configuration or
                # something else, followed by a unit that changes it again; optionally all inside another loop with a unit behind the
                # inner loop: what holds after the conditional differs between the first and later iterations
                a = draw(st.integers(0, len(accs) - 1))
                nf = len(accs[a][1])
                base = [draw(_vref()) for _ in range(nf)]
                lpool = base + [draw(_vref()), -1]

                def variant(p):
                    v = list(base)
                    for j in range(nf):
                        if draw(st.integers(0, 99)) < p:
                            v[j] = draw(st.sampled_from(lpool))
                    u_ = ["unit", a, v, None]
                    if partial and nf > 1 and draw(st.booleans()):
                        # hand-written style (C07 only): the unit configures a subset of the fields
                        u_.append([draw(st.integers(0, 11)), draw(st.integers(0, max(0, nf - 2)))])
                    return u_

                if partial and nf > 1 and draw(st.booleans()):
                    # one field F is set before the loop, restored to that value in one branch only, left alone in the other branch
                    # and changed behind the conditional; the other fields go their own way
                    f = draw(st.integers(0, nf - 1))
                    others = [j for j in range(nf) if j != f]
                    alt = list(base)
                    alt[f] = draw(st.sampled_from(lpool))
                    restore = ["unit", a, list(base), None, ["idx", [f] + (others[:1] if draw(st.booleans()) else [])]]
                    leave = ["unit", a, list(alt), None, ["idx", others[: draw(st.integers(1, len(others)))]]]
                    change = ["unit", a, list(alt), None, ["idx", [f] + (others[:1] if draw(st.booleans()) else [])]]
                    branches = [[restore], [leave]]
                    if draw(st.integers(0, 3)) == 0:
                        branches.reverse()
                    loop = ["for", draw(_loop_hdr()), [["if", ["p", draw(st.integers(0, 3))], branches[0], branches[1]], change], [], []]
                    if draw(st.booleans()):
                        loop = ["for", draw(_loop_hdr()), [loop], [], []]
                    out.append(["unit", a, list(base), None])
                    out.append(loop)
                    if draw(st.booleans()):
                        out.append(variant(30))
                    continue
                th = [variant(20)] if draw(st.integers(0, 4)) else []
                el = [variant(60)] if draw(st.booleans()) else []
                inner_body = [["if", ["p", draw(st.integers(0, 3))], th, el], variant(70)]
                if draw(st.booleans()):
                    inner_body.insert(0, variant(50))
                loop = ["for", draw(_loop_hdr()), inner_body, [], []]
                if draw(st.booleans()):
                    loop = ["for", draw(_loop_hdr()), [loop] + ([variant(70)] if draw(st.booleans()) else []), [], []]
                out.append(variant(0))
                out.append(loop)
                if draw(st.booleans()):
                    out.append(variant(30))
                continue
            if k == "region_value_unit":
                # a setup value computed by (nested) region ops from values defined right before: a pure op, then a loop carrying a
                # value whose body holds a conditional that picks between that late value / the induction variable and the carried
                # value, then a unit fed by the loop result
                out.append(["pure", draw(st.sampled_from(PURE_OPS)), draw(_vref()), draw(_vref())])
                inner = ["if", ["p", draw(st.integers(0, 3))], [], [], [draw(st.sampled_from([-3, -2, -3])), -1]]
                body = [inner] if draw(st.booleans()) else [["pure", draw(st.sampled_from(PURE_OPS)), -3, draw(st.sampled_from([-1, -2]))]]
                if draw(st.integers(0, 2)) == 0:
                    body = [["for", draw(_loop_hdr()), body, [-1], [-1]]]
                out.append(["for", draw(_loop_hdr()), body, [draw(_vref())], [-1]])
                u = draw(_unit(accs))
                if u[2]:
                    u[2][draw(st.integers(0, len(u[2]) - 1))] = -1
                out.append(u)
                continue
            if k == "rep_unit":
                # the same configuration written twice with something in between that may or may not keep the registers
                # (an opaque or annotated call, a unit of any accelerator, a pure op, a loop or conditional around a call, or nothing):
                # the second write is what deduplication wants to remove and may only remove when the state survives the middle part
                u = draw(_unit(accs))
                out.append(u)
                for _ in range(draw(st.integers(0, 2))):
                    mk = draw(st.sampled_from((["call", "call", "carrier", "carrier"] if calls else []) + ["unit"] + (["pure"] if pure else [])))
                    if mk == "call":
                        out.append(["call", draw(st.sampled_from([False, False, True])), draw(st.integers(0, 1))])
                    elif mk == "carrier":
                        # an opaque call wrapped in 1..2 region ops that hold nothing else: a loop, the then- or the else-branch of an if
                        # (sometimes beside a call annotated as effect free, before or behind it)
                        inner = [["call", False, draw(st.sampled_from([0, 1, 0, 1, 2, 4, 5]))]]
                        beside = draw(st.sampled_from([None, None, "before", "behind"]))
                        if beside == "before":
                            inner.insert(0, ["call", True, draw(st.integers(0, 1))])
                        elif beside == "behind":
                            inner.append(["call", True, draw(st.integers(0, 1))])
                        for _ in range(draw(st.integers(1, 2)) if depth > 1 else (1 if depth > 0 else 0)):
                            w = draw(st.sampled_from(["for", "then", "else", "else"]))
                            if w == "for":
                                inner = [["for", draw(_loop_hdr()), inner, [], []]]
                            elif w == "then":
                                inner = [["if", ["p", draw(st.integers(0, 3))], inner, []]]
                            else:
                                inner = [["if", ["p", draw(st.integers(0, 3))], [], inner]]
                        out.extend(inner)
                    elif mk == "pure":
                        out.append(["pure", draw(st.sampled_from(PURE_OPS)), draw(_vref()), draw(_vref())])
                    else:
                        out.append(draw(_unit(accs)))
                u2 = ["unit", u[1], list(u[2]), draw(st.sampled_from([None, None, 0, 1]))]
                if draw(st.integers(0, 2)) == 0 and u2[2]:
                    u2[2][draw(st.integers(0, len(u2[2]) - 1))] = draw(_vref())
                wrap = draw(st.sampled_from([None, None, None, "then", "else", "for"])) if depth > 0 else None
                if wrap is None:
                    out.append(u2)
                    continue
                # the repeated unit sits in a conditional or a loop (its setup may be removed completely, leaving a launch that uses
                # the outer state from inside a region) and a further, different unit of the same accelerator follows
                if wrap == "for":
                    # (the loop body may end in an opaque call: the state yielded to the next iteration is then unknown)
                    tail = [["call", False, draw(st.integers(0, 1))]] if calls and draw(st.booleans()) else []
                    out.append(["for", draw(_loop_hdr()), [u2] + tail, [], []])
                elif wrap == "then":
                    out.append(["if", ["p", draw(st.integers(0, 3))], [u2], []])
                else:
                    out.append(["if", ["p", draw(st.integers(0, 3))], [], [u2]])
                u3 = ["unit", u[1], list(u[2]), draw(st.sampled_from([None, None, 0]))]
                if u3[2]:
                    u3[2][draw(st.integers(0, len(u3[2]) - 1))] = draw(_vref())
                out.append(u3)
                continue
            if k == "if_chain":
                # if / else-if chain without a final else whose setting branches agree on some field values, followed by a unit that
                # writes (some of) them again: the state after the chain is an intersection over three paths
                u = draw(_unit(accs))
                u2 = ["unit", u[1], list(u[2]), u[3]]
                if draw(st.booleans()) and u2[2]:
                    u2[2][draw(st.integers(0, len(u2[2]) - 1))] = draw(_vref())
                c1 = ["p", draw(st.integers(0, 3))]
                c2 = ["p", draw(st.integers(0, 3))]
                inner = ["if", c2, [u2], draw(st.sampled_from([[], [], [draw(_unit(accs))]]))]
                if draw(st.booleans()):
                    out.append(["if", c1, [u], [inner]])
                else:
                    out.append(["if", c1, [inner], [u]])
                u3 = ["unit", u[1], list(u[2]), u[3]]
                if draw(st.booleans()) and u3[2]:
                    u3[2][draw(st.integers(0, len(u3[2]) - 1))] = draw(_vref())
                out.append(u3)
                continue
            if k == "chain_unit":
                # a chain of pure ops (each using the previous result) followed by a unit fed by the chain results at different depths,
                # in any field order: the shape setup/compute overlap has to move as a whole
                nchain = draw(st.integers(1, 3))
                for j in range(nchain):
                    other = draw(st.integers(-6, 6))
                    first = -1 if j else draw(st.integers(-4, 4))
                    out.append(["pure", draw(st.sampled_from(PURE_OPS)), first, other] if draw(st.booleans())
                               else ["pure", draw(st.sampled_from(PURE_OPS)), other, first])
                a = draw(st.integers(0, len(accs) - 1))
                nf = len(accs[a][1])
                refs = [draw(st.sampled_from([-1, -2, -3][:nchain] + [draw(st.integers(0, 5))])) for _ in range(nf)]
                out.append(["unit", a, refs, draw(st.sampled_from([None, None, 0]))])
            elif k == "unit":
                out.append(draw(_unit(accs)))
            elif k == "for":
                hdr = draw(_loop_hdr())
                body = draw(block(depth=depth - 1, budget=max(1, budget // 2)))
                nc = draw(st.sampled_from([0, 0, 0, 1, 2])) if carried else 0
                inits = [draw(_vref()) for _ in range(nc)]
                ylds = [draw(_vref()) for _ in range(nc)]
                out.append(["for", hdr, body, inits, ylds])
            elif k == "if":
                cond = draw(st.one_of(st.tuples(st.just("p"), st.integers(0, 3)).map(list),
                                      st.tuples(st.just("cmp"), st.sampled_from(CMP_PREDS), _vref(), _vref()).map(list)))
                th = draw(block(depth=depth - 1, budget=max(1, budget // 2)))
                el = draw(st.one_of(st.just([]), block(depth=depth - 1, budget=max(1, budget // 2))))
                if carried and draw(st.integers(0, 3)) == 0:
                    # the conditional also returns a data value (then-value, else-value); it becomes the most recent visible value
                    out.append(["if", cond, th, el, [draw(_vref()), draw(_vref())]])
                    if draw(st.booleans()):
                        # and a unit right behind it uses that value
                        u = draw(_unit(accs))
                        if u[2]:
                            u[2][draw(st.integers(0, len(u[2]) - 1))] = -1
                        out.append(u)
                else:
                    out.append(["if", cond, th, el])
            elif k == "call":
                out.append(["call", draw(st.booleans()), draw(st.sampled_from([0, 1, 0, 1, 2, 3, 4, 5, 6, 7]))])
            else:
                out.append(["pure", draw(st.sampled_from(PURE_OPS)), draw(_vref()), draw(_vref())])
        return out

    return block()


def count_loops(body):
    n = 0
    for s in body:
        if s[0] == "for":
            n += 1 + count_loops(s[2])
        elif s[0] == "if":
            n += count_loops(s[2]) + count_loops(s[3])
    return n


@st.composite
def _inputs(draw, nargs, nconds, nloops):
    vecs = []
    for k in range(3):
        a = [draw(st.integers(-3, 9)) for _ in range(nargs)]
        p = [draw(st.integers(0, 1)) for _ in range(nconds)]
        loops = []
        for _ in range(nloops):
            loops.append([draw(st.sampled_from([0, 0, 1, 2, 7])), draw(st.sampled_from([1, 1, 2, 3])),
                          draw(st.sampled_from(TRIPS)), draw(st.integers(0, 2))])
        vecs.append(dict(a=a, p=p, loops=loops))
    return vecs


@st.composite
def program(draw, tier="quick", calls=True, pure=True, carried=True, max_accs=2, fields=None, partial=False):
    depth = 3 if tier == "quick" else 4
    max_stmts = 8 if tier == "quick" else 14
    # tight mode: few fields and a very small value pool, so that different setups collide on the same values often
    tight = draw(st.booleans())
    naccs = draw(st.integers(1, max_accs)) if not tight or fields is not None else 1
    accs = []
    for i in range(naccs):
        if fields is not None:
            accs.append([fields[i][0], list(fields[i][1])])
        else:
            nf = 2 if tight else draw(st.integers(2, 4))
            accs.append([f"acc{i}", [f"f{j}" for j in range(nf)]])
    nargs = 1 if tight else draw(st.integers(1, 3))
    consts = draw(st.lists(st.sampled_from([0, 1, 2, 5, 16, 64]), min_size=1, max_size=1 if tight else 3, unique=True))
    nconds = draw(st.integers(1, 3))
    body = draw(_stmts(accs, depth, max_stmts, calls=calls, pure=pure, carried=carried, partial=partial))
    inputs = draw(_inputs(nargs, nconds, count_loops(body)))
    return dict(accs=accs, nargs=nargs, consts=consts, nconds=nconds, body=body, inputs=inputs)


# ------------------------------------------------------------------------------------ builder

class Built:
    def __init__(self):
        self.text = ""
        self.arg_names: list[str] = []  # in function argument order
        self.arg_types: list[str] = []
        self.loop_args: list[dict] = []  # per loop id: {"lb": name|None, "step": name|None, "ub": name|None, consts...}
        self.nloops = 0
        self.features: set[str] = set()


def build(recipe, ty=None, extra_module_ops="", func_name="main") -> Built:
    b = Built()
    ty = ty or recipe.get("ty", "index")
    accs = recipe["accs"]
    lines: list[str] = []
    counter = [0]

    def fresh(p="v"):
        counter[0] += 1
        return f"%{p}{counter[0]}"

    args = [(f"%a{i}", ty) for i in range(recipe["nargs"])] + [(f"%p{i}", "i1") for i in range(recipe["nconds"])]
    loop_arg_decls: list[tuple[str, str]] = []
    const_lines: list[str] = []
    vals = [a for a, _ in args[: recipe["nargs"]]]
    for i, c in enumerate(recipe["consts"]):
        const_lines.append(f'  %c{i} = "arith.constant"() <{{value = {c} : {ty}}}> : () -> {ty}')
        vals.append(f"%c{i}")
    hdr_consts: dict[int, str] = {}

    def hconst(v):
        if v not in hdr_consts:
            nm = f"%k{len(hdr_consts)}"
            hdr_consts[v] = nm
            const_lines.append(f'  {nm} = "arith.constant"() <{{value = {v} : {ty}}}> : () -> {ty}')
        return hdr_consts[v]

    def vref(r, vals):
        return vals[r % len(vals)]

    local_used: set[int] = set()

    def emit_block(stmts, vals, ind, depth, in_loop):
        out = []
        pad = "  " * ind
        for s in stmts:
            k = s[0]
            if k == "unit":
                _, a, vrs, launch = s[:4]
                name, fields = accs[a % len(accs)][:2]
                ops = [vref(vrs[j % len(vrs)] if vrs else 0, vals) for j in range(len(fields))]
                if len(s) > 4 and s[4] is not None and len(fields) > 1:
                    # partial setup in another field order (C04 only): rotate by s[4][0], reverse if odd, keep the first s[4][1] % n + 1
                    if s[4][0] == "idx":
                        # explicit list of field indices
                        idxs = []
                        for j in s[4][1]:
                            if j % len(fields) not in idxs:
                                idxs.append(j % len(fields))
                        idxs = idxs or [0]
                    else:
                        idxs = list(range(len(fields)))
                        rot = s[4][0] % len(idxs)
                        idxs = idxs[rot:] + idxs[:rot]
                        if s[4][0] & 1:
                            idxs.reverse()
                        idxs = idxs[: s[4][1] % len(idxs) + 1]
                    fields = [fields[j] for j in idxs]
                    ops = [ops[j] for j in idxs]
                    b.features.add("partial_unit")
                st_ = fresh("s")
                names = ", ".join(f'"{f}"' for f in fields)
                out.append(f'{pad}{st_} = "accfg.setup"({", ".join(ops)}) <{{accelerator = "{name}", operandSegmentSizes = array<i32: {len(ops)}, 0>, '
                           f'param_names = [{names}]}}> : ({", ".join([ty] * len(ops))}) -> !accfg.state<"{name}">')
                tk = fresh("t")
                acc_entry = accs[a % len(accs)]
                if len(acc_entry) > 2:
                    # declared launch fields: one value per launch field (launch is a vref seed)
                    lfields = list(acc_entry[2])
                    seed = launch if launch is not None else 0
                    # launch parameters are looked up by name: any order is valid; a subset too unless the fields come in rs1/rs2 pairs
                    rot = (seed * 7 + len(out)) % len(lfields)
                    lfields = lfields[rot:] + lfields[:rot]
                    if len(lfields) > 1 and not lfields[0].endswith((".rs1", ".rs2")) and (seed + len(out)) % 5 == 0:
                        lfields = lfields[:-1]
                    lvs = [vref(seed + j, vals) for j in range(len(lfields))]
                    lnames = ", ".join(f'"{f}"' for f in lfields)
                    out.append(f'{pad}{tk} = "accfg.launch"({", ".join(lvs + [st_])}) <{{param_names = [{lnames}], accelerator = "{name}"}}> : '
                               f'({", ".join([ty] * len(lvs) + [f"!accfg.state<{chr(34)}{name}{chr(34)}>"])}) -> !accfg.token<"{name}">')
                elif launch is None:
                    out.append(f'{pad}{tk} = "accfg.launch"({st_}) <{{param_names = [], accelerator = "{name}"}}> : (!accfg.state<"{name}">) -> !accfg.token<"{name}">')
                else:
                    lv = vref(launch, vals)
                    out.append(f'{pad}{tk} = "accfg.launch"({lv}, {st_}) <{{param_names = ["launch"], accelerator = "{name}"}}> : ({ty}, !accfg.state<"{name}">) -> !accfg.token<"{name}">')
                out.append(f'{pad}"accfg.await"({tk}) : (!accfg.token<"{name}">) -> ()')
                b.features.add("in_loop_unit" if in_loop else "top_unit")
            elif k == "pure":
                _, opn, x, y = s
                r = fresh("x")
                out.append(f'{pad}{r} = "arith.{opn}"({vref(x, vals)}, {vref(y, vals)}) : ({ty}, {ty}) -> {ty}')
                vals.append(r)
            elif k == "pure2":
                _, x, y = s
                r0, r1 = fresh("x"), fresh("x")
                out.append(f'{pad}{r0}, {r1} = "arith.mului_extended"({vref(x, vals)}, {vref(y, vals)}) : ({ty}, {ty}) -> ({ty}, {ty})')
                vals.extend([r0, r1])
                b.features.add("two_result_pure_op")
            elif k == "call":
                _, annotated, kk = s
                if kk < 4 and kk % 4 == 2:
                    # not a call: an opaque op marked as reconfiguring the accelerators
                    out.append(f'{pad}"test.op"() {{"accfg.effects" = #accfg.effects<full>}} : () -> ()')
                    b.features.add("op_marked_full")
                elif kk >= 4:
                    # call of a function defined in the same module that configures and launches an accelerator (kk even: inside a
                    # conditional; odd: at the top level of the callee); never annotated
                    j = kk % 2
                    local_used.add(j)
                    out.append(f'{pad}"func.call"({vref(kk // 2, vals)}, %p{(kk // 4) % recipe["nconds"]}) <{{callee = @loc{j}}}> : ({ty}, i1) -> ()')
                    b.features.add("call_local_function")
                elif kk % 4 == 3:
                    out.append(f'{pad}"test.op"() : () -> ()')
                    b.features.add("op_unmarked")
                else:
                    attr = ' {"accfg.effects" = #accfg.effects<none>}' if annotated else ""
                    out.append(f'{pad}"func.call"() <{{callee = @ext{kk % 2}}}>{attr} : () -> ()')
                    b.features.add("call_annotated" if annotated else "call_plain")
            elif k == "for":
                _, hdr, body, inits, ylds = s
                lid = b.nloops
                b.nloops += 1
                info = dict(hdr=hdr)
                names = {}
                for key in ("lb", "step", "ub"):
                    spec = hdr[key]
                    if spec[0] == "a":
                        nm = f"%{key}{lid}"
                        loop_arg_decls.append((nm, ty))
                        names[key] = nm
                        info[key] = nm
                    else:
                        info[key] = None
                if hdr["lb"][0] == "c":
                    names["lb"] = hconst(hdr["lb"][1])
                if hdr["step"][0] == "c":
                    names["step"] = hconst(hdr["step"][1])
                if hdr["ub"][0] == "k":
                    names["ub"] = hconst(hdr["ub"][1])
                if hdr["ub"][0] == "c":
                    # constant trip count: needs constant lb and step
                    lbv = hdr["lb"][1] if hdr["lb"][0] == "c" else 0
                    stv = hdr["step"][1] if hdr["step"][0] == "c" else 1
                    trips, slack = hdr["ub"][1], hdr["ub"][2] if len(hdr["ub"]) > 2 else 0
                    ubv = lbv if trips == 0 else lbv + (trips - 1) * stv + 1 + (slack % stv)
                    names["ub"] = hconst(ubv)
                    if hdr["lb"][0] != "c" or hdr["step"][0] != "c":
                        # fall back to argument bound (cannot make a constant trip count otherwise)
                        nm = f"%ub{lid}"
                        loop_arg_decls.append((nm, ty))
                        names["ub"] = nm
                        info["ub"] = nm
                b.loop_args.append(info)
                init_ops = [vref(r, vals) for r in inits]
                iv = fresh("i")
                carried = [fresh("l") for _ in inits]
                inner_vals = vals + [iv] + carried
                n_before = len(inner_vals)
                body_lines = emit_block(body, inner_vals, ind + 1, depth + 1, True)
                yld = [vref(r, inner_vals) for r in ylds[: len(inits)]]
                while len(yld) < len(inits):
                    yld.append(carried[len(yld)])
                res = [fresh("r") for _ in inits]
                lhs = (", ".join(res) + " = ") if res else ""
                out.append(f'{pad}{lhs}"scf.for"({", ".join([names["lb"], names["ub"], names["step"]] + init_ops)}) ({{')
                out.append(f'{pad}^bb0({", ".join(f"{n}: {ty}" for n in [iv] + carried)}):')
                out.extend(body_lines)
                out.append(f'{pad}  "scf.yield"({", ".join(yld)}) : ({", ".join([ty] * len(yld))}) -> ()')
                out.append(f'{pad}}}) : ({", ".join([ty] * (3 + len(inits)))}) -> ({", ".join([ty] * len(inits))})')
                vals.extend(res)
                b.features.add("loop")
                if depth >= 1:
                    b.features.add("nested")
                if inits:
                    b.features.add("carried")
            elif k == "if":
                _, cond, th, el = s[:4]
                ylds = s[4] if len(s) > 4 else None
                if cond[0] == "p":
                    c = f"%p{cond[1] % recipe['nconds']}"
                else:
                    c = fresh("q")
                    out.append(f'{pad}{c} = "arith.cmpi"({vref(cond[2], vals)}, {vref(cond[3], vals)}) <{{predicate = {cond[1]} : i64}}> : ({ty}, {ty}) -> i1')
                tvals, evals_ = list(vals), list(vals)
                th_lines = emit_block(th, tvals, ind + 1, depth + 1, in_loop)
                el_lines = emit_block(el, evals_, ind + 1, depth + 1, in_loop)
                if ylds:
                    yt, ye = vref(ylds[0], tvals), vref(ylds[1], evals_)
                    res = fresh("r")
                    out.append(f'{pad}{res} = "scf.if"({c}) ({{')
                    out.extend(th_lines)
                    out.append(f'{pad}  "scf.yield"({yt}) : ({ty}) -> ()')
                    out.append(f'{pad}}}, {{')
                    out.extend(el_lines)
                    out.append(f'{pad}  "scf.yield"({ye}) : ({ty}) -> ()')
                    out.append(f'{pad}}}) : (i1) -> ({ty})')
                    vals.append(res)
                    b.features.add("if_result")
                else:
                    out.append(f'{pad}"scf.if"({c}) ({{')
                    out.extend(th_lines)
                    out.append(f'{pad}  "scf.yield"() : () -> ()')
                    out.append(f'{pad}}}, {{')
                    out.extend(el_lines)
                    out.append(f'{pad}  "scf.yield"() : () -> ()')
                    out.append(f'{pad}}}) : (i1) -> ()')
                b.features.add("if")
                if depth >= 1:
                    b.features.add("nested")
        return out

    body_lines = emit_block(recipe["body"], vals, 2, 0, False)
    all_args = args + loop_arg_decls
    b.arg_names = [a for a, _ in all_args]
    b.arg_types = [t for _, t in all_args]
    sig = ", ".join(t for _, t in all_args)
    lines.append("builtin.module {")
    if extra_module_ops:
        lines.append(extra_module_ops)
    lines.append('  "func.func"() <{sym_name = "ext0", function_type = () -> (), sym_visibility = "private"}> ({}) : () -> ()')
    lines.append('  "func.func"() <{sym_name = "ext1", function_type = () -> (), sym_visibility = "private"}> ({}) : () -> ()')
    for j in sorted(local_used):
        unit = emit_block([["unit", 0 if j == 0 else len(accs) - 1, [0], None]], ["%lv"], 3 if j == 0 else 2, 1, False)
        lines.append(f'  "func.func"() <{{sym_name = "loc{j}", function_type = ({ty}, i1) -> (), sym_visibility = "private"}}> ({{')
        lines.append(f'  ^bb0(%lv: {ty}, %lp: i1):')
        if j == 0:
            lines.append('    "scf.if"(%lp) ({')
            lines.extend(unit)
            lines.append('      "scf.yield"() : () -> ()')
            lines.append('    }, {')
            lines.append('    }) : (i1) -> ()')
        else:
            lines.extend(unit)
        lines.append('    "func.return"() : () -> ()')
        lines.append("  }) : () -> ()")
    lines.append(f'  "func.func"() <{{sym_name = "{func_name}", function_type = ({sig}) -> ()}}> ({{')
    lines.append(f'  ^bb0({", ".join(f"{a}: {t}" for a, t in all_args)}):')
    lines.extend("  " + l for l in const_lines)
    lines.extend(body_lines)
    lines.append('    "func.return"() : () -> ()')
    lines.append("  }) : () -> ()")
    lines.append("}")
    b.text = "\n".join(lines)
    if len(accs) > 1:
        b.features.add("two_accs")
    return b


def input_vector(recipe, built: Built, k: int) -> tuple[list[int], list[str]]:
    """Concrete argument values for input vector k, in function argument order, plus trip-count classes reached."""
    inp = recipe["inputs"][k % len(recipe["inputs"])]
    vals = {}
    for i in range(recipe["nargs"]):
        vals[f"%a{i}"] = inp["a"][i % len(inp["a"])] if inp["a"] else 0
    for i in range(recipe["nconds"]):
        vals[f"%p{i}"] = inp["p"][i % len(inp["p"])] if inp["p"] else 0
    trips_cls = []
    for lid, info in enumerate(built.loop_args):
        spec = inp["loops"][lid % len(inp["loops"])] if inp["loops"] else [0, 1, 2, 0]
        lbv, stv, trips, slack = spec
        hdr = info["hdr"]
        if hdr["lb"][0] == "c":
            lbv = hdr["lb"][1]
        if hdr["step"][0] == "c":
            stv = hdr["step"][1]
        if hdr["ub"][0] == "k":
            ubv = hdr["ub"][1]
            lbv = ubv + (slack % 2) if trips == 0 else ubv - ((trips - 1) * stv + 1 + (slack % stv))
        if info.get("lb"):
            vals[info["lb"]] = lbv
        if info.get("step"):
            vals[info["step"]] = stv
        if info.get("ub"):
            vals[info["ub"]] = (lbv - (slack % 2)) if trips == 0 else lbv + (trips - 1) * stv + 1 + (slack % stv)
        elif hdr["ub"][0] == "c":
            trips = hdr["ub"][1]
        trips_cls.append(trips)
    return [vals[a] for a in built.arg_names], trips_cls
