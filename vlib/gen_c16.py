"""Strategies and exact oracles for C16 (returned schedules fit the accelerator template).

Recipes are plain JSON. The scheduler recipes have the shape of gen_sched.template_case (bounds, ops, tbounds, tops,
checks, elsizes, mode) plus `canon` (canonicalise the schedule first, as the real caller dart_scheduler.py does).
The matcher recipes are dict(t, n, ops=[dict(TA=rows, SA=rows)], drop=bool, kind, tags=[how the pair was built]); tags only label classes.

Everything in the "exact oracles" part works on python ints / Fractions only: no numpy, no SVD, nothing from snaxc.
"""
from __future__ import annotations

from fractions import Fraction

from hypothesis import strategies as st

from vlib import gen_sched as G

# ---------------------------------------------------------------- exact oracles (pure python)


def rank_q(rows):
    """Rank over Q of an integer matrix given as list of lists (fraction elimination, independent of G.rref)."""
    M = [[Fraction(x) for x in r] for r in rows]
    if not M or not M[0]:
        return 0
    rank = 0
    ncol = len(M[0])
    for c in range(ncol):
        piv = next((i for i in range(rank, len(M)) if M[i][c] != 0), None)
        if piv is None:
            continue
        M[rank], M[piv] = M[piv], M[rank]
        for i in range(rank + 1, len(M)):
            if M[i][c] != 0:
                f = M[i][c] / M[rank][c]
                M[i] = [a - f * b for a, b in zip(M[i], M[rank])]
        rank += 1
        if rank == len(M):
            break
    return rank


class OracleDisagreement(Exception):
    """The two exact row-space tests disagree: a bug in the oracle (harness error), never a violation."""


def same_span(X, Y):
    """Do the rows of X and of Y span the same subspace of Q^d?  Two independent exact decisions that must agree:
    (1) equal reduced row echelon forms, (2) rank X == rank Y == rank [X; Y]."""
    X = [list(map(int, r)) for r in X]
    Y = [list(map(int, r)) for r in Y]
    a = G.rref(X) == G.rref(Y)
    rx, ry = rank_q(X), rank_q(Y)
    b = rx == ry == rank_q(X + Y)
    if a != b:
        raise OracleDisagreement((X, Y, a, b))
    return a


def trim_broadcast(TA, n_sched_rows):
    """Documented broadcast rule of TemplatePattern.matches: if the template has more result rows than the schedule
    pattern, the schedule is broadcast over the template's *outer* results, i.e. the leading surplus rows are ignored."""
    k = len(TA) - n_sched_rows
    return TA[k:] if k > 0 else TA


def inner_cols(rows, m):
    """The innermost (= last) m columns."""
    return [r[len(r) - m:] for r in rows]


def operand_fits(TA, SA, t, n):
    """Template fit of one operand for a schedule with n dims on a template with t dims.
    The scheduler compares the innermost min(n, t) dims of both (scheduler_backtrack takes inner_dims of the template too,
    so a schedule with fewer dims than the template is compared with the template's innermost n dims)."""
    m = min(n, t)
    return same_span(inner_cols(trim_broadcast(TA, len(SA)), m), inner_cols(SA, m))


def pattern_matches_exact(TA, SA, t, n):
    """What TemplatePattern.matches documents: a pattern with fewer dims than the template cannot match; otherwise the
    innermost t columns must span the template's index subspace (after the broadcast trim)."""
    if n < t:
        return False
    return same_span(trim_broadcast(TA, len(SA)), inner_cols(SA, t))


def pure_output_stationary(out_rows, t, n):
    """Docstring of is_pure_output_stationary: outside of the template (the first n - t columns), in the output operand
    (last operand) all parallel dims (column not all zero) precede all reduction dims (column all zero)."""
    seen_reduction = False
    for c in range(max(0, n - t)):
        parallel = any(row[c] != 0 for row in out_rows)
        if not parallel:
            seen_reduction = True
        elif seen_reduction:
            return False
    return True


def pos_nonvacuous(out_rows, t, n):
    kinds = {any(row[c] != 0 for row in out_rows) for c in range(max(0, n - t))}
    return len(kinds) == 2


BANK = 8  # TCDM bank width in bytes (docstring of is_memory_flexible_enough)


def memory_flexible(ops_rows, elsizes, t, n):
    """Docstring of is_memory_flexible_enough: only applicable when there are temporal dims (n > t); then every operand needs
    one result dim that has a spatial stride of exactly 1 and whose temporal strides never address inside one bank, i.e. all
    temporal coefficients of that result are multiples of the number of elements per bank, ceil(8 / element size)."""
    if n <= t:
        return True
    for rows, size in zip(ops_rows, elsizes):
        per_bank = -(-BANK // size)
        ok = False
        for row in rows:
            unit_spatial = any(x == 1 for x in row[n - t:])
            fine_temporal = any(x % per_bank != 0 for x in row[: n - t])
            if unit_spatial and not fine_temporal:
                ok = True
                break
        if not ok:
            return False
    return True


# ---------------------------------------------------------------- scheduler cases


def _perm_rows(rows, order):
    """Re-express patterns given over named dims 0..n-1 in the loop order `order` (order[j] = original dim at position j)."""
    return [[row[d] for d in order] for row in rows]


@st.composite
def realistic_case(draw, tier="quick"):
    """Cases shaped like what the accelerators' get_template and real linalg ops produce:
    gemmx matmul / gemm / matmul with broadcast bias / conv1d on the (m, n, k) template, gemmx rescale on (m, k),
    elementwise ops on the alu / xdma-add 1-d template, and the templates of tests/ir/dart/test_scheduler.py."""
    fam = draw(st.sampled_from(["matmul", "matmul", "gemm", "bias", "conv1d", "rescale", "alu", "alu2d", "unbounded", "bcast"]))
    big = tier != "quick"
    if fam in ("matmul", "gemm", "bias"):
        tm, tn, tk = draw(st.sampled_from([(8, 8, 8), (8, 8, 8), (4, 4, 4), (2, 4, 8), (16, 8, 4)]))
        mult = [1, 1, 2, 2, 3, 4] if big else [1, 1, 2, 2, 3]
        M, N, K = (tb * draw(st.sampled_from(mult)) for tb in (tm, tn, tk))
        if draw(st.integers(0, 7)) == 0:
            M = max(1, tm // 2)  # smaller than the array: allowed (bound <= template bound)
        if draw(st.integers(0, 9)) == 0:
            K = tk * 2 + 1  # not divisible: the scheduler must not return a schedule tiling k
        # named dims m=0, n=1, k=2
        rows = [[[1, 0, 0], [0, 0, 1]], [[0, 0, 1], [0, 1, 0]], [[1, 0, 0], [0, 1, 0]]]
        trows = [[[1, 0, 0], [0, 0, 1]], [[0, 0, 1], [0, 1, 0]], [[1, 0, 0], [0, 1, 0]]]
        els = [1, 1, 4]
        if fam == "gemm":
            rows.append([[1, 0, 0], [0, 1, 0]])
            trows.append([[1, 0, 0], [0, 1, 0]])
            els = [1, 1, 4, 4]
        if fam == "bias":
            # bias vector broadcast over m: pattern (n) against template (m, n)
            rows.insert(2, [[0, 1, 0]])
            trows.insert(2, [[1, 0, 0], [0, 1, 0]])
            els = [1, 1, 4, 4]
        if draw(st.integers(0, 4)) == 0:
            # transposed B operand (strided memref in the upstream lit test keeps the map, a transposed map is the other way)
            rows[1] = [rows[1][1], rows[1][0]]
        order = draw(st.permutations([0, 1, 2]))
        sizes = [M, N, K]
        bounds = [sizes[d] for d in order]
        ops = [dict(A=_perm_rows(r, order), b=[0] * len(r)) for r in rows]
        tb = [tm, tn, tk]
        tops = [dict(A=r, b=[0] * len(r)) for r in trows]
    elif fam == "conv1d":
        tm, tn, tk = draw(st.sampled_from([(8, 8, 8), (4, 4, 4), (2, 4, 8)]))
        stride = draw(st.sampled_from([1, 1, 2]))
        OX = tm * draw(st.sampled_from([1, 2, 3]))
        FX = draw(st.sampled_from([1, 3, 5]))
        C = tk * draw(st.sampled_from([1, 2]))
        Kc = tn * draw(st.sampled_from([1, 2]))
        # named dims ox=0, fx=1, c=2, k=3
        rows = [[[stride, 1, 0, 0], [0, 0, 1, 0]], [[0, 1, 0, 0], [0, 0, 1, 0], [0, 0, 0, 1]], [[1, 0, 0, 0], [0, 0, 0, 1]]]
        order = draw(st.permutations([0, 1, 2, 3]))
        sizes = [OX, FX, C, Kc]
        bounds = [sizes[d] for d in order]
        ops = [dict(A=_perm_rows(r, order), b=[0] * len(r)) for r in rows]
        tb = [tm, tn, tk]
        trows = [[[1, 0, 0], [0, 0, 1]], [[0, 0, 1], [0, 1, 0]], [[1, 0, 0], [0, 1, 0]]]
        tops = [dict(A=r, b=[0] * len(r)) for r in trows]
        els = [1, 1, 4]
    elif fam == "rescale":
        tm, tk = draw(st.sampled_from([(8, 8), (4, 4), (8, 4)]))
        M, K = tm * draw(st.sampled_from([1, 2, 3])), tk * draw(st.sampled_from([1, 2, 4]))
        order = draw(st.permutations([0, 1]))
        rows = [[[1, 0], [0, 1]], [[1, 0], [0, 1]]]
        bounds = [[M, K][d] for d in order]
        ops = [dict(A=_perm_rows(r, order), b=[0, 0]) for r in rows]
        tb = [tm, tk]
        tops = [dict(A=[[1, 0], [0, 1]], b=[0, 0]) for _ in range(2)]
        els = [4, 1]
    elif fam == "alu":
        t0 = draw(st.sampled_from([4, 4, 16]))
        N = t0 * draw(st.sampled_from([1, 2, 4, 16])) if draw(st.integers(0, 6)) else t0 * 2 + 1
        bounds = [N]
        ops = [dict(A=[[1]], b=[0]) for _ in range(3)]
        tb = [t0]
        tops = [dict(A=[[1]], b=[0]) for _ in range(3)]
        els = [draw(st.sampled_from([8, 8, 4, 1]))] * 3
    elif fam == "alu2d":
        t0 = draw(st.sampled_from([4, 16]))
        R, Cc = draw(st.integers(1, 6)), t0 * draw(st.sampled_from([1, 2, 4]))
        order = draw(st.permutations([0, 1]))
        rows = [[[1, 0], [0, 1]]] * 3
        if draw(st.booleans()):
            rows = [[[1, 0], [0, 1]], [[0, 1]], [[1, 0], [0, 1]]]  # second input broadcast along rows
        bounds = [[R, Cc][d] for d in order]
        ops = [dict(A=_perm_rows(r, order), b=[0] * len(r)) for r in rows]
        tb = [t0]
        tops = [dict(A=[[1]], b=[0]) for _ in range(3)]
        els = [draw(st.sampled_from([8, 4, 1]))] * 3
    elif fam == "unbounded":
        # tests/ir/dart/test_scheduler.py: templates with unbounded outer dims, 1..2 operands
        which = draw(st.integers(0, 3))
        s = draw(st.sampled_from([2, 4]))
        if which == 0:
            tb, tops = [None, s], [dict(A=[[s, 1]], b=[0])]
            bounds, ops = [s * draw(st.sampled_from([1, 2, 3]))], [dict(A=[[1]], b=[0])]
        elif which == 1:
            tb, tops = [None, s, None, s], [dict(A=[[s, 1, s, 1]], b=[0])]
            bounds, ops = [s * 2, s * draw(st.sampled_from([1, 2]))], [dict(A=[[1, 1]], b=[0])]
        elif which == 2:
            tb = [None, s, None, s]
            tops = [dict(A=[[s, 1, 0, 0]], b=[0]), dict(A=[[0, 0, s, 1]], b=[0])]
            bounds, ops = [s * 2, s * 2], [dict(A=[[1, 0]], b=[0]), dict(A=[[0, 1]], b=[0])]
        else:
            tb, tops = [None, 2, 2], [dict(A=[[4, 2, 1]], b=[0])]
            bounds, ops = [draw(st.sampled_from([4, 8, 16]))], [dict(A=[[1]], b=[0])]
        els = [draw(st.sampled_from([1, 8]))] * len(ops)
    else:  # bcast: test_allow_broadcasts, (a, b, c) -> (b, c) against (a, b, c) -> (c)
        s = draw(st.sampled_from([2, 4, 8]))
        tb = [s, s, s]
        tops = [dict(A=[[0, 1, 0], [0, 0, 1]], b=[0, 0])]
        order = draw(st.permutations([0, 1, 2]))
        bounds = [s * draw(st.sampled_from([1, 1, 2])) for _ in range(3)]
        ops = [dict(A=_perm_rows([[0, 0, 1]], order), b=[0])]
        els = [1]
    checks = draw(st.sampled_from([[], ["pos"], ["mem"], ["pos", "mem"], ["pos", "mem"], ["pos", "mem"]]))
    return dict(bounds=list(bounds), ops=ops, tbounds=list(tb), tops=tops, checks=checks, elsizes=list(els), mode="real:" + fam)


@st.composite
def sched_case(draw, tier="quick"):
    if draw(st.integers(0, 3)) == 0:
        r = draw(realistic_case(tier))
    else:
        r = draw(G.template_case(tier))
    r["canon"] = draw(st.booleans())
    return r


# ---------------------------------------------------------------- matcher pairs

LIM = 16  # entries stay in -16..16 (DESIGN C16.4)
MAXD = 5


def _matmul(M, T):
    return [[sum(M[i][k] * T[k][j] for k in range(len(T))) for j in range(len(T[0]))] for i in range(len(M))]


def _in_range(rows):
    return all(-LIM <= x <= LIM for r in rows for x in r)


@st.composite
def _template_rows(draw, r, t):
    style = draw(st.sampled_from(["unit", "unit", "small", "wide"]))
    if style == "unit":
        # projection-like rows as in the real templates ((m, k), (k, n), (2a + b), ...)
        rows = []
        for _ in range(r):
            row = [0] * t
            row[draw(st.integers(0, t - 1))] = draw(st.sampled_from([1, 1, 1, 2, 4, -1]))
            if t > 1 and draw(st.integers(0, 2)) == 0:
                row[draw(st.integers(0, t - 1))] = draw(st.sampled_from([1, 2, 4, 8]))
            rows.append(row)
        return rows
    hi = 3 if style == "small" else LIM
    return [[draw(st.integers(-hi, hi)) for _ in range(t)] for _ in range(r)]


@st.composite
def _row_mix(draw, rs, r):
    """An rs x r integer matrix used to mix the template rows. Unimodular (permutation, sign, shear) or
    rational-invertible (scaling, small random) when rs == r; rs > r appends dependent rows."""
    kind = draw(st.sampled_from(["perm", "shear", "scale", "random"]))
    base = [[1 if i == j else 0 for j in range(r)] for i in range(r)]
    if kind == "perm":
        p = draw(st.permutations(list(range(r))))
        base = [[draw(st.sampled_from([1, 1, -1])) if j == p[i] else 0 for j in range(r)] for i in range(r)]
    elif kind == "shear":
        for _ in range(draw(st.integers(1, 3))):
            if r < 2:
                break
            i = draw(st.integers(0, r - 1))
            j = draw(st.integers(0, r - 2))
            j = j if j < i else j + 1
            f = draw(st.sampled_from([1, -1, 2, -2]))
            base[i] = [a + f * b for a, b in zip(base[i], base[j])]
    elif kind == "scale":
        base = [[draw(st.sampled_from([1, 2, 3, -1, -2])) if i == j else 0 for j in range(r)] for i in range(r)]
    else:
        base = [[draw(st.integers(-2, 2)) for _ in range(r)] for _ in range(r)]
    rows = base[max(0, r - rs):]  # fewer schedule rows: keep the mix of the trailing template rows (those left by the trim)
    while len(rows) < rs:
        rows.append([draw(st.integers(-1, 1)) for _ in range(r)])
    return rows, kind


@st.composite
def _pair(draw, t, n, kind):
    """One (template rows, schedule rows) pair. kind 'match': constructed to span the same subspace;
    'perturb': a constructed match with one structural perturbation. The exact oracle decides the truth either way."""
    # mostly a proper subspace (rank < t): only there a perturbation can leave the subspace without changing its dimension
    if t > 1 and draw(st.sampled_from([True, True, True, False])):
        r = draw(st.integers(1, min(4, t - 1)))
    else:
        r = draw(st.integers(1, min(4, t + 1)))
    T = draw(_template_rows(r, t))
    # broadcast: the template gets extra leading (outer) result rows the schedule does not address
    nb = draw(st.sampled_from([0, 0, 1, 2]))
    # number of schedule rows: mostly r (so that exactly the nb broadcast rows are trimmed), sometimes anything
    rs = r if draw(st.integers(0, 4 if nb == 0 else 9)) else draw(st.integers(1, 4))
    M, mixkind = draw(_row_mix(rs, r))
    S_in = _matmul(M, T)
    if not _in_range(S_in):
        # keep to the stated entry range: fall back to a permutation of the rows
        p = draw(st.permutations(list(range(r))))
        S_in = [list(T[i]) for i in p]
        mixkind = "perm-fallback"
    TA = [[draw(st.integers(-4, 4)) for _ in range(t)] for _ in range(nb)] + [list(x) for x in T]
    tags = [f"mix:{mixkind}", f"bcast:{nb}"]
    if kind == "perturb":
        how = draw(st.sampled_from(["entry", "entry", "row", "addrow", "swapcols", "zerocol", "shift", "droprow"]))
        tags.append(f"perturb:{how}")
        if how == "entry":
            i, j = draw(st.integers(0, len(S_in) - 1)), draw(st.integers(0, t - 1))
            d = draw(st.sampled_from([1, -1, 2, -3]))
            v = S_in[i][j] + d
            S_in[i][j] = v if -LIM <= v <= LIM else S_in[i][j] - d
        elif how == "row":
            i = draw(st.integers(0, len(S_in) - 1))
            S_in[i] = [draw(st.integers(-3, 3)) for _ in range(t)]
        elif how == "addrow":
            S_in.append([draw(st.integers(-3, 3)) for _ in range(t)])
        elif how == "swapcols" and t > 1:
            a = draw(st.integers(0, t - 2))
            for row in S_in:
                row[a], row[a + 1] = row[a + 1], row[a]
        elif how == "zerocol":
            a = draw(st.integers(0, t - 1))
            for row in S_in:
                row[a] = 0
        elif how == "shift" and t > 1:
            # the matching columns sit one position further out (aims at the inner-dims window)
            S_in = [row[1:] + row[:1] for row in S_in]
        elif how == "droprow" and len(S_in) > 1:
            S_in.pop(draw(st.integers(0, len(S_in) - 1)))
    # outer schedule dims (ignored by the matcher) or, for n < t, drop outer columns
    if n >= t:
        outer = [[draw(st.integers(-LIM, LIM)) if draw(st.booleans()) else 0 for _ in range(n - t)] for _ in S_in]
        if kind == "perturb" and n > t and draw(st.integers(0, 5)) == 0:
            # decoy: the outer columns carry a copy of the template-like pattern
            outer = [list(row[: n - t]) + [0] * max(0, n - t - len(row)) for row in S_in]
            tags.append("decoy-outer")
        SA = [o + list(row) for o, row in zip(outer, S_in)]
    else:
        SA = [row[t - n:] for row in S_in]
    return dict(TA=TA, SA=SA), tags


@st.composite
def matcher_case(draw, tier="quick", kind="match"):
    t = draw(st.sampled_from([2, 1, 3, 4, 5, 2, 3, 4, 5]))
    if draw(st.sampled_from([False] * 19 + [True])) and t > 1:
        n = draw(st.integers(1, t - 1))  # fewer dims than the template: documented non-match
    else:
        n = draw(st.integers(t, MAXD))
    nops = draw(st.sampled_from([1, 1, 1, 2, 3]))
    ops, tags = [], []
    for i in range(nops):
        # in the perturbed family one chosen operand is always perturbed (Template.matches must find it among matching ones),
        # the others with probability 2/3
        which = draw(st.shared(st.integers(0, 2), key="which")) % nops
        k = kind if (kind == "match" or i == which or draw(st.sampled_from([True, True, False]))) else "match"
        pr, tg = draw(_pair(t, n, k))
        ops.append(pr)
        tags += tg
    drop = draw(st.sampled_from([False] * 24 + [True]))
    return dict(t=t, n=n, ops=ops, drop=drop, kind=kind, tags=sorted(set(tags)))


# ---------------------------------------------------------------- pass level: dart.operation -> dart-scheduler -> dart.schedule
#
# recipe: dict(fam, bounds=[iteration bounds], ops=[dict(rows=[[coefficient per iteration dim] per result], ety="i8|i16|i32|i64")],
#              tags=[how it was built]); the last operand is the output, the others are inputs. All coefficients are >= 0, so the
#              operand shape of a result is sum(c_i * (B_i - 1)) + 1 and a result that is a plain `d_i` has extent B_i (the pass
#              reads the iteration bounds back from such results).
# fam: "alu" (snax_alu, 2 inputs, template (y) -> (y) bound 4), "matmul" / "gemm" (snax_gemmx, (m, n, k) template),
#      "rescale" (snax_gemmx rescale-only, (m, k) template, 1 input).

ETYS = ("i8", "i16", "i32", "i64")
ELSIZE = {"i8": 1, "i16": 2, "i32": 4, "i64": 8}
FAM_ACC = {"alu": "snax_alu", "matmul": "snax_gemmx", "gemm": "snax_gemmx", "rescale": "snax_gemmx"}
FAM_NOPS = {"alu": 3, "matmul": 3, "gemm": 4, "rescale": 2}
AUTOFLOW_MAXDIM = 4


def _expr(row):
    terms = [f"d{i}" if c == 1 else f"d{i} * {c}" for i, c in enumerate(row) if c]
    return " + ".join(terms)


def op_shape(rows, bounds):
    return [sum(c * (b - 1) for c, b in zip(row, bounds)) + 1 for row in rows]


def autoflow_text(r):
    """A module with one dart.operation on memref function arguments, written in generic form."""
    fam = r["fam"]
    acc = FAM_ACC[fam]
    nd = len(r["bounds"])
    dims = ", ".join(f"d{i}" for i in range(nd))
    ops = r["ops"]
    maps = [f"affine_map<({dims}) -> ({', '.join(_expr(row) for row in o['rows'])})>" for o in ops]
    tys = [f"memref<{'x'.join(str(s) for s in op_shape(o['rows'], r['bounds']))}x{o['ety']}>" for o in ops]
    e = [o["ety"] for o in ops]
    n_in = len(ops) - 1
    L = ["builtin.module {", f"  func.func public @main({', '.join(f'%arg{i} : {t}' for i, t in enumerate(tys))}) {{"]
    L.append(f'    "dart.operation"({", ".join(f"%arg{i}" for i in range(len(ops)))}) <{{patterns = [{", ".join(maps)}], '
             f'accelerator = "{acc}", operandSegmentSizes = array<i32: {n_in}, 1>}}> ({{')
    L.append("    ^bb0(" + ", ".join(f"%s{i} : !dart.stream<{t}>" for i, t in enumerate(e)) + "):")

    def generic(res, ins, in_tys, out_ty, kline, blk):
        args = ", ".join(f"%{blk}{j} : {t}" for j, t in enumerate(in_tys + [out_ty]))
        return [f'      {res} = "dart.generic"({", ".join(ins)}) <{{library_call = "{acc}"}}> ({{', f"      ^{blk}({args}):",
                f"        %k{blk} = {kline}", f"        dart.yield %k{blk} : {out_ty}",
                f"      }}) : ({', '.join(f'!dart.stream<{t}>' for t in in_tys)}) -> !dart.stream<{out_ty}>"]

    if fam == "rescale":
        attrs = ("{input_zp = 0 : i32, output_zp = 0 : i32, multiplier = array<i32: 1073741824>, shift = array<i32: 30>, "
                 "min_int = -128 : i32, max_int = 127 : i32, double_round = false}")
        L += generic("%g0", ["%s0"], [e[0]], e[1], f"kernel.rescale %x0 {attrs} : ({e[0]}) -> {e[1]}", "x")
        last = "%g0"
    elif fam == "gemm":
        L += generic("%g0", ["%s0", "%s1"], [e[0], e[1]], e[3], f"kernel.mac %x0, %x1 : {e[0]}, {e[1]} -> {e[3]}", "x")
        L += generic("%g1", ["%g0", "%s2"], [e[3], e[2]], e[3], f"kernel.add %y0, %y1 : {e[3]}, {e[2]} -> {e[3]}", "y")
        last = "%g1"
    else:
        k = "add" if (fam == "alu" and len(set(e)) == 1) else "mac"
        L += generic("%g0", ["%s0", "%s1"], [e[0], e[1]], e[2], f"kernel.{k} %x0, %x1 : {e[0]}, {e[1]} -> {e[2]}", "x")
        last = "%g0"
    L.append(f"      dart.yield {last} : !dart.stream<{e[-1]}>")
    L.append(f"    }}) : ({', '.join(tys)}) -> ()")
    L += ["    func.return", "  }", "}"]
    return "\n".join(L)


def _fam_base(fam, nd):
    """Canonical rows per operand over nd iteration dims (the accelerator's own dims are the LAST ones, extra dims are outer)."""
    z = nd - {"alu": nd, "matmul": 3, "gemm": 3, "rescale": 2}[fam]

    def unit(i):
        return [1 if j == i else 0 for j in range(nd)]

    outer = [unit(i) for i in range(z)]
    if fam == "alu":
        ident = [unit(i) for i in range(nd)]
        return [ident, [list(x) for x in ident], [list(x) for x in ident]]
    if fam == "rescale":
        mk = [unit(z), unit(z + 1)]
        return [outer + mk, [list(x) for x in outer + mk]]
    m, n, k = unit(z), unit(z + 1), unit(z + 2)
    rows = [outer + [m, k], [list(x) for x in outer] + [list(k), list(n)], [list(x) for x in outer] + [list(m), list(n)]]
    if fam == "gemm":
        rows.insert(2, [list(x) for x in outer] + [list(m), list(n)])
    return rows


def _perturb(draw, rows, nd, how):
    rows = [list(x) for x in rows]
    if how == "transpose" and len(rows) > 1:
        i = draw(st.integers(0, len(rows) - 2))
        rows[i], rows[i + 1] = rows[i + 1], rows[i]
    elif how == "shear" and nd > 1:
        i = draw(st.integers(0, len(rows) - 1))
        j = draw(st.integers(0, nd - 1))
        rows[i][j] += draw(st.sampled_from([1, 1, 1, 2]))
    elif how == "collapse" and len(rows) > 1:
        f = draw(st.sampled_from([1, 1, 2, 4]))
        i = draw(st.integers(0, len(rows) - 2))
        merged = [f * a + b for a, b in zip(rows[i], rows[i + 1])]
        rows[i:i + 2] = [merged]
    elif how == "stride":
        i = draw(st.integers(0, len(rows) - 1))
        f = draw(st.sampled_from([2, 2, 3, 4]))
        rows[i] = [f * a for a in rows[i]]
    elif how == "droprow" and len(rows) > 1:
        rows.pop(draw(st.integers(0, len(rows) - 1)))
    return rows


OUT_PERTURB = ["none", "none", "transpose", "shear", "shear", "shear", "collapse", "collapse", "stride"]
IN_PERTURB = ["none", "none", "none", "none", "transpose", "shear", "stride", "droprow"]


def _plain_dims_ok(ops, nd):
    """Every iteration dim occurs as a plain `d_i` result somewhere (the pass infers the bounds from those)."""
    plain = {tuple(row) for o in ops for row in o["rows"]}
    return all(tuple(1 if j == i else 0 for j in range(nd)) in plain for i in range(nd))


@st.composite
def autoflow_case(draw, tier="quick"):
    fam = draw(st.sampled_from(["alu"] * 6 + ["matmul", "matmul", "gemm", "rescale", "rescale"]))
    nops = FAM_NOPS[fam]
    base_nd = {"alu": draw(st.sampled_from([1, 2, 2, 2, 3])), "matmul": 3, "gemm": 3, "rescale": 2}[fam]
    nd = base_nd + (1 if fam != "alu" and draw(st.integers(0, 4)) == 0 else 0)
    tb = 4 if fam == "alu" else 8
    bst = st.sampled_from([tb, tb, 2 * tb, 2 * tb, 3 * tb, 4 * tb, tb // 2, 3, 1])
    bounds = [draw(bst) for _ in range(nd)]
    rows = _fam_base(fam, nd)
    tags = []
    if draw(st.integers(0, 4)) == 0:
        # free coefficients for the output (and sometimes one input); the first input keeps the plain dims
        lim = st.sampled_from([0, 0, 1, 1, 1, 2, 3, 4])
        for oi in ([nops - 1] + ([nops - 2] if nops > 2 and draw(st.booleans()) else [])):
            nr = draw(st.integers(1, len(rows[oi])))
            rows[oi] = [[draw(lim) for _ in range(nd)] for _ in range(nr)]
            rows[oi] = [row if any(row) else [1 if j == nd - 1 else 0 for j in range(nd)] for row in rows[oi]]
        tags.append("free")
    else:
        how = draw(st.sampled_from(OUT_PERTURB))
        rows[-1] = _perturb(draw, rows[-1], nd, how)
        tags.append("out:" + how)
        if draw(st.integers(0, 2)) == 0:
            how = draw(st.sampled_from(OUT_PERTURB))
            rows[-1] = _perturb(draw, rows[-1], nd, how)
            tags.append("out:" + how)
        if nops > 2:
            how = draw(st.sampled_from(IN_PERTURB))
            rows[1] = _perturb(draw, rows[1], nd, how)
            tags.append("in:" + how)
    # loop order of the operation as written
    order = draw(st.permutations(list(range(nd))))
    rows = [_perm_rows(r_, order) for r_ in rows]
    bounds = [bounds[d] for d in order]
    # element types
    c = draw(st.integers(0, 9))
    if c < 4:
        t = draw(st.sampled_from(["i32", "i32", "i16", "i8", "i64"]))
        etys = [t] * nops
    elif c < 7 and fam != "alu":
        etys = {"matmul": ["i8", "i8", "i32"], "gemm": ["i8", "i8", "i32", "i32"], "rescale": ["i32", "i8"]}[fam]
    elif c < 9:
        # wide inputs, narrower output: only the output is short of the bank width
        etys = ["i64"] * (nops - 1) + [draw(st.sampled_from(["i32", "i16", "i8"]))]
    else:
        etys = [draw(st.sampled_from(ETYS)) for _ in range(nops)]
    return dict(fam=fam, bounds=bounds, ops=[dict(rows=r_, ety=t) for r_, t in zip(rows, etys)], tags=tags)


ALU_OUTS_2D = [[[1, 0], [0, 1]], [[0, 1], [1, 0]], [[1, 1], [0, 1]], [[1, 1], [1, 0]], [[1, 1]], [[2, 1]], [[1, 2]], [[4, 1]], [[1, 4]],
               [[2, 0], [0, 1]], [[1, 0], [0, 2]], [[1, 2], [0, 1]], [[2, 1], [1, 0]]]


def autoflow_exhaustive(tier):
    """snax_alu, two iteration dims (x, y), plain inputs A[x, y] and B[x, y] (or B[y, x]) and every output pattern of ALU_OUTS_2D
    (plain, transposed, sheared, collapsed, strided), with uniform and mixed element widths, both loop orders."""
    ident = [[1, 0], [0, 1]]
    bl = [(8, 8), (4, 8), (8, 4)] if tier != "thorough" else [(8, 8), (4, 8), (8, 4), (16, 8), (8, 12), (3, 8), (8, 2)]
    el = [["i32"] * 3, ["i64"] * 3, ["i8"] * 3, ["i64", "i64", "i32"], ["i64", "i64", "i8"], ["i32", "i32", "i16"], ["i8", "i8", "i32"]]
    for bounds in bl:
        for out in ALU_OUTS_2D:
            for etys in el:
                for b_in in (ident, [[0, 1], [1, 0]]):
                    for order in ([0, 1], [1, 0]):
                        rows = [_perm_rows(x, order) for x in (ident, b_in, out)]
                        yield dict(fam="alu", bounds=[bounds[d] for d in order], ops=[dict(rows=r_, ety=t) for r_, t in zip(rows, etys)],
                                   tags=["enumerated"])
