"""A small IR interpreter (trusted base, DESIGN.md 2.2). Independent of xDSL's interpreter package.

Executes arith / scf / func / cf on Python ints with fixed-width two's-complement semantics, and hands
everything else (accfg, memref, snax, llvm.inline_asm, opaque ops, calls to body-less functions) to a
*machine* object (vlib/machines.py) that defines the observation layer for a property.
"""
from __future__ import annotations

from xdsl.dialects import builtin
from xdsl.dialects.builtin import IndexType, IntegerType
from xdsl.ir import Block, Operation, Region, SSAValue


class InterpError(Exception):
    """The interpreter cannot execute this (harness limitation or malformed program)."""


class UseBeforeDef(InterpError):
    pass


class StepBudget(InterpError):
    """Step budget exceeded: inconclusive, never a violation."""


INDEX_WIDTH = 64


def type_width(t):
    if isinstance(t, IndexType):
        return INDEX_WIDTH
    if isinstance(t, IntegerType):
        return t.width.data
    return None


def wrap(v: int, w: int) -> int:
    """Normalise to the signed range of width w (i1 is kept as 0/1)."""
    if w == 1:
        return v & 1
    m = (1 << w) - 1
    v &= m
    if v >> (w - 1):
        v -= 1 << w
    return v


def unsigned(v: int, w: int) -> int:
    return v & ((1 << w) - 1)


def _cmpi(pred: int, a: int, b: int, w: int) -> int:
    ua, ub = unsigned(a, w), unsigned(b, w)
    if w == 1:
        # i1 stored as 0/1; signed interpretation: 1 -> -1
        sa, sb = -a, -b
    else:
        sa, sb = a, b
    return int([a == b, a != b, sa < sb, sa <= sb, sa > sb, sa >= sb, ua < ub, ua <= ub, ua > ub, ua >= ub][pred])


def _floordiv(a, b):
    return a // b


def _sdiv_trunc(a, b):
    q = abs(a) // abs(b)
    return q if (a >= 0) == (b >= 0) else -q


def _srem(a, b):
    return a - b * _sdiv_trunc(a, b)


class Interp:
    def __init__(self, module: builtin.ModuleOp, machine, step_budget: int = 400000):
        self.module = module
        self.m = machine
        self.steps = 0
        self.budget = step_budget
        self.funcs = {}
        for op in module.walk():
            if op.name == "func.func":
                self.funcs[op.sym_name.data] = op
        machine.interp = self

    # ------------------------------------------------------------------ entry points
    def call(self, name: str, args: list):
        f = self.funcs[name]
        if not f.body.blocks:
            raise InterpError(f"function {name} has no body")
        env: dict[SSAValue, object] = {}
        return self.run_region(f.body, list(args), env)[1]

    # ------------------------------------------------------------------ helpers
    def get(self, env, v: SSAValue):
        try:
            return env[v]
        except KeyError:
            raise UseBeforeDef(f"value {v} of {getattr(v.owner, 'name', 'block')} used before it is available")

    def run_region(self, region: Region, args: list, env):
        """Run a (possibly multi-block) region. Returns (kind, values) of the terminator that left it."""
        block = region.blocks[0] if region.blocks else None
        if block is None:
            return ("yield", [])
        while True:
            if len(args) != len(block.args):
                raise InterpError(f"block argument count mismatch: {len(args)} vs {len(block.args)}")
            for ba, a in zip(block.args, args):
                env[ba] = a
                self.m.on_value(ba, a, env)
            kind, payload = self.run_block(block, env)
            if kind == "br":
                block, args = payload
                continue
            return kind, payload

    def run_block(self, block: Block, env):
        for op in block.ops:
            self.steps += 1
            if self.steps > self.budget:
                raise StepBudget("step budget exceeded")
            r = self.exec_op(op, env)
            if r is not None:
                return r
        return ("fallthrough", [])

    def set_results(self, op: Operation, vals, env):
        if len(vals) != len(op.results):
            raise InterpError(f"{op.name}: produced {len(vals)} values for {len(op.results)} results")
        for res, v in zip(op.results, vals):
            w = type_width(res.type)
            if w is not None and isinstance(v, int):
                v = wrap(v, w)
            env[res] = v
            self.m.on_value(res, v, env)

    # ------------------------------------------------------------------ op dispatch
    def exec_op(self, op: Operation, env):
        name = op.name
        h = _HANDLERS.get(name)
        if h is not None:
            return h(self, op, env)
        if name.startswith("arith."):
            return self._arith(op, env)
        # everything else belongs to the machine
        ops = [self.get(env, o) for o in op.operands]
        res = self.m.exec(op, ops, env)
        if res is NotImplemented:
            raise InterpError(f"no semantics for op {name}")
        if isinstance(res, tuple) and len(res) == 2 and res[0] in ("return", "yield", "br", "condition"):
            return res
        self.set_results(op, list(res or []), env)
        return None

    # arith ------------------------------------------------------------
    def _arith(self, op, env):
        name = op.name[6:]
        if name == "constant":
            attr = op.value
            if isinstance(attr, builtin.IntegerAttr):
                self.set_results(op, [attr.value.data], env)
            elif isinstance(attr, builtin.FloatAttr):
                self.set_results(op, [float(attr.value.data)], env)
            else:
                self.set_results(op, [self.m.constant(op, attr)], env)
            return None
        vals = [self.get(env, o) for o in op.operands]
        rt = op.results[0].type
        w = type_width(rt)
        if name in _BIN:
            a, b = vals
            if not (isinstance(a, int) and isinstance(b, int)):
                self.set_results(op, [self.m.symbolic(op, vals)], env)
                return None
            self.set_results(op, [_BIN[name](a, b, w)], env)
            return None
        if name == "mului_extended":
            a, b = vals
            if not (isinstance(a, int) and isinstance(b, int)):
                self.set_results(op, [self.m.symbolic(op, vals + ["low"]), self.m.symbolic(op, vals + ["high"])], env)
                return None
            full = unsigned(a, w) * unsigned(b, w)
            self.set_results(op, [full & ((1 << w) - 1), full >> w], env)
            return None
        if name == "cmpi":
            a, b = vals
            wi = type_width(op.operands[0].type)
            pred = op.predicate.value.data
            self.set_results(op, [_cmpi(pred, a, b, wi)], env)
            return None
        if name == "select":
            c, a, b = vals
            self.set_results(op, [a if c else b], env)
            return None
        if name in ("index_cast", "extsi", "trunci", "index_castui"):
            v = vals[0]
            if name == "index_castui":
                v = unsigned(v, type_width(op.operands[0].type))
            self.set_results(op, [v], env)
            return None
        if name == "extui":
            wi = type_width(op.operands[0].type)
            self.set_results(op, [unsigned(vals[0], wi)], env)
            return None
        res = self.m.exec(op, vals, env)
        if res is NotImplemented:
            raise InterpError(f"no semantics for op {op.name}")
        self.set_results(op, list(res), env)
        return None


def _chk_div(b):
    if b == 0:
        raise InterpError("division by zero")


def _shl(a, b, w):
    if b < 0 or b >= w:
        raise InterpError("over-wide shift")
    return a << b


def _shrui(a, b, w):
    if b < 0 or b >= w:
        raise InterpError("over-wide shift")
    return unsigned(a, w) >> b


def _shrsi(a, b, w):
    if b < 0 or b >= w:
        raise InterpError("over-wide shift")
    return a >> b


def _divui(a, b, w):
    _chk_div(b)
    return unsigned(a, w) // unsigned(b, w)


def _remui(a, b, w):
    _chk_div(b)
    return unsigned(a, w) % unsigned(b, w)


def _divsi(a, b, w):
    _chk_div(b)
    return _sdiv_trunc(a, b)


def _remsi(a, b, w):
    _chk_div(b)
    return _srem(a, b)


def _floordivsi(a, b, w):
    _chk_div(b)
    return a // b


def _ceildivsi(a, b, w):
    _chk_div(b)
    return -((-a) // b)


_BIN = {
    "addi": lambda a, b, w: a + b,
    "subi": lambda a, b, w: a - b,
    "muli": lambda a, b, w: a * b,
    "andi": lambda a, b, w: unsigned(a, w) & unsigned(b, w),
    "ori": lambda a, b, w: unsigned(a, w) | unsigned(b, w),
    "xori": lambda a, b, w: unsigned(a, w) ^ unsigned(b, w),
    "shli": _shl,
    "shrui": _shrui,
    "shrsi": _shrsi,
    "divui": _divui,
    "remui": _remui,
    "divsi": _divsi,
    "remsi": _remsi,
    "floordivsi": _floordivsi,
    "ceildivsi": _ceildivsi,
    "minsi": lambda a, b, w: min(a, b),
    "maxsi": lambda a, b, w: max(a, b),
    "minui": lambda a, b, w: min(unsigned(a, w), unsigned(b, w)),
    "maxui": lambda a, b, w: max(unsigned(a, w), unsigned(b, w)),
}


# scf / func / cf ------------------------------------------------------

def _scf_for(self: Interp, op, env):
    lb = self.get(env, op.lb)
    ub = self.get(env, op.ub)
    step = self.get(env, op.step)
    if step <= 0:
        raise InterpError("scf.for with non-positive step")
    carried = [self.get(env, a) for a in op.iter_args]
    i = lb
    self.m.on_loop_enter(op)
    while i < ub:
        kind, vals = self.run_region(op.body, [i] + carried, env)
        if kind != "yield":
            raise InterpError(f"scf.for body left by {kind}")
        if len(vals) != len(carried):
            raise InterpError("scf.for yield arity mismatch")
        carried = vals
        i += step
        self.steps += 1
        if self.steps > self.budget:
            raise StepBudget("step budget exceeded")
    self.set_results(op, carried, env)
    return None


def _scf_if(self: Interp, op, env):
    c = self.get(env, op.cond)
    region = op.true_region if c else op.false_region
    if not region.blocks:
        if op.results:
            raise InterpError("scf.if with results but empty region")
        return None
    kind, vals = self.run_region(region, [], env)
    if kind == "fallthrough":
        kind, vals = "yield", []
    if kind != "yield":
        raise InterpError(f"scf.if region left by {kind}")
    self.set_results(op, vals, env)
    return None


def _scf_while(self: Interp, op, env):
    args = [self.get(env, a) for a in op.arguments]
    while True:
        kind, payload = self.run_region(op.before_region, args, env)
        if kind != "condition":
            raise InterpError("scf.while before region must end in scf.condition")
        cond, vals = payload
        if not cond:
            self.set_results(op, vals, env)
            return None
        kind, vals2 = self.run_region(op.after_region, vals, env)
        if kind != "yield":
            raise InterpError("scf.while after region must end in scf.yield")
        args = vals2
        self.steps += 1
        if self.steps > self.budget:
            raise StepBudget("step budget exceeded")


def _scf_condition(self: Interp, op, env):
    vals = [self.get(env, o) for o in op.operands]
    return ("condition", (vals[0], vals[1:]))


def _yield(self: Interp, op, env):
    return ("yield", [self.get(env, o) for o in op.operands])


def _return(self: Interp, op, env):
    return ("return", [self.get(env, o) for o in op.operands])


def _call(self: Interp, op, env):
    name = op.callee.root_reference.data
    args = [self.get(env, o) for o in op.operands]
    f = self.funcs.get(name)
    if f is not None and f.body.blocks:
        sub_env: dict = {}
        kind, vals = self.run_region(f.body, args, sub_env)
        self.set_results(op, vals, env)
        return None
    res = self.m.call(name, args, op, env)
    self.set_results(op, list(res or []), env)
    return None


def _br(self: Interp, op, env):
    return ("br", (op.successor, [self.get(env, o) for o in op.arguments]))


def _cond_br(self: Interp, op, env):
    c = self.get(env, op.cond)
    if c:
        return ("br", (op.then_block, [self.get(env, o) for o in op.then_arguments]))
    return ("br", (op.else_block, [self.get(env, o) for o in op.else_arguments]))


def _nop(self, op, env):
    return None


_HANDLERS = {
    "scf.for": _scf_for,
    "scf.if": _scf_if,
    "scf.while": _scf_while,
    "scf.condition": _scf_condition,
    "scf.yield": _yield,
    "func.return": _return,
    "func.call": _call,
    "cf.br": _br,
    "cf.cond_br": _cond_br,
    "func.func": _nop,
}


# ---------------------------------------------------------------------------------------
# static SSA dominance walk (xDSL 0.70's verify() does not check dominance)

def dominance_errors(module) -> list[str]:
    """Every operand must be defined earlier in the same block or in an enclosing region
    (block arguments included). Only handles single-block regions plus straightforward multi-block
    function bodies where values of other blocks are accepted if the block precedes in layout order
    (sufficient for the generated programs; multi-block programs use block arguments)."""
    errs: list[str] = []

    def walk_region(region: Region, visible: set):
        vis_region = set(visible)
        for block in region.blocks:
            vis = set(vis_region)
            vis.update(block.args)
            for op in block.ops:
                for o in op.operands:
                    if o not in vis:
                        errs.append(f"{op.name}: operand defined by {getattr(o.owner, 'name', 'block-arg')} is not available")
                for r in op.regions:
                    walk_region(r, vis)
                vis.update(op.results)
            # layout-order approximation for multi-block regions
            vis_region = vis
    for op in module.body.block.ops:
        for r in op.regions:
            walk_region(r, set())
    return errs
