"""CSR machine that also answers memref descriptor queries (for accelerator lowerings that read pointers/sizes from memrefs)."""
from __future__ import annotations

from dataclasses import dataclass

from .machines import CSRMachine


@dataclass
class Desc:
    base: int
    sizes: list
    strides: list
    offset: int
    elsize: int


class MemrefCSRMachine(CSRMachine):
    def __init__(self):
        super().__init__(record_setups=True)

    def descriptor(self, base, sizes, strides, offset=0, elsize=4):
        return Desc(base, list(sizes), list(strides), offset, elsize)

    def exec(self, op, operands, env):
        n = op.name
        if n == "memref.extract_aligned_pointer_as_index":
            return [operands[0].base]
        if n == "memref.extract_strided_metadata":
            d = operands[0]
            return [d, d.offset, *d.sizes, *d.strides]
        if n == "memref.dim":
            return [operands[0].sizes[operands[1]]]
        return super().exec(op, operands, env)
