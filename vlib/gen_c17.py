"""Loop-nest recipes for C17 (loop restructuring preserves the executed operation sequence).

A recipe is JSON:
  {"passes": [pass names in order], "nidx": n index arguments, "mems": [[dim, ...], ...] memref arguments (dim 0 = dynamic),
   "consts": [ints], "body": [statement, ...], "inputs": [input vector, ...]}

Statements (every reference is an int taken modulo the number of values visible at that point, so every recipe builds valid IR;
negative references address the most recently defined values):
  ["mark", [vref, ...]]                    "test.op"(index values) {tag}                  tagged side effect
  ["call", [vref, ...]]                    func.call @ext1/@ext2(index values)            tagged side effect
  ["val",  [vref, ...]]                    %x = "test.op"(index values) {tag} -> index    tagged side effect with an opaque index result
  ["pure", opname, vref, vref]             arith.addi/muli/subi/minsi/maxsi
  ["const", v]                             arith.constant defined where the statement stands (possibly inside a loop)
  ["dim", mref, k]                         memref.dim (index constant at function top or inline, see "inline_idx")
  ["amin", cap, lvl, swapped]              affine.min (d0)[s0] -> (cap, s0 - d0) on an enclosing loop's (iv, ub); swapped = result order reversed
  ["alloc", [sizespec, ...]]               memref.alloc rank 1..3
  ["subview", mref, [[offspec, sizespec], [offspec, sizespec]]]   memref.subview (unit strides, not rank reducing)
  ["use", [mref, ...], [vref, ...]]        "test.op"(memrefs, index values) {tag}         tagged side effect
  ["chain", spec]                          size chain (see _chain): leaf size -> subview -> memref.dim -> [subview -> memref.dim] -> alloc + use,
                                           expanded by the builder, which knows the ranks of the memrefs the references resolve to
  ["for", hdr, body, carried]              scf.for; hdr = {"lb": bspec, "ub": bspec, "step": sspec};
                                           carried = [["i", init vref, yield vref] | ["m", init mref, yield mref], ...]
  ["if", [pred, vref, vref], then, else]   scf.if on arith.cmpi
sizespec: ["s", n] static | ["v", vref] any visible index | ["d", mref, k] a fresh memref.dim used only here | ["m", cap, lvl] a fresh affine.min used only here
offspec : ["s", n] | ["v", vref]
bspec   : ["c", v] constant at function top | ["a"] dedicated function argument | ["v", vref] any visible index value
sspec   : ["c", v>0] | ["a"]
Input vector: {"a": [index argument values], "m": [[dims] per memref argument], "loops": [[lb, ub, step] per loop for its "a" slots]}
"""
from __future__ import annotations

from hypothesis import strategies as st

PURE_OPS = ["addi", "muli", "subi", "minsi", "maxsi"]
ELT = "i32"
STATIC_EXT = [[16, 14, 15], [18, 17, 20], [19, 22, 21]]  # static extents of memref arguments, by (argument, dimension)


# ------------------------------------------------------------------------------------ strategies

def _vref():
    return st.integers(-6, 17)


def _mref():
    return st.integers(-4, 7)


def _vrefs(lo, hi):
    return st.lists(_vref(), min_size=lo, max_size=hi)


HDR_KINDS = {
    "canon": ["const"] * 9 + ["dyn", "mixed", "tri"],
    "both": ["const"] * 7 + ["dyn", "mixed", "tri"],
    "reuse": ["const"] * 3 + ["dyn", "mixed", "tri"],
}
UBS = [0, 1, 2, 3, 3, 4, 5, 5, 6, 6, 7, 7, 8, 8, 9, 9, 10, 12, -1, -3]


@st.composite
def _hdr(draw, flavour):
    """Loop header. 'canon' flavour is constant heavy (what the canonicalisation patterns look at)."""
    k = draw(st.sampled_from(HDR_KINDS[flavour]))
    step_c = draw(st.sampled_from([1, 1, 1, 2, 2, 3, 4, 5]))
    ub_c = draw(st.sampled_from(UBS))
    lb_c = draw(st.sampled_from([0] * 8 + [1, 2, 3, -1, -2, -4]))
    if k == "const":
        return dict(lb=["c", lb_c], ub=["c", ub_c], step=["c", step_c])
    if k == "dyn":
        return dict(lb=["a"], ub=["a"], step=["a"])
    if k == "mixed":
        which = draw(st.sampled_from(["lb", "ub", "step", "ub"]))
        h = dict(lb=["c", lb_c], ub=["c", ub_c], step=["c", step_c])
        h[which] = ["a"]
        return h
    # triangular / value dependent bound
    h = dict(lb=["c", lb_c], ub=["c", ub_c], step=["c", step_c])
    h[draw(st.sampled_from(["lb", "ub"]))] = ["v", draw(_vref())]
    return h


@st.composite
def _sizespec(draw, memrefy=True):
    k = draw(st.sampled_from(["s", "s", "v", "v", "d", "d", "m"] if memrefy else ["s", "v"]))
    if k == "s":
        return ["s", draw(st.sampled_from([1, 2, 4, 8]))]
    if k == "v":
        return ["v", draw(_vref())]
    if k == "d":
        return ["d", draw(_mref()), draw(st.integers(0, 2))]
    return ["m", draw(st.sampled_from([2, 3, 4, 8])), draw(st.integers(0, 2))]


@st.composite
def _offspec(draw):
    if draw(st.booleans()):
        return ["s", draw(st.sampled_from([0, 0, 1, 2]))]
    return ["v", draw(_vref())]


WEIGHTS = {
    # weights of the non-control statement kinds per flavour ("tile" = subview + alloc sized by its dims + use, the shape the
    # memory-space passes leave behind for reuse-memref-allocs)
    # "chain" = a size that reaches an alloc through one or two subview/dim links (see _chain)
    "canon": dict(mark=8, call=2, val=1, pure=3, const=1, dim=0, amin=0, alloc=1, subview=0, use=1, tile=0, pingpong=0, chain=0),
    "reuse": dict(mark=3, call=1, val=1, pure=2, const=2, dim=3, amin=2, alloc=5, subview=3, use=5, tile=5, pingpong=1, chain=4),
    "both": dict(mark=4, call=1, val=1, pure=2, const=1, dim=2, amin=1, alloc=3, subview=2, use=4, tile=4, pingpong=1, chain=2),
}
OBSERVABLE = ("mark", "call", "val", "use", "for", "if", "chain")


@st.composite
def _chain(draw):
    """A size that travels through subview/dim links before it sizes a buffer:

        %s0 = leaf                                      memref.dim %src, J | affine.min | in-loop constant | any visible index
        [tagged user of %s0]                            (so that %s0 itself is not hoisted first)
        %t1 = memref.subview %A[..] [.., %s0 at position I1, ..]
        %s1 = memref.dim %t1, I1                        I1 != J where the ranks allow it ("diff")
        [tagged user of %s1]
        [%t2 = memref.subview %B[..] [.., %s1 at position I2, ..];  %s2 = memref.dim %t2, I2]
        [scf.for {]  %buf = memref.alloc(%s_last [, other]) ; "test.op"(%t_last, %buf)  [}]

    Memref references are resolved by the builder (which knows the ranks); the other sizes of the subviews are arbitrary size specs, so
    the position of a dynamic size among the size operands differs from its dimension index."""
    lk = draw(st.sampled_from(["dim"] * 7 + ["amin"] * 2 + ["const", "v"]))
    if lk == "dim":
        # mostly a function argument (references 0..2 address the memref arguments)
        leaf = ["dim", draw(st.one_of(st.integers(0, 2), _mref())), draw(st.integers(0, 2))]
    elif lk == "amin":
        leaf = ["amin", draw(st.sampled_from([2, 3, 4, 8])), draw(st.integers(0, 2))]
    elif lk == "const":
        leaf = ["const", draw(st.sampled_from([1, 2, 3, 4, 8]))]
    else:
        leaf = ["v", draw(_vref())]
    levels = []
    nlev = draw(st.sampled_from([1, 1, 1, 1, 2, 2, 2, 3]))
    for li in range(nlev):
        levels.append(dict(
            src=draw(st.one_of(st.integers(0, 2), _mref())),
            i=draw(st.integers(0, 2)),
            diff=draw(st.sampled_from([True, True, True, False])),
            read=draw(st.sampled_from([None] * 7 + [0, 1])),  # None: the dim reads the position the chained size sits at
            offs=[draw(_offspec()) for _ in range(3)],
            others=[draw(_sizespec()) for _ in range(3)],
            users=draw(st.sampled_from([0, 0, 1, 2]) if li + 1 < nlev else st.sampled_from([0] * 6 + [1, 2])),
        ))
    return ["chain", dict(
        leaf=leaf,
        leaf_users=draw(st.sampled_from([0, 1, 1, 2])),
        levels=levels,
        second=draw(st.one_of(st.none(), st.none(), _sizespec())),  # a second alloc dimension
        nest=draw(st.sampled_from([0, 0, 0, 0, 0, 1, 2])),  # 1: alloc + use inside a further loop; 2: last dim too
        nest_ub=draw(st.sampled_from([1, 2, 3])),
        use_idx=draw(_vrefs(0, 1)),
    )]


@st.composite
def _simple(draw, kinds):
    """One non-control statement group (a list of statements kept adjacent)."""
    k = draw(st.sampled_from(kinds))
    if k in ("mark", "call", "val"):
        return [[k, draw(_vrefs(1, 2 if k != "mark" else 3))]]
    if k == "pure":
        return [["pure", draw(st.sampled_from(PURE_OPS)), draw(_vref()), draw(_vref())]]
    if k == "const":
        return [["const", draw(st.sampled_from([0, 1, 2, 3, 4, 8]))]]
    if k == "dim":
        return [["dim", draw(_mref()), draw(st.integers(0, 2))]]
    if k == "amin":
        return [["amin", draw(st.sampled_from([2, 3, 4, 8])), draw(st.integers(0, 2)), draw(st.sampled_from([False] * 7 + [True]))]]
    if k == "chain":
        return [draw(_chain())]
    if k == "alloc":
        return [["alloc", draw(st.lists(_sizespec(), min_size=1, max_size=draw(st.sampled_from([2, 2, 2, 3]))))]]
    if k == "subview":
        return [["subview", draw(_mref()), [[draw(_offspec()), draw(_sizespec())] for _ in range(draw(st.sampled_from([2, 2, 3])))]]]
    if k == "use":
        return [["use", draw(st.lists(_mref(), min_size=1, max_size=2)), draw(_vrefs(0, 2))]]
    if k == "pingpong":
        # a buffer per iteration handed to the next iteration through an iter_arg (a use spans iterations)
        sizes = [["s", draw(st.sampled_from([2, 4]))] for _ in range(draw(st.integers(1, 2)))]
        body = [["alloc", sizes], ["use", [-2, -1], draw(_vrefs(0, 1))]]
        hdr = dict(lb=["c", 0], ub=["c", draw(st.integers(0, 4))], step=["c", 1])
        return [["alloc", sizes], ["for", hdr, body, [["m", -1, draw(st.sampled_from([-1, -1, -2]))]]]]
    # tile: view of some memref, a buffer sized by the view's dimensions (or a static / other size), a use of both
    sv = ["subview", draw(_mref()), [[draw(_offspec()), draw(_sizespec())] for _ in range(2)]]
    sizes = [draw(st.sampled_from([["d", -1, j]] * 4 + [["s", 4], ["v", draw(_vref())]])) for j in range(draw(st.integers(1, 2)))]
    grp = [sv, ["alloc", sizes], ["use", [-2, -1], draw(_vrefs(0, 1))]]
    if draw(st.sampled_from([False, False, True])):
        grp.append(["mark", [draw(_vref())]])
    return grp


def _block(flavour, depth, budget):
    kinds = [k for k, wt in WEIGHTS[flavour].items() for _ in range(wt)]

    @st.composite
    def block(draw, depth=depth, budget=budget, top=False, inloop=False):
        nfor = draw(st.sampled_from([1, 1, 1, 2] if top else [0, 0, 1, 1, 1, 2])) if depth > 0 else 0
        nif = draw(st.sampled_from([0] * 7 + [1])) if depth > 0 else 0
        if nfor and inloop and flavour != "reuse":
            nother = draw(st.sampled_from([0, 0, 0, 1, 1, 2, 3]))  # perfect and nearly perfect nests
        else:
            nother = draw(st.integers(0 if nfor + nif else 1, max(1, min(4, budget))))
        groups = [draw(_simple(kinds)) for _ in range(nother)]
        for _ in range(nfor):
            hdr = draw(_hdr(flavour))
            body = draw(block(depth=depth - 1, budget=max(1, budget // 2), inloop=True))
            carried = []
            c = draw(st.sampled_from(["none"] * 30 + ["i", "i", "m"]))
            if c == "i":
                carried = [["i", draw(_vref()), draw(_vref())]]
            elif c == "m":
                carried = [["m", draw(_mref()), draw(_mref())]]
            groups.append([["for", hdr, body, carried]])
        for _ in range(nif):
            th = draw(block(depth=depth - 1, budget=max(1, budget // 2), inloop=inloop))
            el = draw(st.one_of(st.just([]), block(depth=depth - 1, budget=max(1, budget // 2), inloop=inloop)))
            groups.append([["if", [draw(st.sampled_from([0, 1, 2, 4])), draw(_vref()), draw(_vref())], th, el]])
        if len(groups) > 1:
            groups = draw(st.permutations(groups))
        out = [s for g in groups for s in g]
        if inloop and not any(s[0] in OBSERVABLE for s in out):
            out.append(["mark", [draw(_vref())]])
        return out

    return block


def count_loops(body):
    n = 0
    for s in body:
        if s[0] == "for":
            n += 1 + count_loops(s[2])
        elif s[0] == "if":
            n += count_loops(s[2]) + count_loops(s[3])
    return n


@st.composite
def _inputs(draw, nidx, mems, nloops, nvec):
    vecs = []
    for _ in range(nvec):
        a = [draw(st.integers(0, 9)) for _ in range(nidx)]
        # every dynamic extent of every memref argument is different (a pass that reads the wrong dimension or the wrong memref
        # is then visible in the evaluated sizes)
        ndyn = sum(len(dims) for dims in mems)
        ext = draw(st.lists(st.integers(1, 13), min_size=ndyn, max_size=ndyn, unique=True))
        m = [[ext.pop() for _ in dims] for dims in mems]
        loops = []
        for _ in range(nloops):
            lb = draw(st.sampled_from([0, 0, 0, 1, 2, 5, -1, -3]))
            step = draw(st.sampled_from([1, 1, 2, 3, 4]))
            ub = lb + draw(st.sampled_from([-2, 0, 1, 2, 3, 4, 5, 7, 8]))
            loops.append([lb, ub, step])
        vecs.append(dict(a=a, m=m, loops=loops))
    return vecs


@st.composite
def program(draw, tier="quick", flavour="canon"):
    depth = 3
    budget = 9 if tier == "quick" else 14
    nidx = draw(st.integers(1, 3))
    # memref arguments of different ranks; a static extent is different for every (argument, dimension) and from every run-time extent
    if flavour == "canon":
        nmem, ranks = draw(st.integers(1, 2)), [1, 2]
    else:
        nmem, ranks = draw(st.sampled_from([1, 2, 2, 3, 3])), [1, 2, 2, 2, 3, 3]
    mems = [[draw(st.sampled_from([0, 0, 0, STATIC_EXT[k][p]])) for p in range(draw(st.sampled_from(ranks)))] for k in range(nmem)]
    consts = draw(st.lists(st.sampled_from([0, 1, 2, 3, 4, 8]), min_size=1, max_size=3, unique=True))
    body = draw(_block(flavour, depth, budget)(top=True))
    inputs = draw(_inputs(nidx, mems, count_loops(body), 2))
    return dict(nidx=nidx, mems=mems, consts=consts, body=body, inputs=inputs,
                inline_idx=draw(st.sampled_from([False, False, False, True])))


# ------------------------------------------------------------------------------------ builder

class Built:
    def __init__(self):
        self.text = ""
        self.arg_names: list[str] = []
        self.arg_kinds: list[tuple] = []  # ("idx", k) | ("mem", k) | ("loop", lid, slot)
        self.nloops = 0
        self.features: set[str] = set()


class _Mem:
    __slots__ = ("name", "ty", "dims")

    def __init__(self, name, ty, dims):
        self.name, self.ty, self.dims = name, ty, dims  # dims: list of int (static) or None (dynamic)


def _memref_ty(dims, strided=False):
    shape = "x".join("?" if d is None else str(d) for d in dims)
    if strided:
        return f"memref<{shape}x{ELT}, strided<[{', '.join('?' for _ in dims)}], offset: ?>>"
    return f"memref<{shape}x{ELT}>"


def build(recipe) -> Built:
    b = Built()
    counter = [0]
    tagc = [0]

    def fresh(p="v"):
        counter[0] += 1
        return f"%{p}{counter[0]}"

    def tag():
        tagc[0] += 1
        return tagc[0]

    nidx = recipe["nidx"]
    args: list[tuple[str, str]] = []
    for i in range(nidx):
        args.append((f"%a{i}", "index"))
        b.arg_kinds.append(("idx", i))
    mems0 = []
    for k, dims in enumerate(recipe["mems"]):
        d = [None if x == 0 else x for x in dims]
        ty = _memref_ty(d)
        args.append((f"%m{k}", ty))
        b.arg_kinds.append(("mem", k))
        mems0.append(_Mem(f"%m{k}", ty, d))
    top_consts: list[str] = []
    ipool0 = [f"%a{i}" for i in range(nidx)]
    for i, c in enumerate(recipe["consts"]):
        top_consts.append(f"    %c{i} = arith.constant {c} : index")
        ipool0.append(f"%c{i}")
    hdr_consts: dict[int, str] = {}
    inline_idx = bool(recipe.get("inline_idx"))

    def hconst(v):
        if v not in hdr_consts:
            nm = f"%k{len(hdr_consts)}" if v >= 0 else f"%kn{len(hdr_consts)}"
            hdr_consts[v] = nm
            top_consts.append(f"    {nm} = arith.constant {v} : index")
        return hdr_consts[v]

    def pick(pool, r):
        return pool[r % len(pool)]

    def emit_size(spec, ipool, mpool, loops, out, pad):
        """Returns (static int | None, ssa name | None)."""
        k = spec[0]
        if k == "s":
            return spec[1], None
        if k == "v":
            return None, pick(ipool, spec[1])
        if k == "d":
            m = pick(mpool, spec[1])
            return None, emit_dim(m, spec[2], out, pad)
        return None, emit_amin(spec[1], spec[2], False, loops, ipool, out, pad)

    def emit_dim(m, k, out, pad):
        k = k % len(m.dims)
        if inline_idx:
            c = fresh("ci")
            out.append(f"{pad}{c} = arith.constant {k} : index")
        else:
            c = hconst(k)
        r = fresh("d")
        out.append(f'{pad}{r} = "memref.dim"({m.name}, {c}) : ({m.ty}, index) -> index')
        b.features.add("dim")
        return r

    def emit_amin(cap, lvl, swapped, loops, ipool, out, pad):
        if loops:
            iv, ub = loops[lvl % len(loops)]
        else:
            iv, ub = hconst(0), ipool[0]
        r = fresh("mn")
        res = f"({cap}, ((d0 * -1) + s0))" if not swapped else f"(((d0 * -1) + s0), {cap})"
        out.append(f'{pad}{r} = "affine.min"({iv}, {ub}) <{{map = affine_map<(d0)[s0] -> {res}>}}> {{tag = {tag()} : i64}} : (index, index) -> index')
        b.features.add("amin_swapped" if swapped else "amin")
        return r

    def emit_alloc_op(pairs, out, pad):
        """pairs: (static int | None, ssa name | None) per dimension."""
        dims = [sv for sv, _ in pairs]
        dyn = [name for _, name in pairs if name is not None]
        ty = _memref_ty(dims)
        r = fresh("al")
        out.append(f"{pad}{r} = memref.alloc({', '.join(dyn)}) {{alignment = 64 : i64}} : {ty}")
        b.features.add("alloc")
        return _Mem(r, ty, dims)

    def emit_subview_op(src, offs, pairs, out, pad):
        dims = [sv for sv, _ in pairs]
        sizes = [str(sv) if name is None else name for sv, name in pairs]
        ty = _memref_ty(dims, strided=True)
        r = fresh("sv")
        out.append(f"{pad}{r} = memref.subview {src.name}[{', '.join(offs)}] [{', '.join(sizes)}] [{', '.join('1' for _ in dims)}] : {src.ty} to {ty}")
        b.features.add("subview")
        return _Mem(r, ty, dims)

    def emit_mark(names, tys, out, pad):
        out.append(f'{pad}"test.op"({", ".join(names)}) {{tag = {tag()} : i64}} : ({", ".join(tys)}) -> ()')

    def emit_chain(c, ipool, mpool, ind, loops, out):
        """See _chain. Outside every loop nothing would be hoisted: the whole chain then gets a loop of its own."""
        b.features.add("chain")
        if loops:
            emit_chain_body(c, ipool, mpool, ind, loops, out)
            return
        _, iloops, ipool_in, hdr = open_loop(c["nest_ub"] + 1, ind, loops, ipool, out)
        inner: list[str] = []
        emit_chain_body(c, ipool_in, list(mpool), ind + 1, iloops, inner)
        close_loop(hdr, inner, ind, out)
        b.features.add("chain:in-own-loop")

    def emit_chain_body(c, ipool, mpool, ind, loops, out):
        """Values defined here become visible to later statements only at the end (references inside stay stable)."""
        pad = "  " * ind
        leaf = c["leaf"]
        prev_idx, prev_src = None, None  # dimension index / source memref of the previous link
        if leaf[0] == "dim":
            srcm = pick(mpool, leaf[1])
            prev_idx, prev_src = leaf[2] % len(srcm.dims), srcm.name
            cur = emit_dim(srcm, prev_idx, out, pad)
            if srcm.name.startswith("%m"):
                b.features.add("chain:leaf-dim-of-argument")
        elif leaf[0] == "amin":
            cur = emit_amin(leaf[1], leaf[2], False, loops, ipool, out, pad)
        elif leaf[0] == "const":
            cur = fresh("lc")
            out.append(f"{pad}{cur} = arith.constant {leaf[1]} : index")
        else:
            cur = pick(ipool, leaf[1])
        b.features.add(f"chain:leaf-{leaf[0]}")
        new_i = [] if leaf[0] == "v" else [cur]
        new_m = []
        late = []

        def users(kind, name, what):
            if kind == 1:
                emit_mark([name], ["index"], out, pad)
            elif kind == 2:
                late.append(name)
            if kind:
                b.features.add(f"chain:{what}-has-tagged-user")

        users(c["leaf_users"], cur, "leaf")
        nest = c["nest"]
        inner: list[str] = []
        ipad, iloops, ipool_in = pad, loops, ipool
        tile = None
        nlev = len(c["levels"])
        for li, lv in enumerate(c["levels"]):
            tm = pick(mpool, lv["src"])
            rank = len(tm.dims)
            pos = lv["i"] % rank
            if lv["diff"] and prev_idx is not None and pos == prev_idx and rank > 1:
                pos = (pos + 1) % rank
            offs, pairs = [], []
            for j in range(rank):
                ospec = lv["offs"][j % len(lv["offs"])]
                offs.append(str(ospec[1]) if ospec[0] == "s" else pick(ipool, ospec[1]))
                pairs.append((None, cur) if j == pos else emit_size(lv["others"][j % len(lv["others"])], ipool, mpool, loops, out, pad))
            tile = emit_subview_op(tm, offs, pairs, out, pad)
            new_m.append(tile)
            if prev_idx is not None:
                b.features.add("chain:index-differs-from-previous-link" if pos != prev_idx else "chain:index-same-as-previous-link")
                if prev_src != tm.name:
                    b.features.add("chain:link-on-other-memref")
            if sum(1 for sv, _ in pairs[:pos] if sv is None) != pos:
                b.features.add("chain:size-operand-position-differs-from-dim-index")
            rd = pos if lv["read"] is None else lv["read"] % rank
            if rd != pos:
                b.features.add("chain:dim-reads-other-position")
            if li + 1 == nlev and nest == 2:
                # the last dim sits in the consumer's loop, its subview before that loop
                ipad, iloops, ipool_in, hdr = open_loop(c["nest_ub"], ind, loops, ipool, out)
            cur = emit_dim(tile, rd, out if ipad == pad else inner, ipad)
            if ipad == pad:
                new_i.append(cur)
                users(lv["users"], cur, "inner-dim" if li + 1 < nlev else "last-dim")
            prev_idx, prev_src = rd, tile.name
        b.features.add(f"chain:levels-{nlev}")
        if nest == 1:
            ipad, iloops, ipool_in, hdr = open_loop(c["nest_ub"], ind, loops, ipool, out)
        tgt = out if ipad == pad else inner
        pairs = [(None, cur)]
        if c["second"] is not None:
            pairs.append(emit_size(c["second"], ipool_in, mpool, iloops, tgt, ipad))
        buf = emit_alloc_op(pairs, tgt, ipad)
        ops = [pick(ipool_in, r) for r in c["use_idx"]]
        if ipad != pad:
            ops = [ipool_in[-1]] + ops  # the consumer loop's induction variable
        emit_mark([tile.name, buf.name] + ops, [tile.ty, buf.ty] + ["index"] * len(ops), tgt, ipad)
        b.features.add("use")
        if ipad != pad:
            close_loop(hdr, inner, ind, out)
            b.features.add(f"chain:consumer-in-own-loop-{nest}")
        else:
            new_m.append(buf)
        for name in late:
            emit_mark([name], ["index"], out, pad)
        ipool.extend(new_i)
        mpool.extend(new_m)

    def open_loop(ub, ind, loops, ipool, out):
        iv = fresh("i")
        names = (hconst(0), hconst(ub), hconst(1))
        return "  " * (ind + 1), loops + [(iv, names[1])], list(ipool) + [iv], (iv, names)

    def close_loop(hdr, body_lines, ind, out):
        pad = "  " * ind
        iv, names = hdr
        out.append(f'{pad}"scf.for"({", ".join(names)}) ({{')
        out.append(f"{pad}^bb0({iv}: index):")
        out.extend(body_lines)
        out.append(f'{pad}  "scf.yield"() : () -> ()')
        out.append(f"{pad}}}) : (index, index, index) -> ()")
        b.features.add("loop")

    loop_arg_decls: list[tuple[str, str]] = []

    def emit_block(stmts, ipool, mpool, ind, loops):
        out: list[str] = []
        pad = "  " * ind
        for s in stmts:
            k = s[0]
            if k in ("mark", "val"):
                ops = [pick(ipool, r) for r in s[1]]
                tys = ", ".join(["index"] * len(ops))
                if k == "mark":
                    out.append(f'{pad}"test.op"({", ".join(ops)}) {{tag = {tag()} : i64}} : ({tys}) -> ()')
                else:
                    r = fresh("x")
                    out.append(f'{pad}{r} = "test.op"({", ".join(ops)}) {{tag = {tag()} : i64}} : ({tys}) -> index')
                    ipool.append(r)
                    b.features.add("opaque_val")
            elif k == "call":
                ops = [pick(ipool, r) for r in s[1]][:2]
                out.append(f'{pad}func.call @ext{len(ops)}({", ".join(ops)}) : ({", ".join(["index"] * len(ops))}) -> ()')
                b.features.add("call")
            elif k == "pure":
                r = fresh("p")
                out.append(f"{pad}{r} = arith.{s[1]} {pick(ipool, s[2])}, {pick(ipool, s[3])} : index")
                ipool.append(r)
            elif k == "const":
                r = fresh("lc")
                out.append(f"{pad}{r} = arith.constant {s[1]} : index")
                ipool.append(r)
            elif k == "dim":
                ipool.append(emit_dim(pick(mpool, s[1]), s[2], out, pad))
            elif k == "amin":
                ipool.append(emit_amin(s[1], s[2], s[3], loops, ipool, out, pad))
            elif k == "alloc":
                mpool.append(emit_alloc_op([emit_size(spec, ipool, mpool, loops, out, pad) for spec in s[1][:3]], out, pad))
            elif k == "subview":
                src = pick(mpool, s[1])
                offs, pairs = [], []
                for j in range(len(src.dims)):
                    ospec, sspec = s[2][j % len(s[2])]
                    offs.append(str(ospec[1]) if ospec[0] == "s" else pick(ipool, ospec[1]))
                    pairs.append(emit_size(sspec, ipool, mpool, loops, out, pad))
                mpool.append(emit_subview_op(src, offs, pairs, out, pad))
            elif k == "use":
                ms = [pick(mpool, r) for r in s[1]]
                ops = [pick(ipool, r) for r in s[2]]
                names = [m.name for m in ms] + ops
                tys = [m.ty for m in ms] + ["index"] * len(ops)
                out.append(f'{pad}"test.op"({", ".join(names)}) {{tag = {tag()} : i64}} : ({", ".join(tys)}) -> ()')
                b.features.add("use")
            elif k == "chain":
                emit_chain(s[1], ipool, mpool, ind, loops, out)
            elif k == "for":
                _, hdr, body, carried = s
                lid = b.nloops
                b.nloops += 1
                names = {}
                for key in ("lb", "ub", "step"):
                    spec = hdr[key]
                    if spec[0] == "c":
                        names[key] = hconst(spec[1])
                    elif spec[0] == "a":
                        nm = f"%{key}{lid}"
                        loop_arg_decls.append((nm, "index"))
                        b.arg_kinds.append(("loop", lid, key))
                        names[key] = nm
                        b.features.add("dyn_bound")
                    else:
                        names[key] = pick(ipool, spec[1])
                        b.features.add("value_bound")
                iv = fresh("i")
                inits, bargs, btys = [], [], []
                in_ipool, in_mpool = list(ipool) + [iv], list(mpool)
                cinfo = []
                for c in carried:
                    if c[0] == "i":
                        init = pick(ipool, c[1])
                        ba = fresh("ci")
                        inits.append(init)
                        bargs.append(ba)
                        btys.append("index")
                        in_ipool.append(ba)
                        cinfo.append(("i", ba, c[2], "index"))
                        b.features.add("iter_arg_index")
                    else:
                        m = pick(mpool, c[1])
                        ba = fresh("cm")
                        inits.append(m.name)
                        bargs.append(ba)
                        btys.append(m.ty)
                        in_mpool.append(_Mem(ba, m.ty, m.dims))
                        cinfo.append(("m", ba, c[2], m.ty))
                        b.features.add("iter_arg_memref")
                body_lines = emit_block(body, in_ipool, in_mpool, ind + 1, loops + [(iv, names["ub"])])
                ylds = []
                for kind, ba, yref, ty in cinfo:
                    if kind == "i":
                        ylds.append(pick(in_ipool, yref))
                    else:
                        cands = [m for m in in_mpool if m.ty == ty]
                        ylds.append(pick(cands, yref).name)
                res = [fresh("r") for _ in cinfo]
                lhs = (", ".join(res) + " = ") if res else ""
                out.append(f'{pad}{lhs}"scf.for"({", ".join([names["lb"], names["ub"], names["step"]] + inits)}) ({{')
                out.append(f'{pad}^bb0({", ".join(f"{n}: {t}" for n, t in zip([iv] + bargs, ["index"] + btys))}):')
                out.extend(body_lines)
                out.append(f'{pad}  "scf.yield"({", ".join(ylds)}) : ({", ".join(btys)}) -> ()')
                out.append(f'{pad}}}) : ({", ".join(["index"] * 3 + btys)}) -> ({", ".join(btys)})')
                for (kind, ba, yref, ty), r in zip(cinfo, res):
                    if kind == "i":
                        ipool.append(r)
                    else:
                        src = next(m for m in in_mpool if m.name == ba)
                        mpool.append(_Mem(r, ty, src.dims))
                b.features.add("loop")
            elif k == "if":
                _, cond, th, el = s
                c = fresh("q")
                out.append(f"{pad}{c} = arith.cmpi {['eq', 'ne', 'slt', 'sle', 'sgt', 'sge'][cond[0] % 6]}, {pick(ipool, cond[1])}, {pick(ipool, cond[2])} : index")
                th_lines = emit_block(th, list(ipool), list(mpool), ind + 1, loops)
                el_lines = emit_block(el, list(ipool), list(mpool), ind + 1, loops)
                out.append(f'{pad}"scf.if"({c}) ({{')
                out.extend(th_lines)
                out.append(f'{pad}  "scf.yield"() : () -> ()')
                out.append(f"{pad}}}, {{")
                out.extend(el_lines)
                out.append(f'{pad}  "scf.yield"() : () -> ()')
                out.append(f"{pad}}}) : (i1) -> ()")
                b.features.add("if")
            else:
                raise ValueError(f"unknown statement {k}")
        return out

    body_lines = emit_block(recipe["body"], ipool0, list(mems0), 2, [])
    all_args = args + loop_arg_decls
    b.arg_names = [a for a, _ in all_args]
    lines = ["builtin.module {",
             "  func.func private @ext1(index) -> ()",
             "  func.func private @ext2(index, index) -> ()",
             f'  func.func @main({", ".join(f"{a}: {t}" for a, t in all_args)}) {{']
    lines.extend(top_consts)
    lines.extend(body_lines)
    lines.append("    func.return")
    lines.append("  }")
    lines.append("}")
    b.text = "\n".join(lines)
    return b


def input_vector(recipe, built: Built, k: int):
    """Argument values in function-argument order: ints for index arguments, dims lists for memref arguments."""
    inp = recipe["inputs"][k % len(recipe["inputs"])]
    out = []
    for kind in built.arg_kinds:
        if kind[0] == "idx":
            a = inp.get("a") or [0]
            out.append(a[kind[1] % len(a)])
        elif kind[0] == "mem":
            spec = recipe["mems"][kind[1]]
            ms = inp.get("m") or [[4, 4]]
            dims = ms[kind[1] % len(ms)]
            out.append(("mem", kind[1], tuple(s if s != 0 else dims[j % len(dims)] for j, s in enumerate(spec))))
        else:
            loops = inp.get("loops") or [[0, 3, 1]]
            lb, ub, step = loops[kind[1] % len(loops)]
            out.append(dict(lb=lb, ub=ub, step=max(1, step))[kind[2]])
    return out
