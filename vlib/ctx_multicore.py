"""Private context for the multi-core checks (C13, C14): the default snax-opt context plus snax_xdma,
registered the way snaxc/tools/config_parser.py registers it (one per process)."""
from __future__ import annotations

_CTX: list = []


def xdma_ctx():
    if not _CTX:
        from snaxc.accelerators.snax_xdma import SNAXXDMAAccelerator

        from .ctx import fresh_ctx

        c = fresh_ctx()
        acc = SNAXXDMAAccelerator()
        c.register_accelerator(SNAXXDMAAccelerator.name, lambda: acc)
        _CTX.append(c)
    return _CTX[0]
