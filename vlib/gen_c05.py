"""C05 generator: one `memref.copy %src, %dst` between two memrefs of equal shape, each side with its own layout.

Case recipe (plain JSON):
  {"elt": "i8|i16|i32|i64|i1|i4",
   "tb":  [[b_outer, ..., b_inner], ...]   run-time tile bounds per logical dimension (ints >= 1, outermost first)
   "dyn": [bool, ...]                      the memref dimension is `?`; its size (= product of tb[d]) is only known at run time
   "src": side, "dst": side,
   "bs": int, "bd": int}                   base address knobs (multiples of 8 bytes)
  side = {"kind": "none"}                                                        identity layout (row-major)
       | {"kind": "strided", "strides": [int...], "dyn_strides": [bool...],      run-time strides (elements); which of them are `?` in the type
          "offset": int, "dyn_offset": bool}
       | {"kind": "tsl", "steps": [[int|None, ...], ...], "offset": int}         steps per (dim, depth); None = `?` (dynamic step)
The tile bounds of a tsl side are `tb` (outermost bound `?` iff dyn[d]); both sides share them (the pass's stated constraint).
Tile depth > 1 only occurs when at least one side is tsl (a non-tsl side takes the tile bounds of the other side).

Layouts are *constructed* one-to-one: the positions (dim, depth) are nested in a drawn order, fastest first, and each step
is the extent of everything nested inside it times an optional gap factor (plus optional padding). The destination's order
is derived from the source's (identical / shared prefix of k positions / independent), so that whole-buffer, partial and
single-element common contiguous blocks are all frequent, as are equal steps at different dimensions on the two sides.
Unit bounds get arbitrary steps. An extra family makes the *source* overlap itself (repeated steps; a legal source).

Reference semantics (independent of the code under test):
  none:    addr(idx) = sum idx_d * rowmajor_stride_d            (MLIR identity layout)
  strided: addr(idx) = offset + sum idx_d * stride_d            (MLIR strided layout)
  tsl:     gen_tsl.addr on gen_tsl.instantiate(layout, run-time outer bounds)   (README of snaxc/ir/tsl)
Byte address of byte j of element idx: base + addr(idx) * elsize + j.
"""
from __future__ import annotations

import itertools

import numpy as np
from hypothesis import strategies as st

from . import gen_tsl as G

ELSIZE = {"i8": 1, "i16": 2, "i32": 4, "i64": 8, "i1": 1, "i4": 1}  # sub-byte types occupy one byte per element (FixedBitwidthType.size rounds up)
_BOUNDS = [1, 2, 2, 2, 3, 3, 4, 4, 4, 5, 6, 7, 8, 8]
_RT = [1, 2, 3, 4, 5]
_OFFSET = [0, 0, 0, 1, 5, 7, 64, 1000]

KIND_PAIRS = [
    ("tsl", "tsl"), ("tsl", "tsl"), ("tsl", "tsl"), ("tsl", "tsl"),
    ("tsl", "strided"), ("strided", "tsl"), ("tsl", "none"), ("none", "tsl"),
    ("tsl", "strided"), ("strided", "tsl"),
    ("strided", "strided"), ("strided", "strided"), ("strided", "none"), ("none", "strided"),
    ("none", "none"),
]


# ------------------------------------------------------------------------------------------------
# recipe -> types / descriptors / reference addresses


def positions(tb):
    return [(d, k) for d, bs in enumerate(tb) for k in range(len(bs))]


def rt_shape(r):
    out = []
    for bs in r["tb"]:
        p = 1
        for b in bs:
            p *= b
        out.append(p)
    return out


def rowmajor_strides(shape):
    s = [1] * len(shape)
    for d in range(len(shape) - 2, -1, -1):
        s[d] = s[d + 1] * shape[d + 1]
    return s


def tsl_layout(r, side):
    """gen_tsl layout recipe (static type view: None where the type says `?`)."""
    dims = []
    for d, bs in enumerate(r["tb"]):
        dims.append([[side["steps"][d][k], (None if (k == 0 and r["dyn"][d]) else b)] for k, b in enumerate(bs)])
    return dict(dims=dims, offset=side.get("offset", 0))


def _q(v):
    return "?" if v is None else str(v)


def tsl_text(layout):
    parts = []
    for dim in layout["dims"]:
        parts.append("[" + ", ".join(_q(b) for _, b in dim) + "] -> (" + ", ".join(_q(s) for s, _ in dim) + ")")
    s = ", ".join(parts)
    if layout.get("offset", 0):
        s += f", offset: {layout['offset']}"
    return f"#tsl.tsl<{s}>"


def memref_type_text(r, side):
    shape = rt_shape(r)
    dims = "x".join("?" if dy else str(n) for n, dy in zip(shape, r["dyn"]))
    k = side["kind"]
    if k == "none":
        lay = ""
    elif k == "strided":
        st_ = ", ".join("?" if dy else str(s) for s, dy in zip(side["strides"], side["dyn_strides"]))
        off = "?" if side["dyn_offset"] else str(side["offset"])
        lay = f", strided<[{st_}], offset: {off}>"
    else:
        lay = ", " + tsl_text(tsl_layout(r, side))
    return f"memref<{dims}x{r['elt']}{lay}>"


def module_text(r):
    t0, t1 = memref_type_text(r, r["src"]), memref_type_text(r, r["dst"])
    return (
        '"builtin.module"() ({\n'
        f'  "func.func"() <{{"sym_name" = "f", "function_type" = ({t0}, {t1}) -> (), "sym_visibility" = "public"}}> ({{\n'
        f"  ^bb0(%arg0 : {t0}, %arg1 : {t1}):\n"
        f'    "memref.copy"(%arg0, %arg1) : ({t0}, {t1}) -> ()\n'
        '    "func.return"() : () -> ()\n'
        "  }) : () -> ()\n"
        "}) : () -> ()\n"
    )


def ref_static_layout(r, side):
    """The run-time meaning of one side as a static gen_tsl layout recipe over the tile bounds `tb`."""
    tb = r["tb"]
    k = side["kind"]
    if k == "tsl":
        return G.instantiate(tsl_layout(r, side), [bs[0] for bs in tb])
    if k == "none":
        strides, off = rowmajor_strides(rt_shape(r)), 0
    else:
        strides, off = side["strides"], side["offset"]
    dims = []
    for d, bs in enumerate(tb):
        dim = []
        inner = 1
        for b in reversed(bs):
            dim.append([strides[d] * inner, b])
            inner *= b
        dims.append(dim[::-1])
    return dict(dims=dims, offset=off)


def ref_elem_addrs(r, side) -> np.ndarray:
    """Element address (offset included, base excluded) of every logical index; array of the run-time shape."""
    k = side["kind"]
    shape = rt_shape(r)
    if k == "tsl":
        return G.all_addrs(ref_static_layout(r, side))
    if k == "none":
        strides, off = rowmajor_strides(shape), 0
    else:
        strides, off = side["strides"], side["offset"]
    n = len(shape)
    out = np.full((1,) * n, off, dtype=np.int64)
    for d in range(n):
        sh = [1] * n
        sh[d] = shape[d]
        out = out + (np.arange(shape[d], dtype=np.int64) * strides[d]).reshape(sh)
    return out


def descriptor_fields(r, side):
    """(offset, sizes, strides|None) of the run-time memref descriptor."""
    shape = rt_shape(r)
    k = side["kind"]
    if k == "none":
        return 0, shape, rowmajor_strides(shape)
    if k == "strided":
        return side["offset"], shape, list(side["strides"])
    return side.get("offset", 0), shape, None


# ------------------------------------------------------------------------------------------------
# construction of one-to-one layouts


def nest_steps(tb, order, gaps, unit):
    """Steps for the positions in `order` (fastest first). gaps[p] = (mul, add); unit[p] = step of a unit-bound position
    given as ("e", f) -> f * extent or ("c", c) -> the constant c. Returns ({pos: step}, total extent)."""
    steps = {}
    extent = 1
    for p in order:
        d, k = p
        b = tb[d][k]
        if b == 1:
            kind, v = unit.get(p, ("e", 1))
            steps[p] = max(1, extent * v if kind == "e" else v)
            continue
        mul, add = gaps.get(p, (1, 0))
        s = extent * mul + add
        steps[p] = s
        extent = s * b
    return steps, extent


def _dim_sizes(tb):
    out = []
    for bs in tb:
        p = 1
        for b in bs:
            p *= b
        out.append(p)
    return out


@st.composite
def _gap(draw):
    g = draw(st.sampled_from([0, 0, 0, 1, 2, 3]))
    if g == 0:
        return (1, 0)
    return (1 + g, 0) if draw(st.booleans()) else (1, g)


@st.composite
def _unit(draw):
    return draw(st.sampled_from([("e", 1), ("e", 1), ("c", 1), ("e", 2), ("c", 2), ("c", 4), ("c", 8)]))


def _pk(p):
    return f"{p[0]}.{p[1]}"


@st.composite
def _tsl_side(draw, tb, dyn, order, gaps, unit, allow_dyn_steps):
    pos = positions(tb)
    dyn_pos = []
    if allow_dyn_steps:
        mode = draw(st.sampled_from(["none", "dyn-dims", "dyn-dims", "random", "all-outer"]))
        for d in range(len(tb)):
            # README domain: only the outermost tile of a dimension may have a dynamic step
            if mode == "dyn-dims":
                pick = dyn[d]
            elif mode == "random":
                pick = draw(st.booleans())
            else:
                pick = mode == "all-outer"
            if pick:
                dyn_pos.append((d, 0))
        if dyn_pos and draw(st.integers(0, 2)) == 0:  # one of them keeps a static step (the README's `[?, 4] -> (32, 4)`)
            dyn_pos.remove(draw(st.sampled_from(dyn_pos)))
        if len(dyn_pos) == len(pos):  # keep at least one static step (all-dynamic is C10's finding, not this property)
            dyn_pos = dyn_pos[:-1]
    static_order = [p for p in order if p not in dyn_pos]
    steps, _ = nest_steps(tb, static_order, gaps, unit)
    out = [[(None if (d, k) in dyn_pos else steps[(d, k)]) for k in range(len(bs))] for d, bs in enumerate(tb)]
    return dict(kind="tsl", steps=out, offset=draw(st.sampled_from(_OFFSET)))


@st.composite
def _strided_side(draw, tb, dyn, dim_order, gaps, any_dyn):
    n = len(tb)
    sizes = _dim_sizes(tb)
    strides = [0] * n
    extent = 1
    for d in dim_order:
        if sizes[d] == 1:
            strides[d] = draw(st.sampled_from([extent, extent, 1, 2 * extent, 7]))
            continue
        mul, add = gaps.get((d, len(tb[d]) - 1), (1, 0))
        strides[d] = extent * mul + add
        extent = strides[d] * sizes[d]
    if any_dyn:
        mode = draw(st.sampled_from(["none", "non-unit", "non-unit", "random", "all"]))
        if mode == "non-unit":
            dyn_strides = [s != 1 for s in strides]
        elif mode == "random":
            dyn_strides = [draw(st.booleans()) for _ in range(n)]
        else:
            dyn_strides = [mode == "all"] * n
        dyn_offset = draw(st.integers(0, 2)) == 0
    else:
        dyn_strides = [False] * n
        dyn_offset = False
    return dict(kind="strided", strides=strides, dyn_strides=dyn_strides,
                offset=draw(st.sampled_from([0, 0, 0, 3, 16, 100])), dyn_offset=dyn_offset)


def _rowmajor_order(tb):
    return [(d, k) for d in reversed(range(len(tb))) for k in reversed(range(len(tb[d])))]


def _dims_of_order(order, tb):
    """Dimension order (fastest first) implied by a position order: by the innermost tile of each dimension."""
    out = []
    for d, k in order:
        if k == len(tb[d]) - 1 and d not in out:
            out.append(d)
    return out


def _strided_pos_order(dim_order, tb):
    return [(d, k) for d in dim_order for k in reversed(range(len(tb[d])))]


@st.composite
def case(draw, tier="quick", kinds=None, static_only=False):
    max_elems = 4096 if tier == "quick" else 32768
    ks, kd = kinds or draw(st.sampled_from(KIND_PAIRS))
    tiled = "tsl" in (ks, kd)
    n = draw(st.sampled_from([1, 2, 2, 2, 3, 3, 4]))
    dynamic_case = (not static_only) and draw(st.integers(0, 2)) == 0
    dyn = [False] * n
    if dynamic_case:
        dmode = draw(st.sampled_from(["all", "random", "random", "one", "static-shape"]))
        if dmode == "all":
            dyn = [True] * n
        elif dmode == "random":
            dyn = [draw(st.booleans()) for _ in range(n)]
        elif dmode == "one":
            dyn[draw(st.integers(0, n - 1))] = True
    tb = []
    prod = 1
    for d in range(n):
        depth = draw(st.sampled_from([1, 1, 2, 2, 3])) if tiled else 1
        bs = []
        for k in range(depth):
            cap = max(1, min(8, max_elems // prod))
            if k == 0 and dyn[d]:
                b = min(cap, draw(st.sampled_from(_RT)))
            else:
                b = min(cap, draw(st.sampled_from(_BOUNDS)))
            bs.append(b)
            prod *= b
        tb.append(bs)
    pos = positions(tb)
    # bounds used for nesting: a `?` bound with static strides around it must leave room for more than the size of this
    # run (a type that is one-to-one only for one run-time size is legal but silly), so nest with the largest size (5) mostly
    roomy = draw(st.integers(0, 3)) > 0
    nb = [[(5 if roomy else max(2, b)) if (k == 0 and dyn[d]) else b for k, b in enumerate(bs)] for d, bs in enumerate(tb)]
    rt_tb = tb
    tb = nb  # noqa: PLW2901  (the nesting below only looks at nb; the recipe keeps the run-time bounds)

    # source nesting
    gaps_s = {p: draw(_gap()) for p in pos}
    unit_s = {p: draw(_unit()) for p in pos if tb[p[0]][p[1]] == 1}
    if ks == "none":
        order_s = _rowmajor_order(tb)
    elif ks == "strided":
        order_s = _strided_pos_order(list(draw(st.permutations(list(range(n))))), tb)
    else:
        order_s = list(draw(st.permutations(pos)))

    # destination nesting derived from the source's
    mode = draw(st.sampled_from(["same", "prefix", "prefix", "prefix", "indep", "indep"]))
    if mode == "same":
        order_d = list(order_s)
    elif mode == "prefix":
        k = draw(st.integers(0, len(pos)))
        order_d = order_s[:k] + list(draw(st.permutations(order_s[k:])))
    else:
        order_d = list(draw(st.permutations(pos)))
    same_gaps = draw(st.integers(0, 2)) > 0
    gaps_d = dict(gaps_s) if same_gaps else {p: draw(_gap()) for p in pos}
    unit_d = dict(unit_s) if draw(st.booleans()) else {p: draw(_unit()) for p in pos if tb[p[0]][p[1]] == 1}
    if draw(st.integers(0, 3)) == 0:  # dense variants are the common real-world case
        gaps_s = {}
        if same_gaps:
            gaps_d = {}

    any_dyn = dynamic_case

    def side(kind, order, gaps, unit):
        if kind == "none":
            return dict(kind="none")
        if kind == "strided":
            return draw(_strided_side(tb, dyn, _dims_of_order(order, tb), gaps, any_dyn))
        return draw(_tsl_side(tb, dyn, order, gaps, unit, any_dyn))

    src = side(ks, order_s, gaps_s, unit_s)
    dst = side(kd, order_d, gaps_d, unit_d)
    fam = "constructed"
    if not dynamic_case and ks != "none" and draw(st.integers(0, 9)) == 0:
        # overlapping source: copy the step of another position (repeated steps with bounds > 1)
        fam = "src-overlap"
        if ks == "tsl":
            p = draw(st.sampled_from(pos))
            same_b = [q for q in pos if q != p and tb[q[0]][q[1]] == tb[p[0]][p[1]]]
            others = same_b if (same_b and draw(st.integers(0, 3)) > 0) else [q for q in pos if q != p]
            if others:
                q = draw(st.sampled_from(others))
                src["steps"][p[0]][p[1]] = src["steps"][q[0]][q[1]]
            else:
                src["steps"][p[0]][p[1]] = 1
        else:
            sizes = _dim_sizes(tb)
            d = draw(st.integers(0, n - 1))
            same_b = [e for e in range(n) if e != d and sizes[e] == sizes[d]]
            others = same_b if (same_b and draw(st.integers(0, 3)) > 0) else [e for e in range(n) if e != d]
            src["strides"][d] = src["strides"][draw(st.sampled_from(others))] if others else 1
    return dict(elt=draw(st.sampled_from(["i8", "i8", "i16", "i16", "i32", "i32", "i32", "i64", "i64", "i1", "i4"])), tb=rt_tb, dyn=dyn, src=src, dst=dst,
                bs=draw(st.integers(0, 9)), bd=draw(st.integers(0, 9)), fam=fam)


# ------------------------------------------------------------------------------------------------
# exhaustive family: rank 2, depth <= 2, bounds <= 3, both sides tsl, static


def _family_layouts(tb, with_gaps):
    """All constructed layouts over `tb`: every nesting order x (no gap | factor-2 gap at one non-unit position).
    Unit-bound positions take the current extent as step. Distinct step tables only."""
    pos = positions(tb)
    seen = set()
    out = []
    for order in itertools.permutations(pos):
        gap_choices = [None] + ([p for p in pos if tb[p[0]][p[1]] > 1] if with_gaps else [])
        for gp in gap_choices:
            steps, _ = nest_steps(tb, list(order), ({gp: (2, 0)} if gp else {}), {})
            tab = tuple(tuple(steps[(d, k)] for k in range(len(bs))) for d, bs in enumerate(tb))
            if tab not in seen:
                seen.add(tab)
                out.append([list(t) for t in tab])
    return out


def exhaustive_pairs(max_bound=3):
    """(tb, src steps, dst steps): source from the gap-free family, destination from the family with one optional gap."""
    per_dim = [[b] for b in range(1, max_bound + 1)] + [[a, b] for a in range(1, max_bound + 1) for b in range(1, max_bound + 1)]
    for tb in itertools.product(per_dim, repeat=2):
        tb = [list(x) for x in tb]
        srcs = _family_layouts(tb, with_gaps=False)
        dsts = _family_layouts(tb, with_gaps=True)
        for s in srcs:
            for d in dsts:
                yield tb, s, d


def exhaustive_recipes(tier):
    stride = 1 if tier == "thorough" else 47
    elts = ["i8", "i16", "i32", "i64"]
    for i, (tb, s, d) in enumerate(exhaustive_pairs()):
        if i % stride:
            continue
        yield dict(elt=elts[(i // stride) % 4], tb=tb, dyn=[False, False],
                   src=dict(kind="tsl", steps=s, offset=0), dst=dict(kind="tsl", steps=d, offset=(i // stride) % 3),
                   bs=0, bd=0, fam="exhaustive")
