"""Tiled-strided-layout recipes, reference address function and Hypothesis strategies (C05, C09, C10, C11, C12).

Layout recipe (plain JSON):
    {"dims": [[[step, bound], ...], ...], "offset": int | None}
`dims[d]` lists the strides of logical dimension d from the OUTERMOST tile to the INNERMOST tile
(snaxc/ir/tsl/README.md: "the bounds and strides are ordered from outermost -> innermost").
A `None` step or bound is dynamic (`?` in the text form).

The reference semantics in this module are written from the README and the class docstrings. Nothing in the
"reference" section calls the code under test.
"""
from __future__ import annotations

import itertools

import numpy as np
from hypothesis import strategies as st

# ------------------------------------------------------------------------------------------------
# recipe <-> objects of the code under test


def mk_tsl(r):
    from snaxc.ir.tsl import Stride, TiledStride, TiledStridedLayout

    return TiledStridedLayout([TiledStride([Stride(s, b) for s, b in dim]) for dim in r["dims"]], offset=r.get("offset", 0))


def mk_attr(r):
    from snaxc.dialects.tsl import TiledStridedLayoutAttr

    return TiledStridedLayoutAttr(mk_tsl(r))


def tsl_to_recipe(t) -> dict:
    return dict(dims=[[[s.step, s.bound] for s in ts.strides] for ts in t.tstrides], offset=t.offset)


def layout(dims, offset=0) -> dict:
    return dict(dims=[[list(s) for s in d] for d in dims], offset=offset)


# ------------------------------------------------------------------------------------------------
# reference semantics (static layouts)


def is_dynamic(r) -> bool:
    return any(s is None or b is None for d in r["dims"] for s, b in d)


def rank(r) -> int:
    return len(r["dims"])


def max_depth(r) -> int:
    return max((len(d) for d in r["dims"]), default=0)


def shape_of(r) -> list[int]:
    """Logical shape: per dimension the product of its tile bounds (static layouts)."""
    out = []
    for d in r["dims"]:
        p = 1
        for _, b in d:
            p *= b
        out.append(p)
    return out


def n_elems(r) -> int:
    p = 1
    for s in shape_of(r):
        p *= s
    return p


def digits(i: int, bounds) -> list[int]:
    """Mixed-radix digits of i over `bounds` (outermost first). The outermost digit is not wrapped."""
    ds = []
    for b in reversed(bounds[1:]):
        ds.append(i % b)
        i //= b
    ds.append(i)
    return ds[::-1]


def addr(r, idx) -> int:
    """THE reference: address (in elements, offset included) of logical index `idx`."""
    a = r.get("offset", 0) or 0
    for i, dim in zip(idx, r["dims"]):
        for dg, (s, _) in zip(digits(i, [b for _, b in dim]), dim):
            a += dg * s
    return a


def dim_vector(dim) -> np.ndarray:
    """v[i] = contribution of index i of one dimension (sum of digit * step), i in 0..prod(bounds)-1."""
    v = np.zeros(1, dtype=np.int64)
    for s, b in reversed(dim):  # build from the innermost tile outwards: index = outer_digit * inner_size + inner_index
        v = (np.arange(b, dtype=np.int64)[:, None] * s + v[None, :]).reshape(-1)
    return v


def rel_addrs(r) -> np.ndarray:
    """Array of shape shape_of(r) holding addr(idx) - offset for every logical index."""
    n = rank(r)
    out = np.zeros((1,) * n if n else (), dtype=np.int64)
    for d, dim in enumerate(r["dims"]):
        v = dim_vector(dim)
        sh = [1] * n
        sh[d] = len(v)
        out = out + v.reshape(sh)
    return out


def all_addrs(r) -> np.ndarray:
    return rel_addrs(r) + (r.get("offset", 0) or 0)


def ref_overlaps(r) -> bool:
    a = rel_addrs(r).reshape(-1)
    return len(np.unique(a)) != len(a)


def ref_dense(r) -> bool:
    a = np.sort(rel_addrs(r).reshape(-1))
    return bool((a == np.arange(len(a))).all())


def positions(r):
    return [(d, k) for d, dim in enumerate(r["dims"]) for k in range(len(dim))]


# ------------------------------------------------------------------------------------------------
# reference semantics (dynamic layouts)
#
# README "Dynamic Sizes": only the outermost tile of a dimension may be dynamic. A dynamic bound is the run-time size of
# the dimension divided by the product of the inner tile bounds. Dynamic steps are determined densely: the first one is
# (largest static step) x (bound of that stride) and every next one is (previous dynamic step) x (its bound)
# (README example: 32 x 16 = 512). Comments in TiledStridedLayoutAttr.get_step_ops fix the order: dimensions right to
# left, within a dimension innermost to outermost. A layout built from a strided memref (from_strides) takes the
# dynamic step of the innermost tile of a dimension from the run-time stride of the memref instead.


def static_max_candidates(r):
    """Positions holding the largest static step (ties: all of them), and that step."""
    best = 0
    for d, k in positions(r):
        s = r["dims"][d][k][0]
        if s is not None and s > best:
            best = s
    return [(d, k) for d, k in positions(r) if r["dims"][d][k][0] == best and best > 0], best


def instantiate(r, rt_bounds, start=None, meta_strides=None) -> dict:
    """Static layout denoted by dynamic layout `r` at run time.
    rt_bounds[d]: run-time value of the outermost bound of dim d (used where the bound is dynamic).
    start: first dynamic step (elements). None: largest static step x its run-time bound (first candidate).
    meta_strides[d]: run-time memref stride of dim d (strided-memref family) or None."""
    dims = [[[s, (b if b is not None else rt_bounds[d])] for s, b in dim] for d, dim in enumerate(r["dims"])]
    if start is None:
        cands, best = static_max_candidates(r)
        if cands:
            d, k = cands[0]
            start = best * dims[d][k][1]
        else:
            start = 1  # everything dynamic: row-major-like, innermost rightmost stride is one element
    cur = start
    for d in reversed(range(len(dims))):
        for k in reversed(range(len(dims[d]))):
            if dims[d][k][0] is None:
                if meta_strides is not None and k == len(dims[d]) - 1 and meta_strides[d] is not None:
                    dims[d][k][0] = meta_strides[d]
                else:
                    dims[d][k][0] = cur
                cur = dims[d][k][0] * dims[d][k][1]
    return dict(dims=dims, offset=r.get("offset", 0))


# ------------------------------------------------------------------------------------------------
# strategies

_BOUNDS = [1, 2, 2, 2, 3, 3, 4, 4, 4, 5, 6, 7, 8, 8]


def _params(tier):
    return dict(max_rank=4, max_depth=3, max_bound=8, max_elems=4096 if tier == "quick" else 65536)


@st.composite
def tile_bounds_st(draw, tier="quick", min_rank=1, max_rank=None, max_depth=None, max_elems=None):
    """Per dimension a list of tile bounds (outermost first); total number of elements capped."""
    p = _params(tier)
    n = draw(st.integers(min_rank, max_rank or p["max_rank"]))
    cap_total = max_elems or p["max_elems"]
    out = []
    prod = 1
    for _ in range(n):
        depth = draw(st.integers(1, max_depth or p["max_depth"]))
        bs = []
        for _ in range(depth):
            cap = max(1, min(p["max_bound"], cap_total // prod))
            b = min(cap, draw(st.sampled_from(_BOUNDS)))
            bs.append(b)
            prod *= b
        out.append(bs)
    return out


_STEP = st.one_of(st.sampled_from([1, 1, 2, 3, 4, 8, 16, 32, 64]), st.integers(1, 64), st.integers(1, 2048))
_OFFSET = st.sampled_from([0, 0, 0, 1, 5, 7, 64, 1000])


@st.composite
def arbitrary_layout(draw, tier="quick", **kw):
    """Arbitrary positive layout: overlaps allowed, repeated steps and unit bounds frequent."""
    tb = draw(tile_bounds_st(tier, **kw))
    seen: list[int] = []
    dims = []
    for bs in tb:
        dim = []
        for b in bs:
            if seen and draw(st.integers(0, 4)) == 0:
                s = draw(st.sampled_from(seen))  # repeated step
            else:
                s = draw(_STEP)
            seen.append(s)
            dim.append([s, b])
        dims.append(dim)
    return dict(dims=dims, offset=draw(_OFFSET))


def _nested_steps(draw, tb, pos, base=1, dense=False):
    """Assign steps to the positions `pos` (list of (dim, depth)) of tile bounds `tb` so that they are one-to-one by
    construction: the positions are nested in a drawn order (fastest first) and each step is at least the extent of
    everything nested inside it. Returns ({pos: step}, order, extent, is_dense)."""
    order = list(draw(st.permutations(pos))) if pos else []
    steps = {}
    extent = base
    is_dense = base == 1
    for d, k in order:
        b = tb[d][k]
        if b == 1:
            # a unit bound never contributes: any step is allowed (this is where repeated steps come from)
            steps[(d, k)] = draw(st.one_of(st.just(extent), st.just(extent), st.integers(1, max(1, 2 * extent))))
            continue
        if dense:
            s = extent
        else:
            g = draw(st.sampled_from([0, 0, 1, 2, 3]))
            s = extent * (1 + g) if draw(st.booleans()) else extent + g
        if s != extent:
            is_dense = False
        steps[(d, k)] = s
        extent = s * b
    return steps, [list(p) for p in order], extent, is_dense


@st.composite
def nonoverlap_dims(draw, tb, base=1, dense=None):
    """Steps for all positions of `tb`, one-to-one by construction. Returns (dims, order, is_dense)."""
    pos = [(d, k) for d, bs in enumerate(tb) for k in range(len(bs))]
    if dense is None:
        dense = draw(st.booleans())
    steps, order, _, is_dense = _nested_steps(draw, tb, pos, base, dense)
    dims = [[[steps[(d, k)], b] for k, b in enumerate(bs)] for d, bs in enumerate(tb)]
    return dims, order, is_dense


@st.composite
def nonoverlap_layout(draw, tier="quick", base=1, **kw):
    tb = draw(tile_bounds_st(tier, **kw))
    dims, _, _ = draw(nonoverlap_dims(tb, base=base))
    return dict(dims=dims, offset=draw(_OFFSET))


@st.composite
def static_layout(draw, tier="quick", **kw):
    """Both families, tagged: {"fam": "nonoverlap"|"arbitrary", "layout": recipe}."""
    if draw(st.booleans()):
        return dict(fam="nonoverlap", layout=draw(nonoverlap_layout(tier, **kw)))
    return dict(fam="arbitrary", layout=draw(arbitrary_layout(tier, **kw)))


@st.composite
def dynamic_layout(draw, tier="quick", **kw):
    """A layout in the README's dynamic domain: only the outermost tile of a dimension is dynamic.
    The static strides are nested one-to-one. At most one dynamic stride (the "anchor") has a dynamic bound and a static
    step, which then is at least the extent of the static part (as in `[?, 4] -> (32, 4), [?, 4] -> (?, 1)`); every
    other dynamic stride has a dynamic step and a dynamic or static bound.
    Returns {"layout": recipe, "rt": [run-time outermost bound per dim]}."""
    tb = draw(tile_bounds_st(tier, max_elems=512, **kw))
    n = len(tb)
    dyn_dims = [d for d in range(n) if draw(st.integers(0, 2)) > 0]
    if not dyn_dims:
        dyn_dims = [draw(st.integers(0, n - 1))]
    pos = [(d, k) for d, bs in enumerate(tb) for k in range(len(bs)) if not (k == 0 and d in dyn_dims)]
    steps, _, extent, _ = _nested_steps(draw, tb, pos, 1, draw(st.booleans()))
    anchor = draw(st.sampled_from(dyn_dims + [None]))
    dims = []
    for d, bs in enumerate(tb):
        dim = [[steps.get((d, k)), b] for k, b in enumerate(bs)]
        if d in dyn_dims:
            if d == anchor:
                dim[0] = [extent * draw(st.sampled_from([1, 1, 2])), None]
            elif draw(st.integers(0, 2)) == 0:
                dim[0] = [None, bs[0]]
            else:
                dim[0] = [None, None]
        dims.append(dim)
    rt = [draw(st.sampled_from([1, 2, 3, 4, 6])) for _ in range(n)]
    return dict(layout=dict(dims=dims, offset=draw(_OFFSET)), rt=rt)


@st.composite
def strided_case(draw, tier="quick"):
    """A strided memref (StridedLayoutAttr) and tile bounds, the way snax-copy-to-dma builds a TSL for the non-TSL side
    of a copy: TiledStridedLayout.from_strides(strides, tile_bounds, offset).
    {"strides": [int|None], "tile_bounds": [[int|None,...]], "offset": int|None, "rt_strides": [int], "rt": [outer bound]}"""
    tb = draw(tile_bounds_st(tier, max_elems=512))
    n = len(tb)
    order = list(draw(st.permutations(list(range(n)))))  # nesting order of the dimensions, fastest first
    rt = []
    tbo = []
    for d in range(n):
        dyn_b = draw(st.integers(0, 3)) == 0
        rt.append(draw(st.sampled_from([1, 2, 3, 5])) if dyn_b else tb[d][0])
        tbo.append([None if dyn_b else tb[d][0]] + tb[d][1:])
    strides_rt = [0] * n
    ext = 1
    for d in order:
        size = rt[d]
        for b in tb[d][1:]:
            size *= b
        s = ext * draw(st.sampled_from([1, 1, 1, 2, 3]))
        strides_rt[d] = s
        ext = s * size
    strides = [None if draw(st.integers(0, 2)) == 0 else s for s in strides_rt]
    offset = draw(st.sampled_from([0, 0, 3, 16, None]))
    return dict(strides=strides, tile_bounds=tbo, offset=offset, rt_strides=strides_rt, rt=rt)


def enumerate_small(max_rank=2, max_depth=2, max_bound=3, max_step=6, min_depth=1):
    """Every static layout (as `dims`) of rank 1..max_rank with per-dimension depth min_depth..max_depth, bounds 1..max_bound,
    steps 1..max_step."""
    strides = [[s, b] for b in range(1, max_bound + 1) for s in range(1, max_step + 1)]
    per_dim = []
    for depth in range(min_depth, max_depth + 1):
        per_dim += [list(c) for c in itertools.product(strides, repeat=depth)]
    for n in range(1, max_rank + 1):
        for dims in itertools.product(per_dim, repeat=n):
            yield [[list(s) for s in d] for d in dims]


@st.composite
def layout_pair(draw, tier="quick", base=1, bounds_may_differ=False):
    """Two layouts with equal tile bounds (the precondition of a copy between them and of
    largest_common_contiguous_block). Families:
      shared-prefix: both one-to-one by construction; they share the k fastest strides, the rest is nested differently
      perturbed:     b is a copy of an arbitrary layout a with some steps changed
      dynamic:       a from dynamic_layout, b a copy with some static steps changed
    Returns {"fam", "a", "b", "start"} where start is the step of the fastest stride (1 = elements, >1 = bytes)."""
    fam = draw(st.sampled_from(["shared-prefix", "shared-prefix", "shared-prefix", "perturbed", "dynamic"] + (["bounds-differ"] if bounds_may_differ else [])))
    if fam in ("shared-prefix", "bounds-differ"):
        tb = draw(tile_bounds_st(tier))
        pos = [(d, k) for d, bs in enumerate(tb) for k in range(len(bs))]
        order = list(draw(st.permutations(pos)))
        k = draw(st.integers(0, len(pos)))

        def nest(seq, extent, steps):
            for d, kk in seq:
                b = tb[d][kk]
                if b == 1:
                    steps[(d, kk)] = draw(st.sampled_from([extent, extent, 1, 2 * extent]))
                    continue
                s = extent * (1 if draw(st.integers(0, 3)) > 0 else draw(st.sampled_from([2, 3])))
                steps[(d, kk)] = s
                extent = s * b
            return extent

        sa: dict = {}
        ext_k = nest(order[:k], base, sa)
        sb = dict(sa)
        nest(order[k:], ext_k, sa)
        nest(list(draw(st.permutations(order[k:]))), ext_k, sb)
        mk = lambda s: [[[s[(d, kk)], b] for kk, b in enumerate(bs)] for d, bs in enumerate(tb)]  # noqa: E731
        a, b = mk(sa), mk(sb)
        if fam == "bounds-differ":
            # same depth structure and steps, but 1..2 bounds of b changed (largest_common_contiguous_block compares strides itself;
            # equal tile bounds are a precondition of copies, not of that function)
            for _ in range(draw(st.integers(1, 2))):
                d, kk = draw(st.sampled_from(pos))
                old_b = b[d][kk][1]
                b[d][kk][1] = draw(st.sampled_from([x for x in (1, 2, 3, 4, 6, 8) if x != old_b]))
    elif fam == "perturbed":
        a = draw(arbitrary_layout(tier))["dims"]
        if base != 1:
            a = [[[s * base, b] for s, b in dim] for dim in a]
        b = [[[draw(_STEP) if draw(st.integers(0, 2)) == 0 else s, bd] for s, bd in dim] for dim in a]
    else:
        a = draw(dynamic_layout(tier))["layout"]["dims"]
        b = [[[draw(_STEP) if (s is not None and draw(st.integers(0, 3)) == 0) else s, bd] for s, bd in dim] for dim in a]
    return dict(fam=fam, a=dict(dims=a, offset=draw(_OFFSET)), b=dict(dims=b, offset=draw(_OFFSET)),
                start=1 if fam == "dynamic" else base)
