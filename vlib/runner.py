"""Runner: sharded Hypothesis search, replay tier, known-finding classification, evidence.

A property module (props/Cxx.py) exposes
    ID          : str
    RULE        : str   (how cases are generated and what "non-trivial" means)
    ASSUMPTIONS : list[str]
    LEVEL_TEXT  : str (optional)
    SUBS        : list[Sub]

Each Sub has a Hypothesis strategy producing JSON-serialisable *recipes* and a property
function `prop(recipe) -> Info`. The property function raises
    Violation(signature, detail)  the property is broken on this recipe
    Reject(reason)                the code under test declined the input in a documented way
    Outside(reason)               the recipe is outside the stated domain (oracle decided)
Anything else escaping `prop` is a harness error (exit 2, never a VIOLATION line).

Exit codes: 0 held / 1 violation not listed as known / 2 harness error.
"""
from __future__ import annotations

import hashlib
import json
import multiprocessing as mp
import os
import sys
import time
import traceback
from dataclasses import dataclass, field
from typing import Any, Callable, Iterable

VERIF = os.path.dirname(os.path.dirname(os.path.abspath(__file__)))
NPROC = int(os.environ.get("VERIF_NPROC", "16"))


class Violation(Exception):
    def __init__(self, signature: str, detail: Any = None):
        super().__init__(signature)
        self.signature = signature
        self.detail = detail


class Reject(Exception):
    pass


class Outside(Exception):
    pass


class HarnessError(Exception):
    pass


@dataclass
class Info:
    nontrivial: bool = False
    classes: tuple = ()
    sample: Any = None  # extra, human readable description of the case (e.g. MLIR text)
    evals: int = 1  # how many executions / evaluations this case performed
    known: list = field(default_factory=list)  # [(signature, detail)] known-finding hits observed inside a passing case


@dataclass
class Sub:
    name: str
    strategy: Callable[[str], Any]  # tier -> hypothesis strategy
    prop: Callable[[Any], Info]
    budget: dict  # {"quick": n, "thorough": m}
    exhaustive: Callable[[str], Iterable] | None = None  # tier -> iterable of recipes (finite space)
    exhaustive_only: bool = False
    floor: dict | None = None  # {"quick": min distinct nontrivial, ...}
    max_shards: int = 16
    nontrivial_rule: str = ""


def rhash(recipe) -> str:
    return hashlib.sha1(json.dumps(recipe, sort_keys=True, default=str).encode()).hexdigest()[:16]


def load_known(pid: str):
    path = os.path.join(VERIF, "known_findings.json")
    entries = []
    if os.path.exists(path):
        entries += json.load(open(path)).get("findings", [])
    extra = os.environ.get("VERIF_KNOWN_EXTRA")  # development aid only: candidate findings not yet committed
    if extra and os.path.exists(extra):
        entries += json.load(open(extra)).get("findings", [])
    out = {}
    for e in entries:
        if e.get("property") == pid and e.get("status") == "known":
            out[e["signature"]] = e
    return out


# ---------------------------------------------------------------------------------------
# worker side


class _Acc:
    """Per-shard accumulator."""

    def __init__(self):
        self.evaluations = 0
        self.cases = 0
        self.classes: dict[str, int] = {}
        self.nontrivial: set[str] = set()
        self.samples: list = []
        self.sample_classes: set = set()
        self.rejects: dict[str, int] = {}
        self.reject_examples: dict[str, Any] = {}
        self.outside: dict[str, int] = {}
        self.known_hits: dict[str, int] = {}
        self.known_examples: dict[str, Any] = {}
        self.violation = None  # (signature, recipe, detail)

    def export(self):
        return dict(
            evaluations=self.evaluations,
            cases=self.cases,
            classes=self.classes,
            nontrivial=sorted(self.nontrivial),
            samples=self.samples,
            rejects=self.rejects,
            reject_examples=self.reject_examples,
            outside=self.outside,
            known_hits=self.known_hits,
            known_examples=self.known_examples,
            violation=self.violation,
        )


def _bump(d, k, n=1):
    d[k] = d.get(k, 0) + n


def run_one(sub: Sub, recipe, acc: _Acc, known: dict, raise_unknown=True):
    """Run prop on one recipe, updating counters. Returns 'ok'|'reject'|'outside'|'known'|'violation'."""
    acc.cases += 1
    try:
        info = sub.prop(recipe)
    except Reject as e:
        _bump(acc.rejects, str(e)[:120])
        if len(acc.reject_examples) < 6 and str(e)[:120] not in acc.reject_examples:
            acc.reject_examples[str(e)[:120]] = recipe
        acc.evaluations += 1
        return "reject"
    except Outside as e:
        _bump(acc.outside, str(e)[:120])
        return "outside"
    except Violation as v:
        acc.evaluations += 1
        if v.signature in known:
            _bump(acc.known_hits, v.signature)
            if v.signature not in acc.known_examples:
                acc.known_examples[v.signature] = dict(recipe=recipe, detail=v.detail)
            return "known"
        acc.violation = (v.signature, recipe, v.detail)
        if raise_unknown:
            raise
        return "violation"
    if info is None:
        info = Info()
    acc.evaluations += max(1, info.evals)
    for sig, det in info.known:
        if sig in known:
            _bump(acc.known_hits, sig)
            if sig not in acc.known_examples:
                acc.known_examples[sig] = dict(recipe=recipe, detail=det)
        else:
            acc.violation = (sig, recipe, det)
            if raise_unknown:
                raise Violation(sig, det)
            return "violation"
    for c in info.classes:
        _bump(acc.classes, c)
    if info.nontrivial:
        acc.nontrivial.add(rhash(recipe))
        key = tuple(sorted(info.classes))
        if len(acc.samples) < 4 and key not in acc.sample_classes:
            acc.sample_classes.add(key)
            s = dict(sub=sub.name, recipe=recipe, classes=list(info.classes))
            if info.sample is not None:
                s["shown"] = info.sample
            acc.samples.append(s)
    return "ok"


def json_reduce(recipe, still_fails, max_tests=400):
    """Generic greedy reducer applied after Hypothesis' shrinker (which has a hard time cap): repeatedly delete one element of any
    list in the recipe, or replace a list element that is itself a list/dict-bearing statement by one of its list children, as long as
    `still_fails(candidate)` holds. Recipes are valid by construction for any list lengths the builders accept; a candidate on which the
    property function raises anything else than the same violation simply does not count as failing."""
    import copy

    tests = [0]

    def paths(node, prefix=()):
        if isinstance(node, list):
            yield prefix
            for i, x in enumerate(node):
                yield from paths(x, prefix + (i,))
        elif isinstance(node, dict):
            for k, x in node.items():
                yield from paths(x, prefix + (k,))

    def get(node, path):
        for k in path:
            node = node[k]
        return node

    changed = True
    while changed and tests[0] < max_tests:
        changed = False
        for path in sorted(paths(recipe), key=lambda p: (len(p), str(p))):
            lst = get(recipe, path)
            for i in range(len(lst)):
                cands = []
                c = copy.deepcopy(recipe)
                del get(c, path)[i]
                cands.append(c)
                if isinstance(lst[i], list):
                    for child in lst[i]:
                        if isinstance(child, list) and child and isinstance(child[0], list):
                            c2 = copy.deepcopy(recipe)
                            tgt = get(c2, path)
                            tgt[i:i + 1] = copy.deepcopy(child)
                            cands.append(c2)
                for c in cands:
                    tests[0] += 1
                    if tests[0] > max_tests:
                        return recipe
                    if still_fails(c):
                        recipe = c
                        changed = True
                        break
                if changed:
                    break
            if changed:
                break
    return recipe


def _shard_hypothesis(mod_name: str, sub_idx: int, n: int, seed: int, tier: str):
    import importlib

    import hypothesis
    from hypothesis import HealthCheck, Phase, given, settings

    mod = importlib.import_module(mod_name)
    sub: Sub = mod.SUBS[sub_idx]
    known = load_known(mod.ID)
    acc = _Acc()
    strat = sub.strategy(tier)

    phases = [Phase.generate, Phase.shrink]

    @hypothesis.seed(seed)
    @settings(
        max_examples=n,
        database=None,
        deadline=None,
        derandomize=False,
        report_multiple_bugs=False,
        print_blob=False,
        phases=phases,
        suppress_health_check=list(HealthCheck),
    )
    @given(strat)
    def test(recipe):
        run_one(sub, recipe, acc, known)

    err = None
    try:
        test()
    except Violation:
        pass  # acc.violation holds the last (minimal) failing recipe
    except BaseException as e:  # harness error
        if isinstance(e, (KeyboardInterrupt, SystemExit)):
            raise
        flaky = type(e).__name__ in ("Flaky", "FlakyFailure", "FlakyReplay")
        if flaky and acc.violation is not None:
            # the property failed on a case and passed when Hypothesis replayed the same case in the same process: the code under
            # test keeps state between calls (a process-wide cache, a shared default argument). The violation stands; the recipe alone
            # does not reproduce it in a fresh process, so this is said in the detail.
            sig_f, rec_f, det_f = acc.violation
            det_f = dict(det_f) if isinstance(det_f, dict) else dict(detail=det_f)
            det_f["history_dependent"] = ("failed, then passed when the same case was replayed in the same process: the outcome depends on "
                                          "earlier cases run in the process (state kept by the code under test between calls)")
            acc.violation = (sig_f, rec_f, det_f)
        else:
            err = "".join(traceback.format_exception(type(e), e, e.__traceback__))[-6000:]
    if acc.violation is not None and err is None and not (locals().get("flaky")):
        # post-reduction (the Hypothesis shrinker stops after 5 minutes; large thorough-tier finds stay large otherwise)
        sig0, recipe0, detail0 = acc.violation
        if len(json.dumps(recipe0, default=str)) > 600:
            def still_fails(c):
                try:
                    sub.prop(c)
                except Violation as v:
                    return v.signature == sig0
                except BaseException:
                    return False
                return False

            try:
                small = json_reduce(recipe0, still_fails)
                if small is not recipe0:
                    try:
                        sub.prop(small)
                    except Violation as v:
                        acc.violation = (sig0, small, v.detail)
            except BaseException:
                pass
    out = acc.export()
    out["error"] = err
    out["sub"] = sub_idx
    out["seed"] = seed
    return out


def _shard_exhaustive(mod_name: str, sub_idx: int, shard: int, nshards: int, tier: str):
    import importlib

    mod = importlib.import_module(mod_name)
    sub: Sub = mod.SUBS[sub_idx]
    known = load_known(mod.ID)
    acc = _Acc()
    err = None
    try:
        for i, recipe in enumerate(sub.exhaustive(tier)):
            if i % nshards != shard:
                continue
            r = run_one(sub, recipe, acc, known, raise_unknown=False)
            if r == "violation":
                break
    except BaseException as e:
        if isinstance(e, (KeyboardInterrupt, SystemExit)):
            raise
        err = "".join(traceback.format_exception(type(e), e, e.__traceback__))[-6000:]
    out = acc.export()
    out["error"] = err
    out["sub"] = sub_idx
    out["seed"] = -1 - shard
    out["exhaustive_part"] = True
    return out


def _worker(task):
    kind = task[0]
    try:
        if kind == "hyp":
            return _shard_hypothesis(*task[1:])
        return _shard_exhaustive(*task[1:])
    except BaseException as e:  # pragma: no cover
        return dict(error="".join(traceback.format_exception(type(e), e, e.__traceback__))[-6000:], sub=task[2], seed=0,
                    evaluations=0, cases=0, classes={}, nontrivial=[], samples=[], rejects={}, reject_examples={}, outside={},
                    known_hits={}, known_examples={}, violation=None)


# ---------------------------------------------------------------------------------------
# parent side


REPLAY_ROOT = [os.path.join(VERIF, "replays")]


def _write_replay(pid, sub_name, signature, recipe, detail, expect="violation", name=None):
    d = os.path.join(REPLAY_ROOT[0], pid)
    os.makedirs(d, exist_ok=True)
    h = name or ("found_" + rhash([sub_name, recipe]))
    path = os.path.join(d, h + ".json")
    with open(path, "w") as f:
        json.dump(dict(property=pid, sub=sub_name, expect=expect, signature=signature, recipe=recipe, detail=detail),
                  f, indent=1, default=str)
    return path


def _replay_files(pid):
    d = os.path.join(VERIF, "replays", pid)
    if not os.path.isdir(d):
        return []
    return sorted(os.path.join(d, f) for f in os.listdir(d) if f.endswith(".json"))


def replay_file(mod, path, known, acc_by_sub):
    data = json.load(open(path))
    subs = {s.name: s for s in mod.SUBS}
    sub = subs.get(data["sub"])
    if sub is None:
        raise HarnessError(f"replay {path}: unknown sub {data['sub']}")
    acc = acc_by_sub.setdefault(sub.name, _Acc())
    r = run_one(sub, data["recipe"], acc, known, raise_unknown=False)
    return r, acc


def main(mod_name: str, argv=None):
    import argparse
    import importlib

    ap = argparse.ArgumentParser()
    ap.add_argument("--tier", default=os.environ.get("VERIF_TIER", "quick"))
    ap.add_argument("--replay", default=None)
    ap.add_argument("--sub", default=None, help="only run this sub-check (development)")
    ap.add_argument("--scale", type=float, default=1.0, help="scale budgets (development)")
    ap.add_argument("--no-evidence", action="store_true")
    ap.add_argument("--no-replays", action="store_true", help="skip the replay tier (development: sensitivity of the generated tier)")
    ap.add_argument("--no-replay-write", action="store_true", help="write found violations under /var/tmp instead of replays/")
    args = ap.parse_args(argv)
    tier = args.tier if args.tier in ("quick", "thorough") else "quick"
    seed = int(os.environ.get("VERIF_SEED", "1") or "1")

    if args.no_replay_write:
        REPLAY_ROOT[0] = os.path.join("/var/tmp", "verif_found_replays")
    t0 = time.time()
    try:
        mod = importlib.import_module(mod_name)
    except BaseException as e:
        print(f"HARNESS-ERROR: cannot import {mod_name}: {e!r}")
        traceback.print_exc()
        return 2
    pid = mod.ID
    known = load_known(pid)
    printed_known: set[str] = set()
    violations: list[tuple[str, str]] = []  # (signature, replay path)
    harness_errors: list[str] = []

    def note_known(acc: _Acc):
        for sig in acc.known_hits:
            if sig not in printed_known:
                printed_known.add(sig)
                print(f"KNOWN-FINDING: property={pid} {sig}: {known[sig].get('what', '')}")

    # ---- single replay -----------------------------------------------------------------
    if args.replay:
        accs: dict[str, _Acc] = {}
        try:
            r, acc = replay_file(mod, args.replay, known, accs)
        except BaseException as e:
            print(f"HARNESS-ERROR: replay failed: {e!r}")
            traceback.print_exc()
            return 2
        note_known(acc)
        if r == "violation":
            sig, recipe, detail = acc.violation
            print(f"replay outcome: violation signature={sig}")
            print(json.dumps(detail, indent=1, default=str)[:4000])
            print(f"VIOLATION property={pid} replay={args.replay}")
            return 1
        print(f"replay outcome: {r}")
        return 0

    # ---- replay tier -------------------------------------------------------------------
    replay_accs: dict[str, _Acc] = {}
    n_replays = 0
    for path in ([] if args.no_replays else _replay_files(pid)):
        try:
            r, acc = replay_file(mod, path, known, replay_accs)
        except BaseException as e:
            harness_errors.append(f"replay {path}: {e!r}\n{traceback.format_exc()[-3000:]}")
            continue
        n_replays += 1
        note_known(acc)
        if r == "violation":
            sig = acc.violation[0]
            violations.append((sig, path))
            acc.violation = None

    # ---- generated tier ----------------------------------------------------------------
    tasks = []
    for si, sub in enumerate(mod.SUBS):
        if args.sub and sub.name != args.sub:
            continue
        n = int(sub.budget.get(tier, 0) * args.scale)
        if sub.exhaustive is not None:
            ns = min(NPROC, sub.max_shards)
            for sh in range(ns):
                tasks.append(("exh", mod_name, si, sh, ns, tier))
        if n > 0 and not sub.exhaustive_only:
            ns = max(1, min(NPROC, sub.max_shards, n // 20 or 1))
            per = (n + ns - 1) // ns
            for sh in range(ns):
                tasks.append(("hyp", mod_name, si, per, seed * 64 + sh, tier))

    results = []
    if tasks:
        if NPROC > 1 and len(tasks) > 1:
            ctx = mp.get_context("fork")
            with ctx.Pool(min(NPROC, len(tasks))) as pool:
                results = list(pool.imap_unordered(_worker, tasks, chunksize=1))
        else:
            results = [_worker(t) for t in tasks]
    results.sort(key=lambda r: (r["sub"], r["seed"]))

    per_sub: dict[str, dict] = {}
    total_eval = 0
    all_nontrivial = 0
    samples = []
    known_hits_total: dict[str, int] = {}

    def sub_entry(name):
        return per_sub.setdefault(name, dict(cases=0, evaluations=0, distinct_nontrivial=0, classes={}, rejects={},
                                             outside={}, known_finding_hits={}, _nt=set(), exhaustive=False))

    for name, acc in replay_accs.items():
        e = sub_entry(name)
        e["cases"] += acc.cases
        e["evaluations"] += acc.evaluations
        e["_nt"].update(acc.nontrivial)
        for k, v in acc.known_hits.items():
            _bump(e["known_finding_hits"], k, v)
        samples.extend(acc.samples[:1])

    for r in results:
        sub = mod.SUBS[r["sub"]]
        e = sub_entry(sub.name)
        if r.get("error"):
            harness_errors.append(f"[{sub.name} seed={r['seed']}] {r['error']}")
        e["cases"] += r["cases"]
        e["evaluations"] += r["evaluations"]
        e["_nt"].update(r["nontrivial"])
        if r.get("exhaustive_part"):
            e["exhaustive"] = True
        for k, v in r["classes"].items():
            _bump(e["classes"], k, v)
        for k, v in r["rejects"].items():
            _bump(e["rejects"], k, v)
        for k, v in r.get("reject_examples", {}).items():
            if len(e.setdefault("reject_examples", {})) < 4:
                e["reject_examples"].setdefault(k, v)
        for k, v in r["outside"].items():
            _bump(e["outside"], k, v)
        for k, v in r["known_hits"].items():
            _bump(e["known_finding_hits"], k, v)
            if k not in printed_known:
                printed_known.add(k)
                print(f"KNOWN-FINDING: property={pid} {k}: {known[k].get('what', '')}")
        if len([s for s in samples if s.get("sub") == sub.name]) < 3:
            samples.extend(r["samples"][:1])
        if r["violation"] is not None:
            sig, recipe, detail = r["violation"]
            if not any(v[0] == sig for v in violations):
                path = _write_replay(pid, sub.name, sig, recipe, detail)
                violations.append((sig, path))

    floor_fail = []
    for sub in mod.SUBS:
        if sub.name not in per_sub:
            continue
        e = per_sub[sub.name]
        e["distinct_nontrivial"] = len(e["_nt"])
        del e["_nt"]
        e["nontrivial_rule"] = sub.nontrivial_rule
        total_eval += e["evaluations"]
        all_nontrivial += e["distinct_nontrivial"]
        for k, v in e["known_finding_hits"].items():
            _bump(known_hits_total, k, v)
        if sub.floor and not args.sub and args.scale >= 1.0:
            fl = sub.floor.get(tier, 0)
            if e["distinct_nontrivial"] < fl:
                floor_fail.append((sub.name, e["distinct_nontrivial"], fl))
        # keep the evidence file readable
        for key in ("rejects", "outside"):
            if len(e[key]) > 12:
                items = sorted(e[key].items(), key=lambda kv: -kv[1])
                e[key] = dict(items[:12])
                e[key]["(other)"] = sum(v for _, v in items[12:])

    wall = time.time() - t0

    for sub_name, got, fl in floor_fail:
        if not harness_errors and not violations:
            # the code no longer handles the inputs the property is about (DESIGN 3.5)
            e = per_sub[sub_name]
            top = sorted(e["rejects"].items(), key=lambda kv: -kv[1])[:3]
            path = _write_replay(pid, sub_name, "nontrivial-floor", dict(sub=sub_name, got=got, floor=fl, top_rejects=top),
                                 "generated cases no longer reach the non-trivial class", name="floor_" + sub_name)
            violations.append((f"nontrivial-floor:{sub_name} got={got} floor={fl}", path))

    evidence = dict(
        property_id=pid,
        tier=tier,
        seed=seed,
        level="exploration",
        coverage=dict(
            evaluations=total_eval,
            distinct_nontrivial=all_nontrivial,
            rule=mod.RULE,
            samples=samples[:12],
            per_sub=per_sub,
            replays_run=n_replays,
            known_finding_hits=known_hits_total,
            exhaustive=bool(per_sub) and all(e["exhaustive"] and mod_sub.exhaustive_only
                                              for e, mod_sub in ((per_sub[s.name], s) for s in mod.SUBS if s.name in per_sub)),
            shards=len(tasks),
        ),
        assumptions=list(getattr(mod, "ASSUMPTIONS", [])),
        wall_s=round(wall, 2),
        violations=len(violations),
    )
    if not args.no_evidence and not args.sub:
        os.makedirs(os.path.join(VERIF, "evidence"), exist_ok=True)
        with open(os.path.join(VERIF, "evidence", pid + ".json"), "w") as f:
            json.dump(evidence, f, indent=1, default=str)

    print(f"[{pid}] tier={tier} seed={seed} evaluations={total_eval} distinct_nontrivial={all_nontrivial} "
          f"replays={n_replays} wall={wall:.1f}s")
    for name, e in per_sub.items():
        print(f"  - {name}: cases={e['cases']} evals={e['evaluations']} nontrivial={e['distinct_nontrivial']} "
              f"rejects={sum(e['rejects'].values())} outside={sum(e['outside'].values())} "
              f"known={sum(e['known_finding_hits'].values())}")
        if os.environ.get("VERIF_VERBOSE"):
            for k, v in sorted(e["classes"].items()):
                print(f"        {k}: {v}")
            for k, v in sorted(e["rejects"].items(), key=lambda kv: -kv[1])[:8]:
                print(f"        reject[{v}]: {k}")
            for k, v in sorted(e["outside"].items(), key=lambda kv: -kv[1])[:8]:
                print(f"        outside[{v}]: {k}")

    if harness_errors:
        print("HARNESS-ERROR: " + harness_errors[0])
        for h in harness_errors[1:3]:
            print("HARNESS-ERROR(more): " + h[-800:])
        return 2
    if violations:
        for sig, path in violations:
            print(f"violation signature: {sig}")
            print(f"VIOLATION property={pid} replay={os.path.relpath(path, VERIF)}")
        return 1
    return 0
