"""Stand-in for the `minimalloc` package (absent from this sandbox; DESIGN.md 1.2).

Surface used by snaxc/transforms/snax_allocate.py:
    Buffer(id, start, end, size, alignment) with mutable .end_time / .start_time
    Problem(buffers, capacity).solve() -> list of offsets (one per buffer, in order)

The solver is a deliberately greedy first-fit allocator over half-open lifetimes
[start, end): it reuses an address as soon as the lifetimes it is handed permit. That is
the adversarial choice for checking the lifetimes snax-mlir computes.
"""
from __future__ import annotations


class Buffer:
    def __init__(self, id, start_time=None, end_time=None, size=None, alignment=1, **kw):  # noqa: A002
        self.id = id
        self.start_time = start_time if start_time is not None else kw.get("start")
        self.end_time = end_time if end_time is not None else kw.get("end")
        self.size = size
        self.alignment = alignment or 1

    def __repr__(self):
        return f"Buffer({self.id!r}, {self.start_time}, {self.end_time}, {self.size}, {self.alignment})"


class Problem:
    def __init__(self, buffers, capacity):
        self.buffers = list(buffers)
        self.capacity = capacity

    def solve(self):
        placed = []  # (start, end, off, size)
        offsets = []
        for b in self.buffers:
            al = max(1, int(b.alignment))
            off = 0
            while True:
                moved = False
                for (s, e, o, sz) in placed:
                    time_overlap = b.start_time < e and s < b.end_time
                    if time_overlap and off < o + sz and o < off + b.size:
                        off = o + sz
                        off = ((off + al - 1) // al) * al
                        moved = True
                if not moved:
                    break
            if off + b.size > self.capacity:
                raise RuntimeError("minimalloc stub: no solution within capacity")
            placed.append((b.start_time, b.end_time, off, b.size))
            offsets.append(off)
        return offsets
